"""Boilerplate shared by the run-property checks (C02-C08, C11)."""
import json

import engine
import sim


def run_cases(run, cases, oracle, nontrivial, sample=None, layers=(1, 2, 3)):
    results = engine.cosim(run, cases, layers=layers)
    for c in cases:
        r = results.get(c["id"]) or {"outcome": ["hang", "no result"]}
        run.evaluations += 1
        run.count("threads=%d" % int(c.get("options", {}).get("nb_threads", 1)))
        run.count("outcome:" + str((r.get("outcome") or ["?"])[0]))
        try:
            if nontrivial(c, r):
                run.nontrivial.add(c["id"])
        except Exception:
            pass
        for sig, text in oracle(c, r):
            run.violation(sig, text, {"case": c, "outcome": r.get("outcome")})
        if len(run.samples) < 2:
            run.sample(sample(c, r) if sample else {"options": c.get("options"), "sched_prefix": c.get("sched", [])[:20],
                                                     "outcome": r.get("outcome"), "tasks": len(r.get("graph") or [])})
    run.coverage["traces_validated_against_impl"] = len([c for c in cases if results.get(c["id"], {}).get("graph")])
    return results


def make_replay(oracle):
    def replay(path):
        r = json.load(open(path))
        case = (r.get("replay") or {}).get("case") or ((r.get("broken") or [{}])[0].get("case"))
        if not case or "project" not in case:
            print("nothing to replay")
            return 2
        case.setdefault("id", "replay")
        case.setdefault("sched", [])
        res = sim.run_cases([case])[case["id"]]
        hits = oracle(case, res)
        print(json.dumps({"outcome": res.get("outcome"), "oracle": hits}, indent=1))
        return 1 if hits else 0
    return replay
