"""Boilerplate shared by the run-property checks (C02-C08, C11)."""
import json

import engine
import sim


def run_cases(run, cases, oracle, nontrivial, sample=None, layers=(1, 2, 3)):
    results = engine.cosim(run, cases, layers=layers)
    for c in cases:
        r = results.get(c["id"]) or {"outcome": ["hang", "no result"]}
        run.evaluations += 1
        run.count("threads=%d" % int(c.get("options", {}).get("nb_threads", 1)))
        run.count("outcome:" + str((r.get("outcome") or ["?"])[0]))
        try:
            if nontrivial(c, r):
                run.nontrivial.add(c["id"])
        except Exception:
            pass
        for sig, text in oracle(c, r):
            run.violation(sig, text, {"case": c, "outcome": r.get("outcome")})
        if len(run.samples) < 2:
            run.sample(sample(c, r) if sample else {"options": c.get("options"), "sched_prefix": c.get("sched", [])[:20],
                                                     "outcome": r.get("outcome"), "tasks": len(r.get("graph") or [])})
    run.coverage["traces_validated_against_impl"] = len([c for c in cases if results.get(c["id"], {}).get("graph")])
    search_failing_schedule(run, cases, oracle, results)
    return results


def search_failing_schedule(run, cases, oracle, results=None, tries=60):
    """DESIGN 2.2: when a correspondence broke and no oracle hit was found on the generated schedules, the projects on which the
    model and the implementation differ are re-run under many more adversarial schedules and thread counts, looking for a
    concrete run on which the property itself fails."""
    import copy
    import projgen
    if run.oracle_hits:
        return
    suspects = []
    for b in run.broken:
        c = b.get("case") if isinstance(b, dict) else None
        if b.get("kind") == "correspondence" and isinstance(c, dict) and "project" in c and c not in suspects:
            suspects.append(c)
    # projects whose implementation task graph does not enforce an ordering the properties need come first
    import runoracle
    structural = []
    for c in cases:
        g = ((results or {}).get(c["id"]) or {}).get("graph")
        v = runoracle.graph_structure_violations(g) if g else []
        if v:
            # a fixture / hook teardown that does not wait for a test is the most promising for every run property
            score = sum(3 for x in v if "Teardown" in x[2][0]) + len(v)
            structural.append((score, c))
    structural = [c for _, c in sorted(structural, key=lambda sc: -sc[0])]
    if structural:
        run.count("projects_with_unordered_task_pairs", len(structural))
        run.notes.append("task pairs left unordered by the implementation's graph, e.g. %s" % (
            runoracle.graph_structure_violations((results or {}).get(structural[0]["id"])["graph"])[:2],))
    suspects = structural[:3] + [c for c in suspects if c not in structural][:3]
    if not suspects:
        return
    variants = []
    for k, c in enumerate(suspects[:6]):
        base = next((x for x in cases if x["id"] == c.get("id")), None) or c
        for j in range(tries // max(1, min(3, len(suspects)))):
            v = copy.deepcopy(base)
            v["id"] = "search%d_%d" % (k, j)
            v.setdefault("options", {})
            v["options"]["nb_threads"] = run.rng.choice([2, 2, 3, 4])
            v["sched"] = projgen.gen_sched(run.rng, kind=run.rng.choice(["random", "last", "bursts", "zeros"]))
            variants.append(v)
    res = sim.run_cases(variants)
    run.count("schedules_searched_after_broken_tie", len(variants))
    for v in variants:
        r = res.get(v["id"]) or {"outcome": ["hang", "no result"]}
        for sig, text in oracle(v, r):
            run.violation(sig, text, {"case": v, "outcome": r.get("outcome"), "found_by": "schedule search after a broken correspondence"})


def make_replay(oracle):
    def replay(path):
        r = json.load(open(path))
        case = (r.get("replay") or {}).get("case") or ((r.get("broken") or [{}])[0].get("case"))
        if not case or "project" not in case:
            print("nothing to replay")
            return 2
        case.setdefault("id", "replay")
        case.setdefault("sched", [])
        res = sim.run_cases([case])[case["id"]]
        hits = oracle(case, res)
        print(json.dumps({"outcome": res.get("outcome"), "oracle": hits}, indent=1))
        return 1 if hits else 0
    return replay
