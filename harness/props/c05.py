"""C05 — the report does not depend on the schedule: N threads equals one thread.
Props/C05.v; DeterminismP.v (decisions and results of every task are functions of the project), TaskSem.v."""
import copy
import json

import engine
import projgen
import propcommon
import runoracle
import sim

# schedule-independent features only: no AbortSuite / AbortAllTests reaching the runner, no --stop-on-failure, no per-thread
# fixture, scripts without shared state
PROFILE = {"raise_kinds": ["Exception", "AbortTest"], "p_fail": 0.2, "p_spawn": 0.0, "p_hook": 0.4, "max_fixtures": 5,
           "p_fixture_arg": 0.5, "p_dep": 0.3, "p_param": 0.3}


def check(run):
    run.trusted += engine.TRUSTED + ["the report writer is Model/Writer.v (C18); that applying any dependency-respecting interleaving "
                                     "of the per-task event lists yields the same rank-sorted report is checked by the oracle, not proved"]
    run.assume += engine.ASSUME + ["fragment: no AbortSuite/AbortAllTests, no --stop-on-failure, no per-thread fixture, no interrupt, "
                                   "tests do not communicate; no lcc.Thread inside a test (the relative order of the steps opened by "
                                   "concurrent threads of ONE test depends on their own interleaving, with one worker as well: C06 covers them)"]
    run.prove(extra_targets=engine.TARGETS)
    nproj = 40 if run.tier == "quick" else 700
    base = engine.gen_cases(run, nproj, profile=PROFILE, threads=(1,), prefix="q")
    cases, ref_of = [], {}
    for c in base:
        c["options"] = {"nb_threads": 1, "stop_on_failure": False, "force_disabled": c["options"]["force_disabled"]}
        c["sched"] = []
        # parametrized tests share the rank of the function they come from (suite/loader.py: _load_parametrized_tests)
        tie_parametrized(run.rng, c["project"])
        cases.append(c)
        for k in range(3 if run.tier == "quick" else 8):
            c2 = copy.deepcopy(c)
            c2["id"] = "%s_n%d" % (c["id"], k)
            c2["options"]["nb_threads"] = run.rng.choice([2, 3, 4] if run.tier == "quick" else [2, 3, 4, 5, 6, 8])
            c2["sched"] = projgen.gen_sched(run.rng, kind=run.rng.choice(["random", "last", "bursts", "random"]))
            ref_of[c2["id"]] = c["id"]
            cases.append(c2)
    results = {}

    def oracle(c, r):
        return []
    results = propcommon.run_cases(run, cases, oracle, lambda c, r: c["id"] in ref_of and len(r.get("graph") or []) > 4)
    for cid, ref in ref_of.items():
        a, b = results.get(ref) or {}, results.get(cid) or {}
        if not a.get("report") or not b.get("report"):
            continue
        if (a.get("outcome") or ["?"])[0] != "returned" or (b.get("outcome") or ["?"])[0] != "returned":
            continue
        d = runoracle.first_difference(runoracle.strip_attachment_prefix(a["report"]), runoracle.strip_attachment_prefix(b["report"]))
        if d:
            case = next(c for c in cases if c["id"] == cid)
            sig = "report-differs:order-of-tests-sharing-a-rank" if ": ORDER " in d else "report-differs"
            run.violation(sig, "the report with %d threads differs from the report with one thread: %s" % (case["options"]["nb_threads"], d[:300]),
                          {"case": case, "reference_case": next(c for c in cases if c["id"] == ref), "difference": d})
    # free runs on the real ThreadPool (no deterministic scheduler), compared with the sequential run as well
    free = []
    for c in base[: (10 if run.tier == "quick" else 150)]:
        for n in ((2, 4) if run.tier == "quick" else (2, 3, 4, 8)):
            c2 = copy.deepcopy(c)
            c2["id"] = "%s_free%d" % (c["id"], n)
            c2["mode"] = "free"
            c2["options"]["nb_threads"] = n
            c2["delays"] = {str(k): run.rng.choice([0, 0, 0.002, 0.005]) for k in range(1, 200)}
            ref_of[c2["id"]] = c["id"]
            free.append(c2)
    fres = sim.run_cases(free)
    for c2 in free:
        run.evaluations += 1
        run.count("free_runs")
        a, b = results.get(ref_of[c2["id"]]) or {}, fres.get(c2["id"]) or {}
        if a.get("report") and b.get("report") and (b.get("outcome") or ["?"])[0] == "returned":
            d = runoracle.first_difference(runoracle.strip_attachment_prefix(a["report"]), runoracle.strip_attachment_prefix(b["report"]))
            if d:
                run.violation("report-differs:order-of-tests-sharing-a-rank" if ": ORDER " in d else "report-differs:free-run", "a free %d-thread run differs from the sequential run: %s" % (c2["options"]["nb_threads"], d[:300]),
                              {"case": c2, "difference": d})
    run.coverage["rule"] = ("each generated project (schedule-independent features only; parametrized tests share a rank as the loader "
                            "makes them) is run once with 1 thread and 3 (thorough: 8) times with 2..4 (..8) threads under adversarial "
                            "deterministic schedules, plus free runs on the real ThreadPool with seeded delays; the normal forms of the "
                            "reports (timestamps dropped, attachment uniquifier stripped) must be equal; non-trivial = an N-thread run of a "
                            "project with more than 4 tasks")


def tie_parametrized(rng, pd):
    """Give the tests of a parametrized family the same rank, as _load_parametrized_tests does."""
    for path, s, dis in runoracle.walk_suites(pd):
        tests = s.get("tests", [])
        i = 0
        while i < len(tests):
            if tests[i].get("params") and i + 1 < len(tests) and rng.random() < 0.7:
                j = i
                while j + 1 < len(tests) and j - i < 3 and rng.random() < 0.7:
                    j += 1
                    tests[j]["rank"] = tests[i]["rank"]
                i = j + 1
            else:
                i += 1


def replay(path):
    r = json.load(open(path))
    rp = r.get("replay") or {}
    case, ref = rp.get("case"), rp.get("reference_case")
    if not case or not ref:
        print("nothing to replay")
        return 2
    res = sim.run_cases([case, ref])
    a, b = res[ref["id"]], res[case["id"]]
    d = runoracle.first_difference(runoracle.strip_attachment_prefix(a["report"]), runoracle.strip_attachment_prefix(b["report"]))
    print(json.dumps({"difference": d}, indent=1))
    return 1 if d else 0
