"""C05 — the report does not depend on the schedule: N threads equals one thread.
Props/C05.v; DeterminismP.v (decisions and results of every task are functions of the project), TaskSem.v."""
import copy
import json

import engine
import projgen
import propcommon
import runoracle
import sim

# schedule-independent features only: no AbortSuite / AbortAllTests reaching the runner, no --stop-on-failure, no per-thread
# fixture, scripts without shared state
PROFILE = {"raise_kinds": ["Exception", "AbortTest"], "p_fail": 0.2, "p_spawn": 0.0, "p_hook": 0.4, "max_fixtures": 5,
           "p_fixture_arg": 0.5, "p_dep": 0.3, "p_param": 0.3}


def check(run):
    run.trusted += engine.TRUSTED + ["the report writer is Model/Writer.v (C18); that applying any dependency-respecting interleaving "
                                     "of the per-task event lists yields the same rank-sorted report is checked by the oracle, not proved"]
    run.assume += engine.ASSUME + ["fragment: no AbortSuite/AbortAllTests, no --stop-on-failure, no per-thread fixture, no interrupt, "
                                   "tests do not communicate; no lcc.Thread inside a test (the relative order of the steps opened by "
                                   "concurrent threads of ONE test depends on their own interleaving, with one worker as well: C06 covers them)"]
    run.prove(extra_targets=engine.TARGETS)
    nproj = 40 if run.tier == "quick" else 700
    base = engine.gen_cases(run, nproj, profile=PROFILE, threads=(1,), prefix="q")
    # directed projects: the tests of one suite (and of a sub-suite) all use the same test-scoped fixtures
    for k in range(3 if run.tier == "quick" else 30):
        fx = [{"name": "f5", "scope": "test", "params": [], "per_thread": False, "generator": True, "setup": [["log", 1, 1], ["mark", 2]], "teardown": [["log", 1, 3]]}]
        mk = lambda n, i: {"name": n, "disabled": False, "rank": i, "deps": [], "args": ["f5"], "params": {}, "body": [["mark", 4], ["log", 1, 5], ["use", "f5"]]}
        sub = {"name": "s7", "disabled": False, "rank": 0, "hooks": dict(_NOHOOKS), "injected": [], "tests": [mk("t%d" % (20 + i), i) for i in range(2)], "subs": []}
        top = {"name": "s6", "disabled": False, "rank": 0, "hooks": dict(_NOHOOKS), "injected": [], "tests": [mk("t%d" % (10 + i), i) for i in range(3 + k)], "subs": [sub]}
        base.append({"id": "qs%d" % k, "project": {"fixtures": fx, "suites": [top]}, "sched": [],
                     "options": {"nb_threads": 1, "stop_on_failure": False, "force_disabled": False}})
    # directed projects: --force-disabled; a suite-scoped fixture (and a teardown_suite hook) used by one enabled test and by several
    # disabled tests, which the option makes run: they are tests of the suite like the others
    for k in range(4 if run.tier == "quick" else 40):
        fx = [{"name": "f5", "scope": "suite", "params": [], "per_thread": False, "generator": True, "setup": [["log", 1, 1]], "teardown": [["mark", 2], ["log", 1, 3]]}]
        if k % 4:
            fx.append({"name": "f6", "scope": "test", "params": ["f5"], "per_thread": False, "generator": True,
                       "setup": [["log", 1, 6], ["use", "f5"]], "teardown": [["log", 1, 7]]})
        arg = "f6" if k % 4 else "f5"
        mk = lambda n, i, dis: {"name": n, "disabled": dis, "rank": i, "deps": [], "args": [arg], "params": {},
                                "body": [["mark", 40 + i], ["log", 1, 50 + i], ["use", arg]]}
        hooks = dict(_NOHOOKS)
        if k % 3 == 0:
            hooks["teardown_suite"] = [["log", 1, 8]]
        # a test that has been taken by a worker stays in its setup_test hook for a while (the test-scoped fixtures come after it)
        hooks["setup_test"] = [["mark", 60 + i] for i in range(2 + k % 4)]
        ntests = 2 if k % 2 else 3 + k % 3
        pos = 0 if k % 2 else run.rng.randint(0, ntests - 1)
        tests = [mk("t%d" % (10 + i), i, i != pos) for i in range(ntests)]
        top = {"name": "s6", "disabled": False, "rank": 0, "hooks": hooks, "injected": [], "tests": tests, "subs": []}
        base.append({"id": "qf%d" % k, "project": {"fixtures": fx, "suites": [top]}, "sched": [],
                     "options": {"nb_threads": 1, "stop_on_failure": False, "force_disabled": True}})
    # directed projects: a test that depends on a test of ANOTHER suite, in a suite that has a setup of its own (a suite-scoped
    # fixture the test uses, a setup_suite hook): the dependency may be over long before that setup is
    for k in range(4 if run.tier == "quick" else 40):
        fx = [{"name": "f5", "scope": "suite", "params": [], "per_thread": False, "generator": bool(k % 2),
               "setup": [["mark", 70 + i] for i in range(2 + k % 3)] + [["log", 1, 1]], "teardown": [["log", 1, 3]] if k % 2 else []}]
        mk = lambda n, i, args, deps: {"name": n, "disabled": False, "rank": i, "deps": deps, "args": args, "params": {},
                                       "body": [["mark", 40 + i], ["log", 1, 50 + i]] + [["use", a] for a in args]}
        hooks = dict(_NOHOOKS)
        if k % 2 == 0:
            hooks["setup_suite"] = {"args": [], "script": [["mark", 80 + i] for i in range(1 + k % 3)] + [["log", 1, 8]]}
        producer = {"name": "s6", "disabled": False, "rank": 0, "hooks": dict(_NOHOOKS), "injected": [], "tests": [mk("t10", 0, [], [])], "subs": []}
        consumer = {"name": "s7", "disabled": False, "rank": 1, "hooks": hooks, "injected": [],
                    "tests": [mk("t20", 0, ["f5"], ["s6.t10"])] + ([mk("t21", 1, ["f5"], [])] if k >= 2 else []), "subs": []}
        base.append({"id": "qd%d" % k, "project": {"fixtures": fx, "suites": [producer, consumer]}, "sched": [],
                     "options": {"nb_threads": 1, "stop_on_failure": False, "force_disabled": False}})
    cases, ref_of = [], {}
    for c in base:
        c["options"] = {"nb_threads": 1, "stop_on_failure": False, "force_disabled": c["options"]["force_disabled"]}
        c["sched"] = []
        # parametrized tests share the rank of the function they come from (suite/loader.py: _load_parametrized_tests)
        tie_parametrized(run.rng, c["project"])
        # sibling suites sharing a rank (two directories without a module: both rank 0; an explicit rank= given twice)
        if run.rng.random() < 0.25 and tie_suites(run.rng, c["project"]):
            run.count("projects_with_sibling_suites_sharing_a_rank")
        cases.append(c)
        for k in range(3 if run.tier == "quick" else 8):
            c2 = copy.deepcopy(c)
            c2["id"] = "%s_n%d" % (c["id"], k)
            c2["options"]["nb_threads"] = run.rng.choice([2, 3, 4] if run.tier == "quick" else [2, 3, 4, 5, 6, 8])
            c2["sched"] = projgen.gen_sched(run.rng, kind=run.rng.choice(["random", "last", "bursts", "random"]))
            ref_of[c2["id"]] = c["id"]
            cases.append(c2)
        if c["id"].startswith(("qf", "qd")):
            # starving schedules: one worker goes on alone for j steps, then the other one as long as it can (and the reverse)
            for j in range(1, 11):
                for first in (0, 1):
                    c2 = copy.deepcopy(c)
                    c2["id"] = "%s_s%d_%d" % (c["id"], j, first)
                    c2["options"]["nb_threads"] = 2
                    c2["sched"] = [first] * j + [1 - first] * 400
                    ref_of[c2["id"]] = c["id"]
                    cases.append(c2)
    # the writer half on live streams (harness/tworuns.py): the 1-thread run and the first N-thread run of some projects
    # also record the events as Model/Events.v sees them
    n_live = 12 if run.tier == "quick" else 200
    live = [c["id"] for c in base[:n_live]]
    for c in cases:
        if c["id"] in live or (c["id"].endswith("_n0") and ref_of.get(c["id"]) in live):
            c["record_plain"] = True
    results = {}

    def oracle(c, r):
        return []
    results = propcommon.run_cases(run, cases, oracle, lambda c, r: c["id"] in ref_of and len(r.get("graph") or []) > 4)
    for cid, ref in ref_of.items():
        a, b = results.get(ref) or {}, results.get(cid) or {}
        if not a.get("report") or not b.get("report"):
            continue
        if (a.get("outcome") or ["?"])[0] == "returned" and (b.get("outcome") or ["?"])[0] in ("raised", "hang", "sched_abort"):
            # the one-thread run ends normally, the N-thread run of the same project does not: whatever report it leaves is not
            # the report of the one-thread run
            case = next(c for c in cases if c["id"] == cid)
            run.violation("n-thread-run-does-not-end-like-the-one-thread-run",
                          "the run with %d threads ends with %s while the run with one thread returns normally" % (
                              case["options"]["nb_threads"], [str(x)[:300] for x in b["outcome"][:3]]),
                          {"case": case, "reference_case": next(c for c in cases if c["id"] == ref), "difference": "outcome %s" % b["outcome"][0]})
            continue
        if (a.get("outcome") or ["?"])[0] != "returned" or (b.get("outcome") or ["?"])[0] != "returned":
            continue
        d = runoracle.first_difference(runoracle.strip_attachment_prefix(a["report"]), runoracle.strip_attachment_prefix(b["report"]))
        if d:
            case = next(c for c in cases if c["id"] == cid)
            sig = classify_difference(case["project"], a["report"], b["report"], d)
            run.violation(sig, "the report with %d threads differs from the report with one thread: %s" % (case["options"]["nb_threads"], d[:300]),
                          {"case": case, "reference_case": next(c for c in cases if c["id"] == ref), "difference": d})
    two_runs_on_live_streams(run, live, results, cases)
    # the finding F24 (sibling suites sharing a rank were listed in arrival order; repaired), replayed on the real runner: two
    # top-level suites of rank 0 (two directories without a module), two workers, the second suite's start event first
    wit = {"id": "f24_n", "project": F24_WITNESS, "sched": [2, 4, 1, 5, 6, 3], "options": {"nb_threads": 2, "stop_on_failure": False,
                                                                                          "force_disabled": False}}
    wref = dict(wit, id="f24_1", sched=[], options=dict(wit["options"], nb_threads=1))
    wres = sim.run_cases([wref, wit])
    a, b = wres.get("f24_1") or {}, wres.get("f24_n") or {}
    run.evaluations += 1
    if a.get("report") and b.get("report"):
        d = runoracle.first_difference(runoracle.strip_attachment_prefix(a["report"]), runoracle.strip_attachment_prefix(b["report"]))
        if d:
            run.violation(classify_difference(F24_WITNESS, a["report"], b["report"], d),
                          "the report with 2 threads differs from the report with one thread: %s" % d[:300],
                          {"case": wit, "reference_case": wref, "difference": d})
        else:
            run.count("f24_witness_no_longer_differs")
    # free runs on the real ThreadPool (no deterministic scheduler), compared with the sequential run as well
    free = []
    for c in base[: (10 if run.tier == "quick" else 150)]:
        for n in ((2, 4) if run.tier == "quick" else (2, 3, 4, 8)):
            c2 = copy.deepcopy(c)
            c2["id"] = "%s_free%d" % (c["id"], n)
            c2["mode"] = "free"
            c2["options"]["nb_threads"] = n
            c2["delays"] = {str(k): run.rng.choice([0, 0, 0.002, 0.005]) for k in range(1, 200)}
            ref_of[c2["id"]] = c["id"]
            free.append(c2)
    fres = sim.run_cases(free)
    for c2 in free:
        run.evaluations += 1
        run.count("free_runs")
        a, b = results.get(ref_of[c2["id"]]) or {}, fres.get(c2["id"]) or {}
        if a.get("report") and b.get("report") and (b.get("outcome") or ["?"])[0] == "returned":
            d = runoracle.first_difference(runoracle.strip_attachment_prefix(a["report"]), runoracle.strip_attachment_prefix(b["report"]))
            if d:
                run.violation(classify_difference(c2["project"], a["report"], b["report"], d, "report-differs:free-run"), "a free %d-thread run differs from the sequential run: %s" % (c2["options"]["nb_threads"], d[:300]),
                              {"case": c2, "difference": d})
    run.coverage["rule"] = ("each generated project (schedule-independent features only; parametrized tests share a rank as the loader "
                            "makes them) is run once with 1 thread and 3 (thorough: 8) times with 2..4 (..8) threads under adversarial "
                            "deterministic schedules, plus free runs on the real ThreadPool with seeded delays; the normal forms of the "
                            "reports (timestamps dropped, attachment uniquifier stripped) must be equal; non-trivial = an N-thread run of a "
                            "project with more than 4 tasks")


def two_runs_on_live_streams(run, live, results, cases):
    """Premises of Props/C05.C05_two_runs_same_report evaluated inside Coq on recorded pairs of runs (see harness/tworuns.py)."""
    import lib
    import tworuns
    from props import c18
    pairs, ids = [], []
    for ref in live:
        a, b = results.get(ref) or {}, results.get(ref + "_n0") or {}
        if (a.get("outcome") or ["?"])[0] != "returned" or (b.get("outcome") or ["?"])[0] != "returned":
            continue
        case = next(c for c in cases if c["id"] == ref + "_n0")
        if has_suite_rank_ties(case["project"]):
            run.count("live_stream_pairs_whose_sibling_suites_share_a_rank")     # keys still distinct: (rank, position), repair F24
        try:
            p = tworuns.build_pair(a, b)
        except tworuns.Unusable as e:
            run.tie_broken("live streams of a 1-thread and an N-thread run can be paired", case={"id": ref}, detail=str(e))
            continue
        run.evaluations += 1
        run.count("live_stream_pairs")
        if "differs" in p:
            run.violation("task-events-differ", "a task does not fire the same events with %d threads as with one: %s" % (
                case["options"]["nb_threads"], p["differs"]),
                {"case": case, "reference_case": next(c for c in cases if c["id"] == ref), "difference": p["differs"]})
            continue
        run.count("live_stream_events", p["n_events"])
        if p["n_threads_seen"] >= 2:
            run.count("live_stream_pairs_with_several_worker_threads")
            run.nontrivial.add("live:" + ref)
        pairs.append(p)
        ids.append(ref)
    if not getattr(run, "model_ok", False) or not pairs:
        return
    shards = [(pairs[i:i + 4], ids[i:i + 4]) for i in range(0, len(pairs), 4)]
    outs = run.coq_eval_many([("tworuns%d" % k, tworuns.case_file(ps)) for k, (ps, _) in enumerate(shards)])
    for (ps, idl), (rc, out) in zip(shards, outs):
        verdicts = c18.parse_nat_lists(out) if rc == 0 else None
        if not verdicts or len(verdicts) != len(ps):
            run.tie_broken("two-runs case file did not evaluate", detail=out[-1500:])
            continue
        for ref, bad in zip(idl, verdicts):
            for code in bad[:3]:
                case = next(c for c in cases if c["id"] == ref + "_n0")
                run.tie_broken(tworuns.explain(code), case={"id": ref, "project": case["project"], "options": case["options"],
                                                            "sched": case["sched"][:60]})
            if not bad:
                run.count("live_stream_pairs_meeting_every_premise")


_NOHOOKS = {"setup_suite": None, "teardown_suite": None, "setup_test": None, "teardown_test": None}
F24_WITNESS = {"fixtures": [], "suites": [
    {"name": "s5", "disabled": False, "rank": 0, "hooks": _NOHOOKS, "injected": [], "subs": [],
     "tests": [{"name": "t6", "disabled": False, "rank": 0, "deps": [], "args": [], "params": {}, "body": [["log", 1, 1]]}]},
    {"name": "s7", "disabled": False, "rank": 0, "hooks": _NOHOOKS, "injected": [], "subs": [],
     "tests": [{"name": "t8", "disabled": False, "rank": 0, "deps": [], "args": [], "params": {}, "body": [["log", 1, 1]]}]}]}


def tie_suites(rng, pd):
    """Give some sibling suites the rank of their predecessor (declaration order unchanged). Returns the number of ties made."""
    made = 0
    lists = [pd["suites"]] + [s["subs"] for _, s, _ in runoracle.walk_suites(pd)]
    for lst in lists:
        for j in range(1, len(lst)):
            if rng.random() < 0.5:
                lst[j]["rank"] = lst[j - 1]["rank"]
                made += 1
    return made


def _rank_ties_only(pd_suites, ra, rb):
    """ra, rb: the lists of suite normal forms under one parent in the two reports; pd_suites: the declared siblings.
    True iff both lists hold the same suites with non-decreasing ranks (so they can only differ by the order WITHIN groups of
    equal rank) and the same holds recursively; the lists are re-ordered in place into declaration order within each group."""
    rank = {s["name"]: s["rank"] for s in pd_suites}
    pos = {s["name"]: i for i, s in enumerate(pd_suites)}
    for lst in (ra, rb):
        names = [x["name"] for x in lst]
        if sorted(names) != sorted(n for n in rank if n in names) or len(set(names)) != len(names):
            return False
        ranks = [rank[n] for n in names]
        if ranks != sorted(ranks):
            return False
        lst.sort(key=lambda x: (rank[x["name"]], pos[x["name"]]))
    by_name = {s["name"]: s for s in pd_suites}
    return all(_rank_ties_only(by_name[x["name"]]["subs"], x["suites"], y["suites"]) for x, y in zip(ra, rb))


def classify_difference(pd, rep_a, rep_b, d, default="report-differs"):
    """Signature of a difference between two report normal forms of one project."""
    if ": ORDER " not in d:
        return default
    a, b = copy.deepcopy(runoracle.strip_attachment_prefix(rep_a)), copy.deepcopy(runoracle.strip_attachment_prefix(rep_b))
    if d.split(": ORDER")[0].rsplit(".", 1)[-1].startswith("suites"):
        # suites listed in another order: only among siblings that share a rank (the recorded finding F24), or worse?
        if _rank_ties_only(pd["suites"], a["suites"], b["suites"]) and not runoracle.first_difference(a, b):
            return "report-differs:order-of-suites-sharing-a-rank"
        return "report-differs:order-of-suites"
    return "report-differs:order-of-tests-sharing-a-rank"


def has_suite_rank_ties(pd):
    lists = [pd["suites"]] + [s["subs"] for _, s, _ in runoracle.walk_suites(pd)]
    return any(len(set(x["rank"] for x in lst)) < len(lst) for lst in lists)


def tie_parametrized(rng, pd):
    """Give the tests of a parametrized family the same rank, as _load_parametrized_tests does."""
    for path, s, dis in runoracle.walk_suites(pd):
        tests = s.get("tests", [])
        i = 0
        while i < len(tests):
            if tests[i].get("params") and i + 1 < len(tests) and rng.random() < 0.7:
                j = i
                while j + 1 < len(tests) and j - i < 3 and rng.random() < 0.7:
                    j += 1
                    tests[j]["rank"] = tests[i]["rank"]
                i = j + 1
            else:
                i += 1


def replay(path):
    r = json.load(open(path))
    rp = r.get("replay") or {}
    case, ref = rp.get("case"), rp.get("reference_case")
    if not case or not ref:
        print("nothing to replay")
        return 2
    res = sim.run_cases([case, ref])
    a, b = res[ref["id"]], res[case["id"]]
    if (a.get("outcome") or ["?"])[0] == "returned" and (b.get("outcome") or ["?"])[0] != "returned":
        print(json.dumps({"difference": "the N-thread run ends with %s" % [str(x)[:300] for x in (b.get("outcome") or [])[:3]]}, indent=1))
        return 1
    d = runoracle.first_difference(runoracle.strip_attachment_prefix(a["report"]), runoracle.strip_attachment_prefix(b["report"]))
    print(json.dumps({"difference": d}, indent=1))
    return 1 if d else 0
