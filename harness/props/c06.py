"""C06 — logs never leak between concurrently running tests or threads. Props/C06.v; ProtocolP.v, AttachP.v."""
import json
import os
import shutil
import sys
import tempfile
import threading

import engine
import propcommon
import runoracle

PROFILE = {"p_spawn": 0.35, "script_len": 6, "p_hook": 0.3, "max_tests": 5, "p_mark": 0.3, "p_fail": 0.1, "max_fixtures": 3}


def lock_probe():
    """A thread is paused by sys.settrace INSIDE the critical section of Session.prepare_attachment (after the name has been
    computed, before the counter is incremented); a second thread must block on the lock, not pass. Returns (ok, detail)."""
    from lemoncheesecake.session import Session
    from lemoncheesecake.events import SyncEventManager
    from lemoncheesecake.reporting import Report
    tmp = tempfile.mkdtemp(prefix="lccverif_lock_")
    try:
        em = SyncEventManager.load()
        session = Session(em, tmp, Report())
        from lemoncheesecake.reporting import ReportLocation
        from lemoncheesecake.session import _Cursor
        inside, release, names, order = threading.Event(), threading.Event(), {}, []
        code = Session.prepare_attachment.__wrapped__.__code__ if hasattr(Session.prepare_attachment, "__wrapped__") else None

        def tracer(frame, event, arg):
            if frame.f_code.co_name == "prepare_attachment":
                def local(frame, event, arg):
                    if event == "line" and "attachment_filename" in frame.f_locals and not inside.is_set():
                        inside.set()
                        release.wait(10)
                    return local
                return local
            return None

        def worker(name, traced):
            session.cursor = _Cursor(ReportLocation.in_test_session_setup())
            if traced:
                sys.settrace(tracer)
            try:
                with session.prepare_attachment("f.txt", "d") as path:
                    names[name] = os.path.basename(path)
                    order.append(name)
            finally:
                sys.settrace(None)
        a = threading.Thread(target=worker, args=("A", True))
        a.start()
        if not inside.wait(10):
            return False, "thread A never reached the critical section"
        b = threading.Thread(target=worker, args=("B", False))
        b.start()
        b.join(0.5)
        b_passed_while_a_inside = not b.is_alive()
        release.set()
        a.join(10)
        b.join(10)
        if b_passed_while_a_inside:
            return False, "a second thread went through prepare_attachment while the first was inside the critical section: %s" % names
        if len(set(names.values())) != 2:
            return False, "duplicate attachment names: %s" % names
        return True, names
    finally:
        shutil.rmtree(tmp, ignore_errors=True)


def write_window_probe(binary=False):
    """Two threads save content under the SAME file name at the same time: thread A is paused by sys.settrace inside
    _save_attachment_content while its file is open (content written or about to be), thread B saves its own content
    completely, then A goes on.  Each attachment the report references must exist and hold what ITS emitter wrote.
    Returns (ok, detail)."""
    import lemoncheesecake.session as lcc_session
    from lemoncheesecake.session import Session, _Cursor
    from lemoncheesecake.events import SyncEventManager
    from lemoncheesecake.reporting import Report, ReportLocation
    tmp = tempfile.mkdtemp(prefix="lccverif_write_")
    try:
        em = SyncEventManager.load()
        recorded = []
        em.subscribe_to_event("log_attachment", lambda e: recorded.append((e.attachment_description, e.attachment_path)))
        session = Session(em, tmp, Report())
        Session._instance = session
        inside, release, errors = threading.Event(), threading.Event(), {}
        content = {"A": ("A" * 4000), "B": ("B" * 3000)}
        if binary:
            content = {k: v.encode() for k, v in content.items()}

        def tracer(frame, event, arg):
            if frame.f_code.co_name == "_save_attachment_content":
                def local(frame, event, arg):
                    # the line after `with open(...) as fh:` has been reached: the file is open
                    if event == "line" and "fh" in frame.f_locals and not inside.is_set():
                        inside.set()
                        release.wait(10)
                    return local
                return local
            return None

        def worker(name, traced):
            session.cursor = _Cursor(ReportLocation.in_test_session_setup())
            session.set_step("step of %s" % name)
            if traced:
                sys.settrace(tracer)
            try:
                lcc_session.save_attachment_content(content[name], "response.json", "by %s" % name)
            except BaseException as e:      # noqa: BLE001
                errors[name] = "%s: %s" % (type(e).__name__, e)
            finally:
                sys.settrace(None)
        a = threading.Thread(target=worker, args=("A", True))
        a.start()
        if not inside.wait(10):
            release.set()
            a.join(10)
            return None, "thread A never reached the open file (source shape changed?) %s" % errors
        b = threading.Thread(target=worker, args=("B", False))
        b.start()
        b.join(10)
        release.set()
        a.join(10)
        if errors:
            return False, "saving an attachment raised while another thread saved one of the same name: %s" % errors
        if len(recorded) != 2:
            return False, "%d attachments recorded instead of 2: %s" % (len(recorded), recorded)
        for desc, rel in recorded:
            who = desc[-1]
            path = os.path.join(tmp, rel)
            if not os.path.exists(path):
                return False, "the attachment %s of thread %s does not exist on disk" % (rel, who)
            data = open(path, "rb" if binary else "r").read()
            if data != content[who]:
                return False, "the attachment %s of thread %s does not hold what it wrote (%d bytes, begins with %r)" % (
                    rel, who, len(data), data[:3])
        return True, recorded
    finally:
        Session._instance = None
        shutil.rmtree(tmp, ignore_errors=True)


def abandoned_attachment_probe(binary=False):
    """Thread A is inside `with prepare_attachment(...)` when thread B saves an attachment of the same name; A's block then
    fails (the attachment is abandoned, the exception reaches the caller); a third attachment of the same name is saved afterwards.
    Every attachment the report references is a file of its own holding what its emitter wrote.  Returns (ok, detail)."""
    import lemoncheesecake.session as lcc_session
    from lemoncheesecake.session import Session, _Cursor
    from lemoncheesecake.events import SyncEventManager
    from lemoncheesecake.reporting import Report, ReportLocation
    tmp = tempfile.mkdtemp(prefix="lccverif_abandon_")
    try:
        em = SyncEventManager.load()
        recorded = []
        em.subscribe_to_event("log_attachment", lambda e: recorded.append((e.attachment_description, e.attachment_path)))
        session = Session(em, tmp, Report())
        Session._instance = session
        inside, release, errors, seen = threading.Event(), threading.Event(), {}, {}
        content = {"B": "B" * 3000, "C": "C" * 2000}
        prepare = lcc_session.prepare_image_attachment if binary else lcc_session.prepare_attachment

        def thread_a():
            session.cursor = _Cursor(ReportLocation.in_test_session_setup())
            session.set_step("step of A")
            try:
                with prepare("response.json", "by A") as path:
                    seen["A"] = path
                    with open(path, "w") as fh:
                        fh.write("partial")
                    inside.set()
                    release.wait(10)
                    raise ValueError("the content could not be produced")
            except ValueError:
                pass
            except BaseException as e:      # noqa: BLE001
                errors["A"] = "%s: %s" % (type(e).__name__, e)

        def saver(name):
            session.cursor = _Cursor(ReportLocation.in_test_session_setup())
            session.set_step("step of %s" % name)
            try:
                lcc_session.save_attachment_content(content[name], "response.json", "by %s" % name)
            except BaseException as e:      # noqa: BLE001
                errors[name] = "%s: %s" % (type(e).__name__, e)
        a = threading.Thread(target=thread_a)
        a.start()
        if not inside.wait(10):
            release.set()
            a.join(10)
            return None, "thread A never got inside prepare_attachment %s" % errors
        b = threading.Thread(target=saver, args=("B",))
        b.start()
        b.join(10)
        release.set()
        a.join(10)
        c = threading.Thread(target=saver, args=("C",))
        c.start()
        c.join(10)
        if errors:
            return False, "saving an attachment raised around an abandoned attachment of the same name: %s" % errors
        if sorted(d for d, _ in recorded) != ["by B", "by C"]:
            return False, "attachments recorded: %s instead of those of B and C" % (recorded,)
        if len(set(rel for _, rel in recorded)) != 2:
            return False, "two attachments of the report are the same file: %s" % (recorded,)
        for desc, rel in recorded:
            who = desc[-1]
            path = os.path.join(tmp, rel)
            if not os.path.exists(path):
                return False, "the attachment %s of thread %s does not exist on disk" % (rel, who)
            data = open(path).read()
            if data != content[who]:
                return False, "the attachment %s of thread %s does not hold what it wrote (%d bytes, begins with %r)" % (
                    rel, who, len(data), data[:3])
        return True, recorded
    finally:
        Session._instance = None
        shutil.rmtree(tmp, ignore_errors=True)


def run_block_ops(ops):
    """Drives the real Session.prepare_attachment with a sequence of ["reserve"|"commit"|"abandon", thread label] operations (the
    context managers are entered and left by hand, innermost block of the label first).  Returns (numbers handed out in
    order, numbers referenced by the fired events in order, numbers still open)."""
    import re
    from lemoncheesecake.session import Session, _Cursor
    from lemoncheesecake.events import SyncEventManager
    from lemoncheesecake.reporting import Report, ReportLocation
    tmp = tempfile.mkdtemp(prefix="lccverif_blocks_")
    try:
        em = SyncEventManager.load()
        refs = []
        em.subscribe_to_event("log_attachment", lambda e: refs.append(int(re.match(r"attachments/(\d+)_", e.attachment_path).group(1))))
        session = Session(em, tmp, Report())
        Session._instance = session
        session.cursor = _Cursor(ReportLocation.in_test_session_setup())
        session.set_step("step")
        handed, open_blocks = [], []          # open_blocks: [label, number, context manager, path, content], innermost first
        committed = []                        # (path, content) of the blocks that ended normally
        for idx, (kind, t) in enumerate(ops):
            if kind == "reserve":
                cm = session.prepare_attachment("data.txt", "by %d" % t)
                path = cm.__enter__()
                n = int(re.match(r"(\d+)_", os.path.basename(path)).group(1))
                handed.append(n)
                open_blocks.insert(0, [t, n, cm, path, "content written by operation %d" % idx])
                with open(path, "w") as fh:
                    fh.write(open_blocks[0][4])
                continue
            k = next((i for i, b in enumerate(open_blocks) if b[0] == t), None)
            if k is None:
                continue
            _, n, cm, path, content = open_blocks.pop(k)
            if kind == "commit":
                cm.__exit__(None, None, None)
                committed.append((path, content))
            else:
                exc = ValueError("the content could not be produced")
                try:
                    cm.__exit__(ValueError, exc, None)
                except ValueError:
                    pass
        CLOBBERED[:] = [os.path.basename(path) for path, content in committed
                        if not os.path.exists(path) or open(path).read() != content]
        return handed, refs, [b[1] for b in open_blocks]
    finally:
        Session._instance = None
        shutil.rmtree(tmp, ignore_errors=True)


CLOBBERED = []        # attachments of the last run_block_ops whose file is gone or holds what another block wrote


def blocks_broken(handed, refs):
    """The property on what the implementation did: no file referenced twice, only files that were handed out, every referenced
    file still holds what its block wrote."""
    return len(set(refs)) != len(refs) or not set(refs) <= set(handed) or bool(CLOBBERED)


def gen_block_ops(rng):
    ops, depth = [], {}
    for _ in range(rng.randint(1, 24)):
        t = rng.randint(0, 3)
        r = rng.random()
        if r < 0.45 or not depth.get(t):
            ops.append(["reserve", t])
            depth[t] = depth.get(t, 0) + 1
        else:
            ops.append(["commit" if r < 0.8 else "abandon", t])
            depth[t] -= 1
        if rng.random() < 0.05:
            ops.append([rng.choice(["commit", "abandon"]), rng.randint(0, 3)])      # possibly a thread without an open block
            if depth.get(ops[-1][1]):
                depth[ops[-1][1]] -= 1
    return ops


BLOCKS_HEADER = """From Coq Require Import List Arith Bool.
Import ListNotations.
From LCC Require Import Base.Util Model.Attach.
Definition agrees (c : list aop * (list nat * list nat * list nat)) : bool :=
  let s := brun (fst c) in
  let '(handed, refs, opened) := snd c in
  list_eqb Nat.eqb (b_all s) handed && list_eqb Nat.eqb (b_refs s) refs && list_eqb Nat.eqb (map snd (b_open s)) opened.
"""


def blocks_file(cases):
    c_op = lambda o: "%s %d" % ({"reserve": "Reserve", "commit": "Commit", "abandon": "Abandon"}[o[0]], o[1])
    nl = lambda l: "[%s]" % "; ".join(str(x) for x in l)
    body = ";\n  ".join("([%s], (%s, %s, %s))" % ("; ".join(c_op(o) for o in ops), nl(h), nl(r), nl(o)) for ops, (h, r, o) in cases)
    return BLOCKS_HEADER + "Definition cases : list (list aop * (list nat * list nat * list nat)) := [\n  %s\n].\n" % body + \
        "Eval vm_compute in (find_indexes (fun c => negb (agrees c)) cases).\n"


def attachment_blocks(run):
    """Model/Attach.brun against the real prepare_attachment on random sequences of block operations, and the property itself on
    what the implementation did (no number referenced twice, only numbers handed out)."""
    import lib
    cases = []
    for i in range(150 if run.tier == "quick" else 5000):
        ops = gen_block_ops(run.rng)
        try:
            got = run_block_ops(ops)
        except Exception as e:      # noqa: BLE001
            run.tie_broken("Attach.brun = numbers handed out / referenced by prepare_attachment", case=ops, detail="%s: %s" % (type(e).__name__, e))
            continue
        run.evaluations += 1
        run.count("attachment_block_sequences")
        run.count("attachment_blocks_abandoned", sum(1 for o in ops if o[0] == "abandon"))
        handed, refs, _ = got
        if any(o[0] == "abandon" for o in ops) and len(refs) >= 2:
            run.nontrivial.add("blocks:" + json.dumps(ops))
        if blocks_broken(handed, refs):
            small = list(ops)
            changed = True
            while changed:
                changed = False
                for k in range(len(small)):
                    cand = small[:k] + small[k + 1:]
                    h2, r2, _ = run_block_ops(cand)
                    if blocks_broken(h2, r2):
                        small, changed = cand, True
                        break
            h2, r2, _ = run_block_ops(small)
            run.violation("attachment-number-used-twice", "numbers handed out %s, referenced by the report %s, files lost or overwritten %s: one attachment file for two attachments" % (h2, r2, list(CLOBBERED)),
                          {"probe": "attachment_blocks", "ops": small, "handed": h2, "referenced": r2, "lost_or_overwritten": list(CLOBBERED)})
        cases.append((ops, got))
    if getattr(run, "model_ok", False) and cases:
        rc, out = run.coq_eval("blocks", blocks_file(cases))
        bad = lib.parse_nat_list(out) if rc == 0 else None
        if bad is None:
            run.tie_broken("attachment blocks case file did not evaluate", detail=out[-1500:])
        for idx in (bad or [])[:2]:
            run.tie_broken("Attach.brun = numbers handed out / referenced by prepare_attachment", case=cases[idx][0], impl=list(cases[idx][1]))


def attached_file_probe(image=False):
    """save_attachment_file / save_image_file of a scratch file that its owner rewrites IN PLACE afterwards (two tests dumping into
    the same scratch file): the attachment the report references keeps what was attached.  Returns (ok, detail)."""
    import lemoncheesecake.session as lcc_session
    from lemoncheesecake.session import Session, _Cursor
    from lemoncheesecake.events import SyncEventManager
    from lemoncheesecake.reporting import Report, ReportLocation
    tmp = tempfile.mkdtemp(prefix="lccverif_file_")
    try:
        em = SyncEventManager.load()
        recorded = []
        em.subscribe_to_event("log_attachment", lambda e: recorded.append(e.attachment_path))
        session = Session(em, tmp, Report())
        Session._instance = session
        session.cursor = _Cursor(ReportLocation.in_test_session_setup())
        session.set_step("step")
        scratch = os.path.join(tmp, "scratch.log")          # same file system as the report directory
        with open(scratch, "w") as fh:
            fh.write("output of test a\n")
        (lcc_session.save_image_file if image else lcc_session.save_attachment_file)(scratch, "by a")
        with open(scratch, "r+") as fh:                      # rewritten in place: same inode
            fh.write("OUTPUT OF TEST B, which is longer\n")
        (lcc_session.save_image_file if image else lcc_session.save_attachment_file)(scratch, "by b")
        if len(recorded) != 2:
            return False, "%d attachments recorded instead of 2" % len(recorded)
        got = [open(os.path.join(tmp, rel)).read() for rel in recorded]
        if got != ["output of test a\n", "OUTPUT OF TEST B, which is longer\n"]:
            return False, "attachments %s hold %r after their source file was rewritten" % (recorded, got)
        return True, recorded
    finally:
        Session._instance = None
        shutil.rmtree(tmp, ignore_errors=True)


LATE_SUITE = """import threading
import lemoncheesecake.api as lcc

GO, DONE, HOLD = threading.Event(), threading.Event(), []


class Late(lcc.Thread):
    def run(self):
        GO.wait(20)            # the thread only begins when test b has begun
        super().run()


def work():
    lcc.log_info("late|a|1")
    if %(with_step)r:
        lcc.set_step("late step")
    lcc.log_info("late|a|2")
    DONE.set()


@lcc.suite("s1")
class s1:
    @lcc.test("a")
    def a(self):
        lcc.log_info("main|a")
        th = Late(target=work)
        th.start()
        HOLD.append(th)
%(b_here)s

%(b_there)s
"""
LATE_B = """    @lcc.test("b")
%(dep)s    def b(self):
        lcc.log_info("main|b|1")
        GO.set()
        DONE.wait(20)
        HOLD[0].join(20)
        lcc.log_info("main|b|2")
"""


def late_thread_scenario(nb_threads, with_step, other_suite):
    """A real `lcc run` (in a child process) of a two-test project; returns {test name: [log messages]} of its report."""
    import json
    import subprocess
    import lib
    d = tempfile.mkdtemp(prefix="lccverif_late_")
    try:
        os.mkdir(os.path.join(d, "suites"))
        b = LATE_B % {"dep": "    @lcc.depends_on('s1.a')\n" if nb_threads > 1 else ""}     # b begins after a has ended
        src = LATE_SUITE % {"with_step": with_step, "b_here": "" if other_suite else b,
                            "b_there": ("@lcc.suite('s2')\nclass s2:\n" + b) if other_suite else ""}
        with open(os.path.join(d, "suites", "s1.py"), "w") as f:
            f.write(src)
        env = dict(os.environ, PYTHONPATH=lib.REPO)
        code = ("import sys, json\nfrom lemoncheesecake.cli.main import main\nrc = main(['run', '--threads', '%d'])\n"
                "from lemoncheesecake.reporting import load_report\nr = load_report('report')\n"
                "out = {}\n"
                "for t in r.all_tests():\n"
                "    out[t.name] = [l.message for s in t.get_steps() for l in s.get_logs() if hasattr(l, 'message')]\n"
                "print('RESULT ' + json.dumps(out))\n" % nb_threads)
        p = subprocess.run([lib.PY, "-c", code], cwd=d, env=env, stdout=subprocess.PIPE, stderr=subprocess.PIPE, timeout=120)
        for line in p.stdout.decode(errors="replace").splitlines():
            if line.startswith("RESULT "):
                return json.loads(line[7:])
        raise RuntimeError("no result: %s %s" % (p.stdout.decode(errors="replace")[-400:], p.stderr.decode(errors="replace")[-600:]))
    finally:
        shutil.rmtree(d, ignore_errors=True)


def check(run):
    run.trusted += engine.TRUSTED + ["atomicity of list.append / set.add / threading.local under the GIL is assumed; the attachment "
                                     "lock is exercised by a settrace probe pausing a thread inside the critical section"]
    run.assume += engine.ASSUME + ["thread identifiers are unique among live threads (reuse after death is allowed)"]
    run.prove(extra_targets=engine.TARGETS)
    n = 100 if run.tier == "quick" else 2000
    cases = engine.gen_cases(run, n, profile=PROFILE, threads=(2, 3, 4) if run.tier == "quick" else (2, 3, 4, 6, 8), prefix="k")
    propcommon.run_cases(run, cases, runoracle.c06_oracle,
                         lambda c, r: sum(1 for a in (r.get("trace") or []) if a[1] == "spawn") >= 1 and c["options"]["nb_threads"] > 1)
    for k in range(3 if run.tier == "quick" else 20):
        ok, detail = lock_probe()
        run.count("lock_probes")
        if not ok:
            run.violation("attachment-lock-not-exclusive", str(detail), {"probe": "lock_probe", "detail": str(detail)})
    for image in (False, True):
        run.evaluations += 1
        run.count("attached_file_probes")
        try:
            ok, detail = attached_file_probe(image)
        except Exception as e:      # noqa: BLE001
            ok, detail = None, "%s: %s" % (type(e).__name__, e)
        if ok is None:
            run.tie_broken("the attached-file probe could be run", detail=str(detail))
        elif not ok:
            run.violation("attachment-content-changes-with-its-source", str(detail), {"probe": "attached_file_probe", "image": image})
    attachment_blocks(run)
    for binary in (False, True):
        run.evaluations += 1
        run.count("abandoned_attachment_probes")
        try:
            ok, detail = abandoned_attachment_probe(binary)
        except Exception as e:      # noqa: BLE001
            ok, detail = None, "%s: %s" % (type(e).__name__, e)
        if ok is None:
            run.tie_broken("the abandoned-attachment probe could be run", detail=str(detail))
        elif not ok:
            run.violation("attachment-shared-after-an-abandoned-one", str(detail), {"probe": "abandoned_attachment_probe", "image": binary})
    for binary in (False, True):
        ok, detail = write_window_probe(binary)
        run.evaluations += 1
        run.count("write_window_probes")
        if ok is None:
            run.tie_broken("the write-window probe reaches the open file inside _save_attachment_content", detail=str(detail))
        elif not ok:
            run.violation("attachment-content-mixed-up", str(detail), {"probe": "write_window_probe", "binary": binary, "detail": str(detail)})
    # lcc.Thread objects that their test does not join: the thread begins to run (and logs) only when the NEXT test has begun on
    # the same worker; what it emits still belongs to the test that started it
    for k, (nthreads, with_step, other_suite) in enumerate([(1, False, False), (1, True, False), (1, True, True), (2, True, False)]):
        run.evaluations += 1
        run.count("late_thread_scenarios")
        try:
            got = late_thread_scenario(nthreads, with_step, other_suite)
        except Exception as e:      # noqa: BLE001
            run.tie_broken("late-thread scenario could not be run", detail="%s: %s" % (type(e).__name__, str(e)[-800:]))
            continue
        want = {"a": ["main|a", "late|a|1", "late|a|2"], "b": ["main|b|1", "main|b|2"]}
        bad = [(t, sorted(got.get(t, [])), sorted(w)) for t, w in want.items() if sorted(got.get(t, [])) != sorted(w)]
        if bad:
            run.violation("late-thread-logs-in-another-test",
                          "a thread started by test a and not joined by it logs while test b runs: test %s holds %s instead of %s" % bad[0],
                          {"scenario": {"nb_threads": nthreads, "thread_sets_a_step": with_step, "next_test_in_another_suite": other_suite},
                           "logs_per_test": got})
    run.coverage["rule"] = ("seeded random projects biased towards user threads (nested), self-describing payloads "
                            "('<owner>#<thread path>|<n>'), 2..4 (thorough ..8) worker threads, adversarial schedules; oracle: payload "
                            "vs location/thread/step in the event stream and in the report, attachment names and contents; "
                            "non-trivial = a run with at least one user thread and more than one worker")


_case_replay = propcommon.make_replay(runoracle.c06_oracle)


def replay(path):
    rp = json.load(open(path)).get("replay") or {}
    if rp.get("probe") == "attachment_blocks":
        h, r, o = run_block_ops(rp["ops"])
        print(json.dumps({"ops": rp["ops"], "handed": h, "referenced": r, "open": o}))
        return 1 if blocks_broken(h, r) else 0
    probes = {"abandoned_attachment_probe": lambda: abandoned_attachment_probe(rp.get("image", False)),
              "attached_file_probe": lambda: attached_file_probe(rp.get("image", False)),
              "write_window_probe": lambda: write_window_probe(rp.get("binary", False)),
              "lock_probe": lock_probe}
    if rp.get("probe") in probes:
        ok, detail = probes[rp["probe"]]()
        print(json.dumps({"probe": rp["probe"], "ok": ok, "detail": str(detail)}, indent=1))
        return 0 if ok else 1
    return _case_replay(path)
