"""C06 — logs never leak between concurrently running tests or threads. Props/C06.v; ProtocolP.v, AttachP.v."""
import os
import shutil
import sys
import tempfile
import threading

import engine
import propcommon
import runoracle

PROFILE = {"p_spawn": 0.35, "script_len": 6, "p_hook": 0.3, "max_tests": 5, "p_mark": 0.3, "p_fail": 0.1, "max_fixtures": 3}


def lock_probe():
    """A thread is paused by sys.settrace INSIDE the critical section of Session.prepare_attachment (after the name has been
    computed, before the counter is incremented); a second thread must block on the lock, not pass. Returns (ok, detail)."""
    from lemoncheesecake.session import Session
    from lemoncheesecake.events import SyncEventManager
    from lemoncheesecake.reporting import Report
    tmp = tempfile.mkdtemp(prefix="lccverif_lock_")
    try:
        em = SyncEventManager.load()
        session = Session(em, tmp, Report())
        from lemoncheesecake.reporting import ReportLocation
        from lemoncheesecake.session import _Cursor
        inside, release, names, order = threading.Event(), threading.Event(), {}, []
        code = Session.prepare_attachment.__wrapped__.__code__ if hasattr(Session.prepare_attachment, "__wrapped__") else None

        def tracer(frame, event, arg):
            if frame.f_code.co_name == "prepare_attachment":
                def local(frame, event, arg):
                    if event == "line" and "attachment_filename" in frame.f_locals and not inside.is_set():
                        inside.set()
                        release.wait(10)
                    return local
                return local
            return None

        def worker(name, traced):
            session.cursor = _Cursor(ReportLocation.in_test_session_setup())
            if traced:
                sys.settrace(tracer)
            try:
                with session.prepare_attachment("f.txt", "d") as path:
                    names[name] = os.path.basename(path)
                    order.append(name)
            finally:
                sys.settrace(None)
        a = threading.Thread(target=worker, args=("A", True))
        a.start()
        if not inside.wait(10):
            return False, "thread A never reached the critical section"
        b = threading.Thread(target=worker, args=("B", False))
        b.start()
        b.join(0.5)
        b_passed_while_a_inside = not b.is_alive()
        release.set()
        a.join(10)
        b.join(10)
        if b_passed_while_a_inside:
            return False, "a second thread went through prepare_attachment while the first was inside the critical section: %s" % names
        if len(set(names.values())) != 2:
            return False, "duplicate attachment names: %s" % names
        return True, names
    finally:
        shutil.rmtree(tmp, ignore_errors=True)


def check(run):
    run.trusted += engine.TRUSTED + ["atomicity of list.append / set.add / threading.local under the GIL is assumed; the attachment "
                                     "lock is exercised by a settrace probe pausing a thread inside the critical section"]
    run.assume += engine.ASSUME + ["thread identifiers are unique among live threads (reuse after death is allowed)"]
    run.prove(extra_targets=engine.TARGETS)
    n = 100 if run.tier == "quick" else 2000
    cases = engine.gen_cases(run, n, profile=PROFILE, threads=(2, 3, 4) if run.tier == "quick" else (2, 3, 4, 6, 8), prefix="k")
    propcommon.run_cases(run, cases, runoracle.c06_oracle,
                         lambda c, r: sum(1 for a in (r.get("trace") or []) if a[1] == "spawn") >= 1 and c["options"]["nb_threads"] > 1)
    for k in range(3 if run.tier == "quick" else 20):
        ok, detail = lock_probe()
        run.count("lock_probes")
        if not ok:
            run.violation("attachment-lock-not-exclusive", str(detail), {"probe": "lock_probe", "detail": str(detail)})
    run.coverage["rule"] = ("seeded random projects biased towards user threads (nested), self-describing payloads "
                            "('<owner>#<thread path>|<n>'), 2..4 (thorough ..8) worker threads, adversarial schedules; oracle: payload "
                            "vs location/thread/step in the event stream and in the report, attachment names and contents; "
                            "non-trivial = a run with at least one user thread and more than one worker")


replay = propcommon.make_replay(runoracle.c06_oracle)
