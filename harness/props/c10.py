"""C10 — the report on disk is always loadable and is a prefix of the final report.
Models: Model/Prefix.v (le_report), Model/Saving.v (strategies, FileReportSession, listener order), Model/CrashFS.v; shared
Model/Writer.v.  Theorems: Props/C10.v.  Translator: harness/tables_saving.py -> gen/TablesSaving.v.
Correspondence (1): generated projects run by the real runner (deterministic scheduler) with a real json/xml/junit file backend and
every --save-report strategy; a listener subscribed after the file backend observes the report file after every event
(harness/impl_saving.py); Coq evaluates Saving.run on the recorded events + clock reads and compares save points, sampled
snapshots (loaded by the real loader), le_report_b snapshot final, `admissible` of every event, the final report.
Correspondence (2): the real save code of each backend with every file-system operation interposed and the process killed before
each one (harness/impl_crash.py); the operation sequence is compared with gen/TablesSaving.save_ops_<backend> and every directory
state found with CrashFS.exec.
Oracle (Python, independent of the models): file absent or loadable after every event; every loaded snapshot is a prefix of the
final report (own implementation of DESIGN A.2); finished items never change; the file equals the in-memory report at the
points each strategy promises and at the end; at every crash point the file is absent, the old report or the new one."""
import json
import os
import random
from concurrent.futures import ThreadPoolExecutor

import lib
from lib import c_str, c_Z, c_opt, c_list, c_bool, c_nat

import gen_reports as G
import projgen

STRATEGIES = ["at_end_of_tests", "at_each_suite", "at_each_test", "at_each_failed_test", "at_each_log", "at_each_event",
              "every_1s", "every_2s", "every 3s"]
RESULT_END = {"test_end": "test", "suite_setup_end": "suite_setup", "suite_teardown_end": "suite_teardown",
              "test_session_setup_end": "session_setup", "test_session_teardown_end": "session_teardown"}
LOG_LIKE = ("log", "check", "log_attachment", "log_url")
SUBSCRIBED = tuple(RESULT_END) + ("suite_end",) + LOG_LIKE


# ----------------------------------------------------------------------------------------------- Python oracle (A.2)
def py_le_step(a, b):
    return a["description"] == b["description"] and a["start"] == b["start"] and b["logs"][:len(a["logs"])] == a["logs"] \
        and (a["end"] is None or a == b)


def py_le_result(a, b):
    return a["start"] == b["start"] and len(a["steps"]) <= len(b["steps"]) \
        and all(py_le_step(x, y) for x, y in zip(a["steps"], b["steps"])) and (a["end"] is None or a == b)


def py_le_ores(a, b):
    return a is None or (b is not None and py_le_result(a, b))


def py_emb(la, lb, le):
    j = 0
    for x in la:
        name = x["meta"]["name"]
        while j < len(lb) and lb[j]["meta"]["name"] != name:
            j += 1
        if j == len(lb) or not le(x, lb[j]):
            return False
        j += 1
    return True


def py_le_test(a, b):
    return a["meta"] == b["meta"] and py_le_result(a["result"], b["result"])


def py_le_suite(a, b):
    return a["meta"] == b["meta"] and a["start"] == b["start"] and py_le_ores(a["setup"], b["setup"]) \
        and py_le_ores(a["teardown"], b["teardown"]) and py_emb(a["tests"], b["tests"], py_le_test) \
        and py_emb(a["suites"], b["suites"], py_le_suite) and (a["end"] is None or a == b)


def but_saving(r):
    r = dict(r)
    r["saving"] = None
    return r


def py_le_report(a, b):
    return a["title"] == b["title"] and a["info"] == b["info"] and a["nb_threads"] == b["nb_threads"] \
        and (a["start"] is None or a["start"] == b["start"]) and py_le_ores(a["session_setup"], b["session_setup"]) \
        and py_le_ores(a["session_teardown"], b["session_teardown"]) and py_emb(a["suites"], b["suites"], py_le_suite) \
        and (a["end"] is None or but_saving(a) == but_saving(b))


def finished_items(report):
    """(path, kind, item) of everything the report shows as finished."""
    out = []

    def res(path, kind, r):
        if r is None:
            return
        if r["end"] is not None:
            out.append((path, kind, r))
        for i, st in enumerate(r["steps"]):
            if st["end"] is not None:
                out.append((path + ("step", i), kind, st))

    def suite(path, s):
        p = path + (s["meta"]["name"],)
        if s["end"] is not None:
            out.append((p, "suite", s))
        res(p + ("setup",), "result", s["setup"])
        res(p + ("teardown",), "result", s["teardown"])
        for t in s["tests"]:
            res(p + ("test", t["meta"]["name"]), "result", t["result"])
        for u in s["suites"]:
            suite(p, u)
    res(("session_setup",), "result", report["session_setup"])
    res(("session_teardown",), "result", report["session_teardown"])
    for s in report["suites"]:
        suite((), s)
    return out


def result_at(report, loc):
    """Result at a plain location ([kind] or [kind, hierarchy]) of a normal form, or None."""
    kind = loc[0]
    if kind == "session_setup":
        return report["session_setup"]
    if kind == "session_teardown":
        return report["session_teardown"]
    hier = list(loc[1])
    names = hier if kind != "test" else hier[:-1]
    suites, s = report["suites"], None
    for n in names:
        s = next((x for x in suites if x["meta"]["name"] == n), None)
        if s is None:
            return None
        suites = s["suites"]
    if s is None:
        return None
    if kind == "suite_setup":
        return s["setup"]
    if kind == "suite_teardown":
        return s["teardown"]
    t = next((x for x in s["tests"] if x["meta"]["name"] == hier[-1]), None)
    return t["result"] if t else None


def event_location(e):
    k = e[0]
    if k == "test_end":
        return ["test", e[1]["parent"] + [e[1]["meta"]["name"]]]
    if k in ("suite_setup_end", "suite_teardown_end"):
        return [RESULT_END[k], e[1]["parent"] + [e[1]["meta"]["name"]]]
    if k in ("test_session_setup_end", "test_session_teardown_end"):
        return [RESULT_END[k]]
    return None


def promised(strategy, events, clocks, t0, final):
    """For each event: must the file be current after it, by what the strategy promises (independent of Model/Saving.v)."""
    out = []
    last = t0
    for e, (c_call, c_saved) in zip(events, clocks):
        k = e[0]
        p = k == "test_session_end"
        if strategy == "at_each_suite":
            p = p or k == "suite_end"
        elif strategy == "at_each_test":
            p = p or k in RESULT_END
        elif strategy == "at_each_failed_test":
            if k in RESULT_END:
                r = result_at(final, event_location(e))          # finished items never change: the final status is the status then
                p = p or (r is not None and r["status"] == "failed")
        elif strategy in ("at_each_log", "at_each_event"):
            p = p or k in LOG_LIKE
        elif strategy.startswith("every"):
            n = int(strategy[6:-1])
            if k in SUBSCRIBED and c_call and last + n * 1000 < c_call:
                p = True
        out.append(p)
        if c_saved:
            last = c_saved
    return out


def run_oracle(case, r):
    """[(signature, text)] — the property evaluated on what the implementation did."""
    hits = []
    strategy, backend = case["saving"], case["backend"]
    events = r["events"]
    for i, ok in enumerate(r["loadable"]):
        if ok is False:
            hits.append(("unloadable-file:%s" % backend, "after event %d (%s) the report file exists and cannot be loaded" % (i, events[i][0])))
            break
    final = r["final"]
    if backend != "junit":
        for ch in r["changes"]:
            if ch["nf"] is None:
                continue
            if not py_le_report(ch["nf"], final):
                hits.append(("not-prefix:%s" % strategy, "the file saved after event %d is not a prefix of the final report" % (ch["at"] - 1)))
                break
        fin_index = {}
        for path, kind, item in finished_items(final):
            fin_index[path] = item
        bad = None
        for ch in r["changes"]:
            if ch["nf"] is None:
                continue
            for path, kind, item in finished_items(ch["nf"]):
                if fin_index.get(path) != item:
                    bad = (ch["at"], path)
                    break
            if bad:
                break
        if bad:
            hits.append(("finished-item-changed", "item %r shown finished in the file saved after event %d differs in the final report" % (bad[1], bad[0] - 1)))
        snaps = [ch["nf"] for ch in r["changes"] if ch["nf"] is not None]
        for a, b in zip(snaps, snaps[1:]):
            if not py_le_report(a, b):
                hits.append(("not-monotone:%s" % strategy, "a later file is not an extension of an earlier one"))
                break
    prom = promised(strategy, events, r["clocks"], r["t0"], final)
    changed_at = {ch["at"] for ch in r["changes"]}
    for i, p in enumerate(prom):
        if not p:
            continue
        fresh = (r["current"][i] is True) if backend != "junit" else ((i + 1) in changed_at)
        if not fresh:
            hits.append(("not-refreshed:%s:%s" % (strategy.split("_")[0] if strategy.startswith("every") else strategy, events[i][0]),
                         "strategy %s promises a save after event %d (%s) but the file does not hold the current report" % (strategy, i, events[i][0])))
            break
    if events and events[-1][0] == "test_session_end" and backend != "junit":
        if r["final_file"] is None or but_saving(r["final_file"]) != but_saving(final):
            hits.append(("final-not-saved", "after test_session_end the file is not the final report"))
    if (r.get("outcome") or ["?"])[0] != "returned" or not events or events[-1][0] != "test_session_end":
        # no fault is injected in these runs: a run that raises, or whose listeners stop being called before the session end,
        # did so because a reporting session failed (e.g. the save raised): the report was not saved at the end of the run
        hits.append(("final-not-saved:run-aborted", "the run did not deliver test_session_end to the listeners (outcome %r): "
                     "the report file was not refreshed at the end of the run" % (r.get("outcome"),)))
    return hits


def crash_oracle(res):
    hits = []
    b = res["backend"]
    n = len(res["ops"])
    # the report file itself is never opened for writing: it only ever appears by a rename (between "opened for truncation" and
    # "content complete" there is an instant at which the file is empty or partial, whether or not a crash point falls there)
    for k, op in enumerate(res["ops"]):
        if op[0].startswith("open_") and op[1] == res["final"]:
            hits.append(("crash:%s:report-file-written-in-place" % b,
                         "crash point %d : the report file is opened for writing in place (%s) instead of being installed by a rename" % (k, op[0])))
            break
    for st in res["states"]:
        k = st["k"]
        before = res["ops"][k - 1][0] if k > 0 else "start"
        if not st["present"]:
            if res["old_given"]:
                hits.append(("crash:%s:file-lost" % b, "crash point %d (after %s): the previous report file has disappeared" % (k, before)))
            elif k == n:
                hits.append(("crash:%s:not-saved" % b, "after the complete save the report file is absent"))
            continue
        if not st["loadable"]:
            hits.append(("crash:%s:unloadable-after-%s" % (b, before),
                         "crash point %d (after %s): the report file is present and cannot be loaded (%s), content %r"
                         % (k, before, st.get("error"), st["fs"].get(res["final"]))))
        elif st["loaded"] not in ("old", "new"):
            hits.append(("crash:%s:neither-old-nor-new" % b, "crash point %d (after %s): the file loads to something else" % (k, before)))
        elif k == n and st["loaded"] != "new" and not res.get("old_equals_new"):
            hits.append(("crash:%s:not-saved" % b, "after the complete save the file is not the new report"))
    return hits


# ----------------------------------------------------------------------------------------------- Gallina printers
def c_node(n):
    return "(mkNode %s %s %s)" % (c_list(n["parent"], c_str), G.g_meta(n["meta"]), c_Z(n["rank"]))


def c_loc(l):
    k = l[0]
    if k == "session_setup":
        return "LocSessionSetup"
    if k == "session_teardown":
        return "LocSessionTeardown"
    return "(%s %s)" % ({"suite_setup": "LocSuiteSetup", "suite_teardown": "LocSuiteTeardown", "test": "LocTest"}[k], c_list(l[1], c_str))


_SIMPLE = {"test_session_start": "ESessionStart", "test_session_end": "ESessionEnd",
           "test_session_setup_start": "ESessionSetupStart", "test_session_setup_end": "ESessionSetupEnd",
           "test_session_teardown_start": "ESessionTeardownStart", "test_session_teardown_end": "ESessionTeardownEnd"}
_NODE = {"suite_start": "ESuiteStart", "suite_end": "ESuiteEnd", "suite_setup_start": "ESuiteSetupStart",
         "suite_setup_end": "ESuiteSetupEnd", "suite_teardown_start": "ESuiteTeardownStart",
         "suite_teardown_end": "ESuiteTeardownEnd", "test_start": "ETestStart", "test_end": "ETestEnd"}


def c_event(e):
    k = e[0]
    if k in _SIMPLE:
        return "%s %s" % (_SIMPLE[k], c_Z(e[1]))
    if k in _NODE:
        return "%s %s %s" % (_NODE[k], c_node(e[1]), c_Z(e[2]))
    if k in ("test_skipped", "test_disabled"):
        return "%s %s %s %s" % ("ETestSkipped" if k == "test_skipped" else "ETestDisabled", c_node(e[1]), c_opt(e[2], c_str), c_Z(e[3]))
    if k in ("step_start", "step_end"):
        return "%s %s %s %s %s" % ("EStepStart" if k == "step_start" else "EStepEnd", c_loc(e[1]), c_str(e[2]), c_Z(e[3]), c_Z(e[4]))
    if k == "log":
        return "ELog %s %s %s %s %s %s" % (c_loc(e[1]), c_str(e[2]), c_Z(e[3]), c_str(e[4]), c_str(e[5]), c_Z(e[6]))
    if k == "check":
        return "ECheck %s %s %s %s %s %s %s" % (c_loc(e[1]), c_str(e[2]), c_Z(e[3]), c_str(e[4]), c_bool(e[5]), c_opt(e[6], c_str), c_Z(e[7]))
    if k == "log_attachment":
        return "ELogAttachment %s %s %s %s %s %s %s" % (c_loc(e[1]), c_str(e[2]), c_Z(e[3]), c_str(e[4]), c_str(e[5]), c_bool(e[6]), c_Z(e[7]))
    if k == "log_url":
        return "ELogUrl %s %s %s %s %s %s" % (c_loc(e[1]), c_str(e[2]), c_Z(e[3]), c_str(e[4]), c_str(e[5]), c_Z(e[6]))
    raise ValueError(k)


RUN_HEADER = """From Coq Require Import List NArith ZArith Bool.
Import ListNotations.
From LCC Require Import Base.Util Model.Report Model.Events Model.Writer Model.Prefix Model.Saving Model.StreamOk.
From LCC Require gen.TablesSaving.
(* strategy expression, last_saved_time at session creation, (event, clock reads) in delivery order, the event counts at which the
   file's bytes changed, sampled (count, file loaded by the real loader), the final in-memory report *)
Definition rcase := (str * Z * list (event * clock) * list nat * list (nat * report) * report)%type.
Fixpoint lookup_save (k : nat) (l : list (nat * report)) : option report :=
  match l with [] => None | (k', r) :: t => if Nat.eqb k k' then Some r else lookup_save k t end.
Definition rels (c : rcase) : list bool :=
  let '(name, t0, evs, changes, sampled, final) := c in
  match make_strategy TablesSaving.T name with
  | Ok st =>
      match run_with TablesSaving.T TablesSaving.listeners (init_sstate st t0) evs with
      | Ok s =>
          [ list_eqb Nat.eqb (map fst (fs_saves (ss_file s))) changes;
            forallb (fun ko => match lookup_save (fst ko) (fs_saves (ss_file s)) with
                               | Some snap => report_eqb (with_header (snd ko) snap) (snd ko)
                               | None => false end) sampled;
            forallb (fun ko => le_report_b (snd ko) final) sampled;
            all_admissible init_wstate (map fst evs);
            report_eqb (with_header final (normalize (ss_writer s))) final ]
      | Err _ => [false; false; false; false; false]
      end
  | Err _ => [false; false; false; false; false]
  end.
Definition agrees (c : rcase) : bool := forallb (fun b : bool => b) (rels c).
(* informational: is the delivered stream accepted by the grammar of C07 (Model/StreamOk.v, live mode)? *)
Definition grammar_ok (c : rcase) : bool := let '(_, _, evs, _, _, _) := c in stream_ok live_mode (map fst evs).
"""
RUN_RELS = ["Saving.run saves exactly at the event counts where the real report file changed",
            "the file loaded by the real loader = normalize(writer state) at that save (title/info/nb_threads/saving_time taken from the file)",
            "le_report_b (loaded snapshot) (final report) inside Coq",
            "Saving.admissible holds for every delivered event (hypothesis of C10_monotone)",
            "Writer.normalize(final writer state) = final in-memory report"]


def c_rcase(case, r, rng):
    final = r["final"]
    loaded = [(ch["at"], ch["nf"]) for ch in r["changes"] if ch["nf"] is not None]
    if len(loaded) > 5:
        keep = {0, len(loaded) - 1} | set(rng.sample(range(1, len(loaded) - 1), 3))
        loaded = [x for i, x in enumerate(loaded) if i in keep]
    evs = ["(%s, mkClock %s %s)" % (c_event(e), c_Z(c[0]), c_Z(c[1])) for e, c in zip(r["events"], r["clocks"])]
    return "(%s, %s,\n [%s],\n %s,\n %s,\n %s)" % (
        c_str(case["saving"]), c_Z(r["t0"]), ";\n  ".join(evs), c_list([ch["at"] for ch in r["changes"]], c_nat),
        c_list(loaded, lambda ko: "(%s, %s)" % (c_nat(ko[0]), G.to_gallina(ko[1]))), G.to_gallina(final))


def run_file(terms):
    return RUN_HEADER + "Definition cases : list rcase := [\n%s\n].\n" % ";\n".join(terms) + \
        "Eval vm_compute in (find_indexes (fun c => negb (agrees c)) cases).\n" + \
        "Eval vm_compute in (find_indexes (fun c => negb (grammar_ok c)) cases).\n"


def run_detail_file(term):
    return RUN_HEADER + "Definition c : rcase := %s.\n" % term + \
        "Eval vm_compute in (find_indexes (fun b : bool => negb b) (rels c)).\n"


CRASH_HEADER = """From Coq Require Import List Arith Bool.
Import ListNotations.
From LCC Require Import Base.Util Model.CrashFS.
From LCC Require gen.TablesSaving.
Definition op_eqb (a b : op) : bool :=
  match a, b with
  | OpenTrunc p, OpenTrunc q | Flush p, Flush q | Fsync p, Fsync q | Close p, Close q | Unlink p, Unlink q => Nat.eqb p q
  | Write p d, Write q e => Nat.eqb p q && data_eqb d e
  | Rename p q, Rename p' q' => Nat.eqb p p' && Nat.eqb q q'
  | _, _ => false
  end.
(* backend (0 json, 1 xml, 2 junit), observed operations, chunks, initial directory, directory found at each crash point, paths *)
Definition ccase := (nat * list op * list data * fsys * list fsys * list fpath)%type.
Definition save_of (b : nat) := match b with 0 => TablesSaving.save_ops_json | 1 => TablesSaving.save_ops_xml | _ => TablesSaving.save_ops_junit end.
Definition rels (c : ccase) : list bool :=
  let '(b, ops, chunks, f0, found, paths) := c in
  [ list_eqb op_eqb ops (save_of b 1 0 chunks);
    Nat.eqb (length found) (S (length ops)) && list_eqb (same_on paths) (crash_states ops f0) found ].
Definition agrees (c : ccase) : bool := forallb (fun b : bool => b) (rels c).
"""
CRASH_RELS = ["the file-system operations of the real save_report_into_file = TablesSaving.save_ops_<backend> (tmp = 1, final = 0)",
              "the directory found after killing the process before operation k = CrashFS.exec (firstn k ops)"]
BACKEND_ID = {"json": 0, "xml": 1, "junit": 2}


class Unmodelled(Exception):
    pass


def c_ccase(res):
    final = res["final"]
    ids = {final: 0}

    def pid(name):
        if name not in ids:
            ids[name] = len(ids)
        return ids[name]

    def c_data(xs):
        return "[" + "; ".join(str(x) for x in xs) + "]"
    ops = []
    for o in res["ops"]:
        k = o[0]
        if k == "open_trunc":
            ops.append("OpenTrunc %d" % pid(o[1]))
        elif k == "write":
            ops.append("Write %d %s" % (pid(o[1]), c_data([o[2] + 1])))
        elif k in ("flush", "fsync", "close", "unlink"):
            ops.append("%s %d" % ({"flush": "Flush", "fsync": "Fsync", "close": "Close", "unlink": "Unlink"}[k], pid(o[1])))
        elif k == "rename":
            ops.append("Rename %d %d" % (pid(o[1]), pid(o[2])))
        else:
            raise Unmodelled("operation %r" % (o,))
    nchunks = len(res["chunks_len"])

    def c_fs(fs):
        ents = []
        for name, content in sorted(fs.items()):
            if content == "old":
                d = [0]
            elif isinstance(content, list):
                d = [i + 1 for i in content]
            else:
                raise Unmodelled("content %r of %s" % (content, name))
            ents.append("(%d, %s)" % (pid(name), c_data(d)))
        return "[" + "; ".join(ents) + "]"
    f0 = "[(0, [0])]" if res["old_given"] else "[]"
    found = [c_fs(st["fs"]) for st in res["states"]]
    paths = sorted(set(ids.values()) | {0, 1})
    return "(%d, [%s], %s, %s,\n [%s], %s)" % (
        BACKEND_ID[res["backend"]], "; ".join(ops), "[" + "; ".join(c_data([i + 1]) for i in range(nchunks)) + "]", f0,
        ";\n  ".join(found), c_data(paths))


def crash_file(terms):
    return CRASH_HEADER + "Definition cases : list ccase := [\n%s\n].\n" % ";\n".join(terms) + \
        "Eval vm_compute in (find_indexes (fun c => negb (agrees c)) cases).\n"


def crash_detail_file(term):
    return CRASH_HEADER + "Definition c : ccase := %s.\n" % term + \
        "Eval vm_compute in (find_indexes (fun b : bool => negb b) (rels c)).\n"


# ----------------------------------------------------------------------------------------------- strategy expressions
EXPRESSIONS = ["at_end_of_tests", "at_each_suite", "at_each_test", "at_each_failed_test", "at_each_log", "at_each_event",
               "every_1s", "every_15s", "every 2s", "every_0s", "every_007s", "every_123456789s", "every_s", "every_5", "every-5s",
               "EVERY_5s", "every_5s ", " every_5s", "every_5ss", "every__5s", "every_5.5s", "every_-5s", "", "at_each", "at_each_tests",
               "at each test", "every_5s\n", "every_\u0663s", "every_5\u00e9s", "at_end_of_tests\n", "everyx5s", "every5s"]
SFUN_OF = {"save_at_each_suite_strategy": "FSuite", "save_at_each_test_strategy": "FTest",
           "save_at_each_failed_test_strategy": "FFailedTest", "save_at_each_log_strategy": "FLog"}
EXPR_HEADER = """From Coq Require Import List NArith ZArith Bool.
Import ListNotations.
From LCC Require Import Base.Util Model.Report Model.Events Model.Saving.
From LCC Require gen.TablesSaving.
Definition strat_eqb (a b : strat) : bool :=
  match a, b with
  | SFun FSuite, SFun FSuite | SFun FTest, SFun FTest | SFun FFailedTest, SFun FFailedTest | SFun FLog, SFun FLog => true
  | SInterval n, SInterval m => Z.eqb n m
  | _, _ => false
  end.
(* Err Unmodelled = outside the modelled fragment of the regular expression (non-ASCII digits, trailing newline): excluded *)
Definition agrees (c : str * res (option strat)) : bool :=
  match make_strategy TablesSaving.T (fst c) with
  | Err Unmodelled => true
  | r => res_eqb (option_eqb strat_eqb) r (snd c)
  end.
Definition unmodelled (c : str * res (option strat)) : bool :=
  match make_strategy TablesSaving.T (fst c) with Err Unmodelled => true | _ => false end.
"""


def observe_expression(expr):
    from lemoncheesecake.reporting.savingstrategy import make_report_saving_strategy, SaveAtInterval
    try:
        st = make_report_saving_strategy(expr)
    except ValueError:
        return "Err ValueError"
    if st is None:
        return "Ok None"
    if isinstance(st, SaveAtInterval):
        return "Ok (Some (SInterval %s))" % c_Z(st.interval)
    import lemoncheesecake.reporting.savingstrategy as mod
    for name, con in SFUN_OF.items():           # by identity: a strategy need not be a plain function
        if getattr(mod, name, None) is st:
            return "Ok (Some (SFun %s))" % con
    return "Ok (Some (SInterval (-1)%Z))"        # an object the harness does not recognise: equal to no strategy of the model


def expr_file(rng):
    exprs = list(EXPRESSIONS) + ["every_%ds" % rng.randint(0, 10 ** rng.randint(1, 6)) for _ in range(10)]
    obs = [(e, observe_expression(e)) for e in exprs]
    text = EXPR_HEADER + "Definition cases : list (str * res (option strat)) := [\n%s\n].\n" % ";\n".join(
        "(%s, %s)" % (c_str(e), o) for e, o in obs) + \
        "Eval vm_compute in (find_indexes (fun c => negb (agrees c)) cases).\nEval vm_compute in (find_indexes unmodelled cases).\n"
    return exprs, obs, text


# ----------------------------------------------------------------------------------------------- drivers
def run_impl_many(script, payloads, jobs=None, timeout=180):
    def one(p):
        try:
            return lib.run_impl(script, p, timeout=timeout)
        except Exception as e:
            return {"outcome": ["driver_error", "%s: %s" % (type(e).__name__, str(e)[-1500:])]}
    with ThreadPoolExecutor(max_workers=jobs or max(2, min(lib.NCPU - 2, 10))) as ex:
        return list(ex.map(one, payloads))


def failed_save_probe(exc_cls):
    """A save that RAISES in the middle of its writing (disk full, an unencodable string, Ctrl-C): the report file of the previous
    save is still there, complete, and no temporary file is left.  Returns a detail string when it is not so."""
    import tempfile
    import shutil
    from lemoncheesecake.reporting.backend import atomic_write
    d = tempfile.mkdtemp(prefix="lccverif_failsave_")
    try:
        path = os.path.join(d, "report.js")
        with atomic_write(path) as fh:
            fh.write("FIRST SAVE, COMPLETE")
        try:
            with atomic_write(path) as fh:
                fh.write("second save, par")
                raise exc_cls("fault in the middle of the second save")
        except exc_cls:
            pass
        else:
            return "the exception raised inside the save was swallowed"
        got = open(path).read() if os.path.exists(path) else None
        left = sorted(os.listdir(d))
        if got != "FIRST SAVE, COMPLETE":
            return "after a save that raised %s the report file holds %r instead of the previous complete save" % (exc_cls.__name__, got)
        if left != ["report.js"]:
            return "after a save that raised %s the directory holds %s" % (exc_cls.__name__, left)
        return None
    finally:
        shutil.rmtree(d, ignore_errors=True)


def gen_run_cases(run, n):
    cases = []
    for i in range(n):
        strategy = STRATEGIES[i % len(STRATEGIES)] if i < 2 * len(STRATEGIES) else run.rng.choice(STRATEGIES)
        logs = strategy in ("at_each_log", "at_each_event")
        profile = {"max_tests": 3 if logs else 4, "max_top": 2, "max_depth": 2 if logs else 3, "p_fail": 0.25,
                   "p_empty_suite": 0.05, "tied_ranks": run.rng.random() < 0.2}
        pd = projgen.gen_project(run.rng, **profile)
        backend = ["json", "xml", "json", "xml", "junit"][i % 5] if i < 10 else run.rng.choice(["json", "json", "xml", "xml", "junit"])
        cases.append({"id": "r%d" % i, "project": pd, "sched": projgen.gen_sched(run.rng),
                      "options": {"nb_threads": run.rng.choice([1, 2, 3, 4]), "stop_on_failure": run.rng.random() < 0.15,
                                  "force_disabled": run.rng.random() < 0.1},
                      "saving": strategy, "backend": backend, "clock_step": run.rng.choice([0.125, 0.5, 1.0, 2.5])})
        if backend == "json":
            # the JSON backend's other configuration (pretty_formatting=True) and log messages that are hard to write to a text
            # file: non-ASCII text, an astral character, a lone surrogate as os.fsdecode() produces for undecodable bytes
            cases[-1]["json_pretty"] = run.rng.random() < 0.5
            cases[-1]["payload_suffix"] = run.rng.choice(["", "", " caf\u00e9", " \U0001F34B", " \udce9.txt"])
            run.count("json_runs_pretty_formatting" if cases[-1]["json_pretty"] else "json_runs_compact")
            if cases[-1]["payload_suffix"]:
                run.count("json_runs_with_non_ascii_log_text")
    return cases


def gen_crash_payloads(run, n):
    out = []
    for i in range(n):
        strings = run.rng.choice(["plain", "xmlsafe"])
        new = G.gen_report(run.rng, size="small", strings=strings, unfinished=0.4)
        old = G.gen_report(run.rng, size="small", strings=strings, unfinished=0.6) if i % 2 == 0 else None
        for b in ("json", "xml", "junit"):
            out.append({"backend": b, "old": old, "new": new})
            if i % 3 == 0 and OTHER_FS_TMPDIR:
                out[-1]["tmpdir"] = OTHER_FS_TMPDIR
    return out


def _other_fs_tmpdir():
    """A writable directory on another file system than the default temporary directory (where the report directories of the
    crash experiment are made), or None."""
    import tempfile
    try:
        here = os.stat(tempfile.gettempdir()).st_dev
        for cand in ("/dev/shm", "/run/shm", "/var/tmp", "/tmp"):
            if os.path.isdir(cand) and os.access(cand, os.W_OK) and os.stat(cand).st_dev != here:
                return cand
    except OSError:
        pass
    return None


OTHER_FS_TMPDIR = _other_fs_tmpdir()


def _strip_deps(pd, removed_prefixes):
    def walk(s):
        for t in s["tests"]:
            t["deps"] = [d for d in t["deps"] if not any(d == r or d.startswith(r + ".") for r in removed_prefixes)]
        for u in s["subs"]:
            walk(u)
    for s in pd["suites"]:
        walk(s)


def _shrink_candidates(case):
    """Smaller variants of a run case: one thread, a suite / sub-suite / test removed (dependencies on it dropped), no fixtures."""
    import copy
    if case["options"].get("nb_threads", 1) != 1:
        c = copy.deepcopy(case)
        c["options"]["nb_threads"] = 1
        yield c

    def sites(suites, prefix):
        for i, s in enumerate(suites):
            path = prefix + s["name"]
            yield ("suite", suites, i, path)
            for j, t in enumerate(s["tests"]):
                yield ("test", s["tests"], j, path + "." + t["name"])
            yield from sites(s["subs"], path + ".")
    n = len(list(sites(case["project"]["suites"], "")))
    for k in range(n):
        c = copy.deepcopy(case)
        kind, lst, i, path = list(sites(c["project"]["suites"], ""))[k]
        if kind == "suite" and lst is c["project"]["suites"] and len(lst) == 1:
            continue
        del lst[i]
        _strip_deps(c["project"], [path])
        yield c


def shrink_run_case(case, signature, budget=14):
    """Greedy shrinking of a failing run case: keeps a variant when the oracle still reports the same signature."""
    cur, text = case, None
    while budget > 0:
        progressed = False
        for cand in _shrink_candidates(cur):
            if budget <= 0:
                break
            budget -= 1
            try:
                r = lib.run_impl("impl_saving.py", cand, timeout=120)
            except Exception:
                continue
            hit = [t for sig, t in run_oracle(cand, r) if sig == signature] if "events" in r else []
            if hit:
                cur, text, progressed = cand, hit[0], True
                break
        if not progressed:
            break
    return cur, text


def check(run):
    run.trusted += [
        "modelled, not verified: OS crash semantics (Model/CrashFS.v header: atomic operations in program order, no buffering, no "
        "reordering, no fsync reasoning; a crash = a prefix of the operation sequence); compared with the real directory after "
        "killing the real save before each operation (writes flushed by the interposer)",
        "modelled, not verified: the text layer (json/xml dump and load are C09's): theorems quantify over a serializer and a loader "
        "that inverts it; the correspondence uses the real loaders",
        "modelled, not verified: float seconds <-> integer milliseconds (event times are produced by a counter clock in exact ms); "
        "the deterministic-scheduler doubles of harness/detsched.py stand for the thread pool and queues",
        "Saving.admissible (the bracket discipline of delivered streams, C07) is a hypothesis of C10_monotone, evaluated on every "
        "delivered event of every generated run",
    ]
    run.assume += ["events reach the listeners through EventType.handle in subscription order, ReportWriter first "
                   "(pinned by harness/tables_saving.py on Session.create / EventManager.add_listener / EventType.handle)",
                   "the temporary file name (<report file>.tmp) is not used by anything else in the report directory"]
    run.prove(extra_targets=["theories/Base/Util.vo", "theories/Model/Prefix.vo", "theories/Model/Saving.vo",
                             "theories/Model/CrashFS.vo", "theories/Model/Writer.vo", "theories/Model/StreamOk.vo",
                             "theories/gen/TablesSaving.vo"])
    quick = run.tier == "quick"
    # ------------------------------------------------------------------ a save that raises half-way
    for exc_cls in (RuntimeError, UnicodeError, MemoryError, KeyboardInterrupt):
        run.evaluations += 1
        run.count("failed_save_probes")
        try:
            detail = failed_save_probe(exc_cls)
        except BaseException as e:      # noqa: BLE001
            detail = None
            run.tie_broken("the failed-save probe could be run (reporting.backend.atomic_write)", detail="%s: %s" % (type(e).__name__, e))
        if detail:
            run.violation("failed-save-destroys-previous-file", detail, {"kind": "failed-save", "exception": exc_cls.__name__})
    # ------------------------------------------------------------------ (0) several file backends under one saving strategy
    # each report file is refreshed at the promised points whatever the other backends do: with a clock that only depends on the
    # number of events handled, the refresh points of a backend running together with others equal those it has when it runs alone
    base = gen_run_cases(run, 8 if quick else 120)
    mcases = []
    for c in base:
        for multi in (["json"], ["xml"], ["json", "xml"]):
            m = {k: v for k, v in c.items() if k not in ("backend",)}
            m["id"] = "%s_%s" % (c["id"], "+".join(multi))
            m["multi"] = multi
            m["seconds_per_event"] = run.rng.choice([0.4, 1, 3, 100]) if multi == ["json"] else mcases[-1]["seconds_per_event"]
            mcases.append(m)
    mres = run_impl_many("impl_saving.py", mcases)
    for k in range(0, len(mcases), 3):
        (cj, rj), (cx, rx), (cb, rb) = [(mcases[k + d], mres[k + d]) for d in range(3)]
        run.evaluations += 3
        run.count("multi_backend_runs")
        if any((r.get("outcome") or ["?"])[0] != "returned" or "refresh" not in r for r in (rj, rx, rb)):
            if any((r.get("outcome") or ["?"])[0] not in ("returned", "raised") for r in (rj, rx, rb)):
                run.tie_broken("driver could not observe a run with several file backends", case={"id": cb["id"], "saving": cb["saving"]},
                               detail=json.dumps([r.get("outcome") for r in (rj, rx, rb)])[:1500])
            continue
        for name, alone in (("json", rj), ("xml", rx)):
            a, b = alone["refresh"][name], rb["refresh"][name]
            if len(b) >= 2:
                run.nontrivial.add(cb["id"] + ":" + name)
            if a != b:
                run.violation("multi:refresh-points-depend-on-other-backends",
                              "with --save-report %s the %s report file is rewritten after events %s when it is the only file backend and "
                              "after events %s when json and xml are both enabled (%.1f s per event)" % (
                                  cb["saving"], name, a[:12], b[:12], cb["seconds_per_event"]),
                              {"kind": "multi", "case": cb, "alone": a, "together": b, "backend": name})
    # ------------------------------------------------------------------ (1) runs
    cases = gen_run_cases(run, 60 if quick else 1000)
    results = run_impl_many("impl_saving.py", cases)
    terms, term_cases = [], []
    for c, r in zip(cases, results):
        run.evaluations += 1
        run.count("strategy:" + c["saving"])
        run.count("backend:" + c["backend"])
        run.count("threads=%d" % c["options"]["nb_threads"])
        out0 = (r.get("outcome") or ["?"])[0]
        run.count("outcome:" + str(out0))
        if out0 not in ("returned", "raised") or r.get("driver_errors") or "events" not in r:
            run.tie_broken("driver could not observe the run", case={k: c[k] for k in ("id", "saving", "backend", "options")},
                           detail=json.dumps({"outcome": r.get("outcome"), "errors": r.get("driver_errors")})[:2000])
            continue
        run.count("events", len(r["events"]))
        run.count("saves", len(r["changes"]))
        for sig, text in run_oracle(c, r):
            if not any(h["signature"] == sig for h in run.oracle_hits) and len(run.oracle_hits) < 4:
                small, text2 = shrink_run_case(c, sig)
                run.violation(sig, text2 or text, {"kind": "run", "case": small, "shrunk_from_tests": projgen.count_tests(c["project"]),
                                          "tests": projgen.count_tests(small["project"])})
            else:
                run.violation(sig, text, {"kind": "run", "case": c})
        loaded = [ch for ch in r["changes"] if ch["nf"] is not None]
        if len(r["changes"]) >= 2 and (c["backend"] == "junit" or (loaded and but_saving(loaded[0]["nf"]) != but_saving(r["final"]))):
            run.nontrivial.add(c["id"])
        if len(run.samples) < 2:
            run.sample({"saving": c["saving"], "backend": c["backend"], "options": c["options"], "events": len(r["events"]),
                        "file_changed_after_event_counts": [ch["at"] for ch in r["changes"]], "project": c["project"]})
        try:
            terms.append(c_rcase(c, r, run.rng))
            term_cases.append(c)
        except Exception as e:
            run.tie_broken("run could not be printed as Gallina", case={"id": c["id"]}, detail="%s: %s" % (type(e).__name__, e))
    if run.model_ok and terms:
        per = 8
        shards = [(terms[i:i + per], term_cases[i:i + per]) for i in range(0, len(terms), per)]
        outs = run.coq_eval_many([("runs%d" % k, run_file(t)) for k, (t, _) in enumerate(shards)], timeout=1200)
        for (ts, cs), (rc, out) in zip(shards, outs):
            bad = lib.parse_nat_list(out) if rc == 0 else None
            if bad is None:
                run.tie_broken("run case file did not evaluate", detail=out[-1500:])
                continue
            import re
            lists = re.findall(r"=\s*(\[[^\]]*\]|nil)\s*:\s*list nat", out, re.S)
            if len(lists) == 2:
                rejected = 0 if lists[1].strip() in ("nil", "[]") else lists[1].count(";") + 1
                run.count("streams_checked_against_C07_grammar", len(ts))
                run.count("streams_rejected_by_C07_grammar(informational)", rejected)
            for b in bad[:2]:
                rc2, out2 = run.coq_eval("rundetail", run_detail_file(ts[b]))
                which = lib.parse_nat_list(out2) if rc2 == 0 else None
                run.tie_broken("; ".join(RUN_RELS[i] for i in (which or [])) or "run correspondence",
                               case=cs[b], detail=None if which else out2[-800:])
    # ------------------------------------------------------------------ (3) --save-report expressions
    exprs, obs, text = expr_file(run.rng)
    run.evaluations += len(exprs)
    run.count("expressions", len(exprs))
    if run.model_ok:
        rc, out = run.coq_eval("exprs", text)
        import re
        lists = re.findall(r"=\s*(\[[^\]]*\]|nil)\s*:\s*list nat", out, re.S) if rc == 0 else []
        bad = lib.parse_nat_list(out) if rc == 0 else None
        if bad is None:
            run.tie_broken("expression case file did not evaluate", detail=out[-1500:])
        else:
            for b in bad[:3]:
                run.tie_broken("Saving.make_strategy = make_report_saving_strategy", case={"expression": exprs[b]}, impl=obs[b][1])
            if len(lists) == 2:
                run.count("expressions_outside_model", 0 if lists[1] in ("nil", "[]") else lists[1].count(";") + 1)
    # ------------------------------------------------------------------ (2) crash enumeration on the real save code
    payloads = gen_crash_payloads(run, 3 if quick else 40)
    cres = run_impl_many("impl_crash.py", payloads, timeout=300)
    cterms, cpay = [], []
    for p, res in zip(payloads, cres):
        run.evaluations += 1
        run.count("crash:" + p["backend"] + (":over-old" if p["old"] else ":fresh"))
        if p.get("tmpdir"):
            run.count("crash_runs_with_the_temporary_directory_on_another_file_system")
        if res.get("save_error") and not res.get("setup_error"):
            run.violation("save-raises:%s" % p["backend"], "saving a report with the %s backend raises %s" % (p["backend"], res["save_error"]),
                          {"kind": "crash", "backend": p["backend"], "old": p["old"], "new": p["new"], "k": len(res.get("ops") or [])})
        if not res.get("ops") or res.get("setup_error") or res.get("save_error"):
            run.tie_broken("crash driver could not run the save", case={"backend": p["backend"]},
                           detail=json.dumps({k: res.get(k) for k in ("outcome", "setup_error", "save_error")})[:1500])
            continue
        run.count("crash_points", len(res["states"]))
        if len(res["ops"]) >= 3:
            run.nontrivial.add("crash-%s-%d" % (p["backend"], len(cterms)))
        for sig, text in crash_oracle(res):
            k = int(text.split("crash point ")[1].split(" ")[0]) if "crash point " in text else len(res["ops"])
            run.violation(sig, text, {"kind": "crash", "backend": p["backend"], "old": p["old"], "new": p["new"], "k": k})
        try:
            cterms.append(c_ccase(res))
            cpay.append(p)
        except Unmodelled as e:
            run.tie_broken("crash observation outside the CrashFS model", case={"backend": p["backend"]}, detail=str(e))
    if run.model_ok and cterms:
        rc, out = run.coq_eval("crash", crash_file(cterms))
        bad = lib.parse_nat_list(out) if rc == 0 else None
        if bad is None:
            run.tie_broken("crash case file did not evaluate", detail=out[-1500:])
        else:
            for b in bad[:2]:
                rc2, out2 = run.coq_eval("crashdetail", crash_detail_file(cterms[b]))
                which = lib.parse_nat_list(out2) if rc2 == 0 else None
                run.tie_broken("; ".join(CRASH_RELS[i] for i in (which or [])) or "crash correspondence",
                               case={"backend": cpay[b]["backend"], "old_given": cpay[b]["old"] is not None},
                               model="TablesSaving.save_ops / CrashFS.exec", impl=cterms[b][:1500])
    run.coverage["rule"] = (
        "runs: seeded random projects (projgen: nested suites, disabled/skipped tests, hooks, fixtures, failures of every kind, user "
        "threads, tied ranks) x every --save-report expression (incl. every_Ns with a counter clock) x json/xml/junit x 1..4 threads "
        "under the deterministic scheduler; the report file is read after every event; non-trivial = the file changed at least twice "
        "and its first content is a strict prefix of the final report.  crash: generated reports saved by the real backends over "
        "an older report or in a fresh directory, killed before each file-system operation; non-trivial = at least 3 operations")
    run.coverage["file_observed_after_every_event"] = True


def replay(path):
    r = json.load(open(path))
    rep = r.get("replay") or {}
    if rep.get("kind") == "crash":
        res = lib.run_impl("impl_crash.py", {"backend": rep["backend"], "old": rep["old"], "new": rep["new"]}, timeout=300)
        hits = crash_oracle(res) + ([("save-raises", res["save_error"])] if res.get("save_error") else [])
        print(json.dumps({"ops": res.get("ops"), "oracle": hits[:5]}, indent=1))
        return 1 if hits else 0
    case = rep.get("case") or ((r.get("broken") or [{}])[0].get("case"))
    if not case or "project" not in case:
        print("nothing to replay")
        return 2
    res = lib.run_impl("impl_saving.py", case, timeout=180)
    hits = run_oracle(case, res) if "events" in res else [("driver", str(res.get("outcome")))]
    print(json.dumps({"outcome": res.get("outcome"), "file_changed_after": [c["at"] for c in res.get("changes", [])], "oracle": hits}, indent=1))
    return 1 if hits else 0
