"""C16 — matchers compute exact boolean logic; check operations keep their contract.
Model: coq/theories/Model/PyVal.v, Model/Matcher.v ; theorems: Props/C16.v ; table: gen/TablesMatchers.v."""
import copy
import json
import os

import gen_matchers as G
import impl_matchers as I
import lib
from lib import c_bool, c_list

OPS = ["check_that", "require_that", "assert_that"]


# ----------------------------------------------------------------------------- oracle 1: logic (independent of the model)
class _Raised(Exception):
    def __init__(self, cls):
        self.cls = cls


def impl_truth(expr, v):
    """Verdict of the real matcher built from expr on v: bool, or raises _Raised(class name)."""
    try:
        return bool(G.build(expr).matches(v))
    except Exception as e:
        raise _Raised(type(e).__name__)


def arg_truth(a, v):
    """Verdict of a constructor argument (is_ semantics evaluated with Python's own ==)."""
    if G.is_value_arg(a):
        return v == a[1]
    return impl_truth(a, v)


PY_LEAF = {
    "equal_to": lambda a, e: a == e,
    "not_equal_to": lambda a, e: a != e,
    "greater_than": lambda a, e: a > e,
    "greater_than_or_equal_to": lambda a, e: a >= e,
    "less_than": lambda a, e: a < e,
    "less_than_or_equal_to": lambda a, e: a <= e,
    "starts_with": lambda a, e: isinstance(a, str) and a.startswith(e),
    "ends_with": lambda a, e: isinstance(a, str) and a.endswith(e),
    "contains_string": lambda a, e: isinstance(a, str) and e in a,
    "has_items": lambda a, e: all([x in a for x in e]),
    "is_in": lambda a, e: a in e,
}
PY_TYPES = {"is_integer": (int,), "is_bool": (bool,), "is_str": (str,), "is_dict": (dict,), "is_list": (list, tuple)}


def _only_items(a, e):
    e = list(e)
    extra = 0
    for x in a:
        if x in e:
            e.remove(x)
        else:
            extra += 1
    return not e and not extra


def _lookup(v, key):
    path = list(key) if type(key) in (list, tuple) else [key]
    for k in path:
        try:
            v = v[k]
        except (TypeError, IndexError, KeyError):
            return False, None
    return True, v


def reference(expr, v):
    """What the verdict of expr on v has to be according to Python's operators and the documented meaning of the
    constructor, computed from the real verdicts of its operands (public API).  bool, or raises _Raised."""
    op = expr[0]
    try:
        if op in PY_LEAF:
            return bool(PY_LEAF[op](v, expr[1]))
        if op == "has_only_items":
            return _only_items(v, expr[1])
        if op == "is_between":
            return bool(expr[1] <= v <= expr[2])
        if op == "is_none":
            return v is None
        if op == "is_not_none":
            return v is not None
        if op == "is_true":
            return v is True
        if op == "is_false":
            return v is False
        if op in ("anything", "something", "existing", "present"):
            return True
        if op == "not_":
            return not arg_truth(expr[1], v)
        if op == "is_":
            return arg_truth(expr[1], v)
        if op == "all_of":
            return all(arg_truth(a, v) for a in expr[1])          # left to right, stops at the first false
        if op == "any_of":
            return any(arg_truth(a, v) for a in expr[1])          # left to right, stops at the first true
        if op == "has_length":
            return arg_truth(expr[1], len(v))
        if op == "has_item":
            return any(arg_truth(expr[1], x) for x in v)
        if op == "has_all_items":
            return all([arg_truth(expr[1], x) for x in v])        # every item is evaluated
        if op == "has_entry":
            found, value = _lookup(v, expr[1])
            if not found:
                return False
            return True if expr[2] is None or expr[2] == ("$", None) else arg_truth(expr[2], value)
        if op in PY_TYPES:
            if type(v) not in PY_TYPES[op]:
                return False
            return True if expr[1] is None or expr[1] == ("$", None) else arg_truth(expr[1], v)
        if op in ("hide", "override"):
            return impl_truth(expr[1], v)
    except _Raised:
        raise
    except Exception as e:
        raise _Raised(type(e).__name__)
    raise ValueError("no reference for %r" % (op,))


def outcome(f, *a):
    try:
        return ("ok", f(*a))
    except _Raised as r:
        return ("err", r.cls)


def logic_oracle(expr, v, budget):
    """Checks expr on v node by node (operands that receive the same value, items, entries, lengths).
    Returns (constructor, sub expression, value, implementation, reference) of the innermost disagreement, or None."""
    if budget[0] <= 0 or G.is_value_arg(expr):
        return None
    budget[0] -= 1
    op = expr[0]
    # operands first (innermost disagreement wins)
    subs = []
    try:
        if op in ("not_", "is_", "hide", "override"):
            subs = [(expr[1], v)]
        elif op in ("all_of", "any_of"):
            subs = [(a, v) for a in expr[1]]
        elif op == "has_length":
            subs = [(expr[1], len(v))]
        elif op in ("has_item", "has_all_items"):
            subs = [(expr[1], x) for x in list(v)[:4]]
        elif op == "has_entry" and expr[2] is not None:
            found, value = _lookup(v, expr[1])
            subs = [(expr[2], value)] if found else []
        elif op in PY_TYPES and expr[1] is not None:
            subs = [(expr[1], v)]
    except Exception:
        subs = []
    for s, sv in subs:
        hit = logic_oracle(s, sv, budget)
        if hit:
            return hit
    got, want = outcome(impl_truth, expr, v), outcome(reference, expr, v)
    if got != want:
        return (op, expr, v, got, want)
    return None


# ----------------------------------------------------------------------------- oracle 2: operations contract
def operations_oracle(op, expr, v, quiet, obs):
    """The contract evaluated on what a real run recorded. Returns (what, text) or None."""
    m = G.observe_matches(G.build(expr), v)
    checks, out = obs["checks"], obs["outcome"]
    if m[0] == "err":
        # matches() itself raises: that exception is the caller's, nothing may be recorded
        if out[0] != "exc" or out[2] != m[1]:
            return ("swallowed-matcher-exception", "matches() raises %s but %s gave %r" % (m[1], op, out))
        if checks:
            return ("check-recorded-although-matches-raised", "%d check(s) recorded" % len(checks))
        return None
    ok = m[1]
    if out[0] == "exc" and out[1] != "AbortTest":
        return ("raised-%s" % out[1], "%s raised %s because of the match result (verdict %s, details %r)" % (op, out[1], ok, m[2]))
    want_checks = 1 if (op != "assert_that" or not ok) else 0
    if len(checks) != want_checks:
        return ("wrong-number-of-checks", "%d check(s) recorded, %d expected (verdict %s)" % (len(checks), want_checks, ok))
    if checks and checks[0][1] is not ok:
        return ("check-outcome-differs", "recorded outcome %r, match result %r" % (checks[0][1], ok))
    if checks and quiet and checks[0][2] is not None:
        return ("quiet-ignored", "details %r recorded under quiet=True" % (checks[0][2],))
    want_abort = (op != "check_that") and not ok
    if want_abort != (out[0] == "exc"):
        return ("abort-mismatch", "verdict %s, outcome %r" % (ok, out))
    if out[0] == "ret" and out[1] is not ok:
        return ("returned-verdict-differs", "returned %r, verdict %r" % (out[1], ok))
    return None


# ----------------------------------------------------------------------------- Gallina
HEADER = """From Coq Require Import List Bool NArith ZArith.
Import ListNotations.
From LCC Require Import Base.Util Model.PyVal Model.Matcher gen.TablesMatchers.
Inductive opk := OCheck | ORequire | OAssert.
Definition run_op (k : opk) := match k with OCheck => check_that | ORequire => require_that | OAssert => assert_that end.
Definition agrees_m (c : matcher * list (pyval * mres)) : bool :=
  forallb (fun p => mres_eqb (matches (fst c) (fst p)) (snd p)) (snd c).
Definition agrees_o (c : opk * matcher * pyval * bool * op_obs) : bool :=
  let '(k, m, v, q, o) := c in op_obs_eqb (run_op k frd_of_source v m q) o.
"""
OPK = {"check_that": "OCheck", "require_that": "ORequire", "assert_that": "OAssert"}


def matches_file(cases):
    body = ";\n".join("(%s,\n  %s)" % (G.c_expr(e), c_list(obs, lambda p: "(%s, %s)" % (G.c_val(p[0]), G.c_mres(p[1]))))
                      for e, obs in cases)
    return HEADER + "Definition cases : list (matcher * list (pyval * mres)) := [\n%s\n].\n" % body + \
        "Eval vm_compute in (find_indexes (fun c => negb (agrees_m c)) cases).\n"


def c_obs(o):
    checks = c_list(o["checks"], lambda c: "{| ck_ok := %s; ck_details := %s |}" % (c_bool(c[1]), G.details_class(c[2])))
    out = "Returns %s" % c_bool(o["outcome"][1]) if o["outcome"][0] == "ret" else "Raises %s" % o["outcome"][2]
    return "(%s, %s)" % (checks, out)


def ops_file(cases):
    body = ";\n".join("(%s, %s, %s, %s, %s)" % (OPK[op], G.c_expr(e), G.c_val(v), c_bool(q), c_obs(o))
                      for (op, e, v, q, h), o in cases)
    return HEADER + "Definition cases : list (opk * matcher * pyval * bool * op_obs) := [\n%s\n].\n" % body + \
        "Eval vm_compute in (find_indexes (fun c => negb (agrees_o c)) cases).\n"


# ----------------------------------------------------------------------------- the dict operations (*_that_in)
IN_HEADER = """From Coq Require Import List Bool NArith ZArith.
Import ListNotations.
From LCC Require Import Base.Util Model.PyVal Model.Matcher Model.OpsIn gen.TablesMatchers.
Inductive opk := OCheck | ORequire | OAssert.
Definition run_op (k : opk) : op := match k with OCheck => check_that frd_of_source | ORequire => require_that frd_of_source
                                               | OAssert => assert_that frd_of_source end.
Definition agrees (c : opk * pyval * eargs * pyval * bool * op_in_obs) : bool :=
  let '(k, v, a, b, q, o) := c in op_in_obs_eqb (that_in (run_op k) v a b q) o.
"""
IN_KEYS = ["a", "b", "ab", 0, 1, 2, None]


def gen_earg(rng, depth):
    r = rng.random()
    if depth <= 0 or r < 0.45:
        if rng.random() < 0.04:
            return ("other", rng.choice([3, "x", None]))
        return ("m", G.gen_expr(rng, 1))
    if r < 0.68:
        return ("list", [gen_earg(rng, depth - 1) for _ in range(rng.choice([0, 1, 1, 2, 3]))])
    keys = rng.sample(IN_KEYS, rng.choice([0, 1, 1, 2, 3]))
    return ("dict", [(k, gen_earg(rng, depth - 1)) for k in keys])


def build_earg(a):
    if a[0] == "m":
        return G.build(a[1])
    if a[0] == "other":
        return a[1]
    if a[0] == "list":
        return [build_earg(x) for x in a[1]]
    return {k: build_earg(x) for k, x in a[1]}


def c_earg(a):
    if a[0] == "m":
        return "(EMatcher %s)" % G.c_expr(a[1])
    if a[0] == "other":
        return "EOther"
    if a[0] == "list":
        return "(EList %s)" % c_list(a[1], c_earg)
    return "(EDict %s)" % c_list(a[1], lambda kx: "(%s, %s)" % (G.c_val(kx[0]), c_earg(kx[1])))


def leaves_of(a, path=()):
    """[(path, matcher expression)] in generator order, up to the first malformed element; and whether one was met"""
    if a[0] == "m":
        return [(path, a[1])], False
    if a[0] == "other":
        return [], True
    out = []
    items = list(enumerate(a[1])) if a[0] == "list" else a[1]
    for k, x in items:
        ys, bad = leaves_of(x, path + (k,))
        out += ys
        if bad:
            return out, True
    return out, False


def actual_for(rng, leaves):
    """an actual value shaped after the expected structure (so that entries exist), with random leaves"""
    root = {}
    for path, _ in leaves:
        if not path or rng.random() < 0.15:
            continue
        node = root
        ok = True
        for k in path[:-1]:
            if not isinstance(node, dict):
                ok = False
                break
            try:
                node = node.setdefault(k, {})
            except TypeError:
                ok = False
                break
        if ok and isinstance(node, dict):
            try:
                node[path[-1]] = G.gen_value(rng, 1)
            except TypeError:
                pass
    return root


def gen_in_case(rng):
    op = rng.choice(["check_that_in", "check_that_in", "require_that_in", "assert_that_in"])
    quiet = rng.random() < 0.2
    r = rng.random()
    base = None
    if rng.random() < 0.3:
        base = rng.choice(["a", ("a",), ["a", 0], (), 0, ("b", "a")])
    if r < 0.45:
        a = gen_earg(rng, 2)
        while a[0] in ("m", "other") and rng.random() < 0.85:
            a = gen_earg(rng, 2)
        args = ("single", a)
        py_args = [build_earg(a)]
        leaves, _ = leaves_of(a)
    elif r < 0.95:
        pairs = []
        for _ in range(rng.choice([0, 1, 1, 2, 2, 3])):
            k = rng.choice(IN_KEYS[:6]) if rng.random() < 0.7 else [rng.choice(["a", "b", 0]) for _ in range(rng.choice([0, 1, 2]))]
            pairs.append((k, gen_earg(rng, 1)))
        args = ("pairs", pairs)
        py_args = []
        leaves = []
        for k, x in pairs:
            py_args += [tuple(k) if isinstance(k, list) and rng.random() < 0.5 else k, build_earg(x)]
            ys, bad = leaves_of(x, tuple(k) if isinstance(k, list) else (k,))
            leaves += ys
            if bad:
                break
    else:
        args = ("odd",)
        py_args = ["a", G.build(("equal_to", 1)), "b"]
        leaves = []
    basepath = () if base is None else (tuple(base) if isinstance(base, (list, tuple)) else (base,))
    inner = actual_for(rng, leaves) if rng.random() < 0.7 else G.gen_value(rng, 3)
    actual = inner
    for k in reversed(basepath):
        actual = {k: actual} if not isinstance(k, (list, dict)) else actual
    if rng.random() < 0.1:
        actual = G.gen_value(rng, 2)
    return {"op": op, "actual": actual, "args": args, "py_args": py_args, "base": base, "quiet": quiet, "n_leaves": len(leaves)}


def c_eargs(args):
    if args[0] == "single":
        return "(ASingle %s)" % c_earg(args[1])
    if args[0] == "pairs":
        return "(APairs %s)" % c_list(args[1], lambda kx: "(%s, %s)" % (G.c_val(kx[0]), c_earg(kx[1])))
    return "AOdd"


def c_in_obs(o):
    checks = c_list(o["checks"], lambda c: "{| ck_ok := %s; ck_details := %s |}" % (c_bool(c[1]), G.details_class(c[2])))
    out = "ReturnsAll %s" % c_list(o["outcome"][1], c_bool) if o["outcome"][0] == "ret" else "RaisesIn %s" % o["outcome"][2]
    return "(%s, %s)" % (checks, out)


def check_ops_in(run):
    """check_that_in / require_that_in / assert_that_in executed in a real test against OpsIn.that_in, plus their contract
    evaluated on what was recorded."""
    n = 400 if run.tier == "quick" else 12000
    cases = [gen_in_case(run.rng) for _ in range(n)]
    obs = []
    for k in range(0, len(cases), 500):
        obs += I.run_operations_in([(c["op"], c["actual"], c["py_args"], c["base"], c["quiet"]) for c in cases[k:k + 500]])
    rows = []
    for c, o in zip(cases, obs):
        run.evaluations += 1
        run.count("in_operations")
        run.count("in_operation:" + c["op"])
        run.count("in_outcome:" + (o["outcome"][0] if o["outcome"][0] == "ret" else o["outcome"][1]))
        if len(o["checks"]) >= 2:
            run.nontrivial.add("in%d" % len(rows))
            run.count("in_operations_recording_two_checks_or_more")
        # the contract on the recorded facts: a returned list has one verdict per check recorded (check / require), every check
        # recorded before an AbortTest but the last is successful (require / assert), a plain failed match never raises (check)
        kind, desc = None, None
        oks = [ck[1] for ck in o["checks"]]
        if o["outcome"][0] == "ret":
            if c["op"] != "assert_that_in" and oks != o["outcome"][1]:
                kind, desc = "in-verdicts-differ-from-checks", "returned %r, recorded %r" % (o["outcome"][1], oks)
            if c["op"] != "check_that_in" and not all(o["outcome"][1]):
                kind, desc = "in-failure-without-abort", "%s returned %r without raising" % (c["op"], o["outcome"][1])
            if c["op"] == "assert_that_in" and oks:
                kind, desc = "in-assert-records-success", "assert_that_in recorded %r and returned" % (oks,)
        elif o["outcome"][1] == "AbortTest":
            if c["op"] == "check_that_in":
                kind, desc = "in-check-raises-abort", "check_that_in raised AbortTest"
            elif not oks or oks[-1] or not all(oks[:-1]):
                kind, desc = "in-abort-without-failed-check", "%s raised AbortTest, recorded %r" % (c["op"], oks)
        # every verdict returned by check_that_in is the match result of has_entry(base_key + key path, matcher) on the actual
        # value, computed here with the real matcher and without operations.py
        if kind is None and c["op"] == "check_that_in" and o["outcome"][0] == "ret" and c["args"][0] in ("single", "pairs"):
            import lemoncheesecake.matching as M
            base = c["base"]
            basepath = () if base is None else (tuple(base) if isinstance(base, (list, tuple)) else (base,))
            pairs = [((), c["args"][1])] if c["args"][0] == "single" else [
                ((tuple(k) if isinstance(k, list) else (k,)), x) for k, x in c["args"][1]]
            want = []
            try:
                for kp, x in pairs:
                    ys, bad = leaves_of(x, basepath + kp)
                    for path, expr in ys:
                        want.append(bool(M.has_entry(list(path), G.build(expr)).matches(c["actual"])))
                    if bad:
                        break
            except Exception:
                want = None
            if want is not None and want != o["outcome"][1]:
                kind, desc = "in-verdict-is-not-the-match-result", "check_that_in returned %r, has_entry(path, matcher) gives %r" % (
                    o["outcome"][1], want)
        if kind:
            run.violation("oracle:" + kind, desc, {"kind": "in-operation", "op": c["op"], "actual": c["actual"], "args": repr(c["args"]),
                                                  "base": repr(c["base"]), "quiet": c["quiet"], "observed": o})
        try:
            base = c["base"]
            c_base = "(VList [])" if base is None else G.c_val(list(base) if isinstance(base, (list, tuple)) else base)
            rows.append(("(%s, %s, %s, %s, %s, %s)" % (OPK[c["op"][:-3]], G.c_val(c["actual"]), c_eargs(c["args"]), c_base,
                                                      c_bool(c["quiet"]), c_in_obs(o)),
                         {"op": c["op"], "actual": c["actual"], "args": repr(c["args"]), "base": repr(c["base"]), "quiet": c["quiet"],
                          "observed": o}))
        except ValueError as e:
            run.count("in_operations_not_representable")
    if not getattr(run, "model_ok", False) or not rows:
        return
    relation = "OpsIn.that_in = check_that_in / require_that_in / assert_that_in executed in a real test"
    shards = [rows[i:i + 400] for i in range(0, len(rows), 400)]
    files = [("opsin%d" % k, IN_HEADER + "Definition cases : list (opk * pyval * eargs * pyval * bool * op_in_obs) := [\n%s\n].\n"
              % ";\n".join(r[0] for r in sh) + "Eval vm_compute in (find_indexes (fun c => negb (agrees c)) cases).\n")
             for k, sh in enumerate(shards)]
    reported = 0
    for k, (rc, out) in enumerate(run.coq_eval_many(files)):
        bad = lib.parse_nat_list(out) if rc == 0 else None
        if bad is None:
            run.tie_broken(relation, detail="case file did not evaluate: " + out[-1500:])
            continue
        for idx in bad:
            if reported < 2:
                run.tie_broken(relation, case=shards[k][idx][1])
                reported += 1


# ----------------------------------------------------------------------------- the check
# hand-picked corners of Python's operators, run first
CORNERS = [
    (("equal_to", 1), [True, 1, "1", [1], None]), (("equal_to", [1, [True, {"a": 0}]]), [[True, [1, {"a": False}]], [1, [1, {"a": None}]]]),
    (("equal_to", {1: "x", "a": 2}), [{True: "x", "a": 2}, {"a": 2, 1: "x"}, {1: "x"}, {1: "x", "a": 2, "b": 3}]),
    (("greater_than", [1, 2]), [[1, 2, 0], [1, 2], [1], [1, "a"], ["a"], [2, None], []]),
    (("less_than_or_equal_to", [1, "a"]), [[1, "a"], [1, "b"], [1, 2], [True, "a", 0], [0, None]]),
    (("less_than", "ab"), ["a", "ab", "abc", "b", "", "\u00e9", 1]), (("greater_than_or_equal_to", True), [1, 0, True, False, 2, None, "1"]),
    (("is_between", 0, 2), [0, 2, 3, -1, True, False, None, "1", [1]]), (("is_between", 2, 0), [1, "a", None]),
    (("is_in", [1, "a", [2]]), [True, 1, "a", [2], [True], 2, None]), (("has_items", [True, "a"]), [[1, "a"], ["a"], {"a": 0, 1: 0}, {"a": 0}, "xa", "a", 5]),
    (("has_items", [[1]]), [{"a": 1}, [[1]], [[True]]]), (("has_items", []), [5, None, [], "x"]),
    (("has_only_items", [1, 1, 2]), [[1, 2, 1], [True, 2, 1], [1, 2], [1, 1, 2, 2], {1: 0, 2: 0}, "112", 7]),
    (("has_only_items", ["a", "b"]), ["ab", "ba", "abc", {"b": 1, "a": 2}, ["b", "a"]]),
    (("has_entry", -1, ("$", 3)), [[1, 2, 3], [3], [], "ab3", {-1: 3}, {"-1": 3}, 3]), (("has_entry", True, None), [[1, 2], [1], {1: 0}, {True: 0}, "ab", "a"]),
    (("has_entry", ["a", 0, "b"], ("$", 1)), [{"a": [{"b": 1}]}, {"a": [{"b": 2}]}, {"a": {"0": {"b": 1}}}, {"a": {0: {"b": True}}}, {"a": []}]),
    (("has_entry", [[1]], None), [{"a": 1}, [[1]], {}]), (("has_entry", [], ("is_dict", None)), [{}, [], 1]),
    (("has_length", ("$", 2)), ["ab", [1, 2], {"a": 1, "b": 2}, 2, None, True, "\u00e9\u00e9"]), (("has_length", ("greater_than", "a")), ["ab", [1]]),
    (("has_item", ("greater_than", 1)), [[0, 2, "a"], [0, "a", 2], ["a"], [], {"a": 1}, {2: 0}, "ab", 3]),
    (("has_all_items", ("greater_than", 1)), [[2, 3], [2, 0, "a"], [2, "a", 0], [], "ab", {3: 0, 4: 0}, None]),
    (("all_of", [("is_str", None), ("greater_than", "a")]), [1, "b", "a", None]), (("all_of", [("greater_than", "a"), ("is_str", None)]), [1, "b", "a"]),
    (("any_of", [("is_integer", None), ("greater_than", "a")]), [1, True, "b", None]), (("any_of", [("greater_than", "a"), ("is_integer", None)]), [1, "b"]),
    (("is_integer", ("$", 1)), [1, True, 1 << 70, "1"]), (("is_bool", ("$", 1)), [True, 1, False]), (("is_true",), [True, 1, False, None]),
    (("is_list", ("has_length", ("$", 0))), [[], "", {}, [0]]), (("is_dict", ("has_entry", "a", None)), [{"a": 1}, ["a"], {}]),
    (("starts_with", ""), ["", "a", 1, None]), (("ends_with", "ab"), ["ab", "cab", "abc", "b", ["a", "b"]]), (("contains_string", "a\nb"), ["xa\nby", "ab", 5]),
    (("not_", ("not_", ("greater_than", 1))), [2, 0, "a"]), (("not_", ("any_of", [])), [1]), (("hide", ("any_of", [("hide", ("equal_to", 1))])), [1, 2]),
    (("any_of", [("hide", ("equal_to", 1)), ("$", 2)]), [1, 2, 3]), (("any_of", [("has_all_items", ("$", 1)), ("$", 2)]), [[1], [3], 2, 5]),
    (("not_", ("has_all_items", ("$", 1))), [[1, 1], [1, 2], 5]), (("any_of", [("not_", ("has_all_items", ("$", 1)))]), [[1], [2]]),
    (("override", ("any_of", []), ""), [1]), (("is_", ("$", None)), [None, 0, False]), (("has_entry", "a", ("$", None)), [{"a": 5}, {"b": 1}]),
]

F8_WITNESS = ("any_of", [("hide", ("equal_to", 1)), ("hide", ("equal_to", 2))])


def check(run):
    run.trusted += [
        "modelled, not verified: Python's ==, ordering, `in`, len, iteration, indexing and type() on None/bool/int/str/list/dict "
        "(Model/PyVal.v), compared with Python itself on every run through the matchers; result details abstracted to "
        "None / empty / non-empty",
        "harness/tables_matchers.py (AST shape recognition of _format_result_details; the other shapes concern C17)",
    ]
    run.assume += [
        "actual and expected values are None, bool, int, str, list or dict (no float, tuple, set, bytes, user classes); "
        "is_between bounds are ints; starts_with/ends_with/contains_string receive a str",
        "match_pattern, is_text, is_float, custom EntryMatcher are not modelled; of the *_in operations the expected structure, the key paths, the order, the verdicts and what escapes are modelled (Model/OpsIn.v), the wording of their checks is not; is_json only by its verdict (= py_eq), on structures whose dicts have keys of one kind (json.dumps(sort_keys=True) must be able to order them)",
        "DISPLAY_DETAILS_WHEN_EQUAL keeps its default (True)",
        "the operations are called from a running test (log_check needs a session)",
    ]
    run.prove(extra_targets=["theories/Base/Util.vo", "theories/Model/PyVal.vo", "theories/Model/Matcher.vo",
                             "theories/Model/OpsIn.vo", "theories/gen/TablesMatchers.vo"])
    quick = run.tier == "quick"
    n_expr = 2000 if quick else 100000
    n_ops = 1500 if quick else 40000
    opts = {"wrappers": True, "override": True}

    # ---- matches(): implementation observations, logic oracle
    mcases = []
    for i in range(n_expr):
        depth = run.rng.choice([0, 1, 1, 2, 2, 3, 3, 4])
        dom = G.value_domain(run.rng, 29)
        if i < len(CORNERS):
            e, vals = CORNERS[i]
        else:
            e = G.gen_expr(run.rng, depth, opts)
            vals = run.rng.sample(dom, 8) + [G.gen_value(run.rng) for _ in range(4)]
        m = G.build(e)
        obs = [(v, G.observe_matches(m, v)) for v in vals]
        mcases.append((e, obs))
        run.evaluations += len(vals)
        run.count("expressions")
        run.count("depth_%d" % G.depth_of(e))
        for c in G.constructors_of(e):
            run.count("uses_" + c)
        verdicts = set(o[1] if o[0] == "ok" else "raise" for _, o in obs)
        for x in verdicts:
            run.count("verdict_%s" % x, sum(1 for _, o in obs if (o[1] if o[0] == "ok" else "raise") == x))
        if G.depth_of(e) >= 2 and (G.constructors_of(e) & {"all_of", "any_of", "not_"}) and {True, False} <= verdicts:
            run.nontrivial.add(repr(e))
        if any(o[0] == "ok" and o[2] != "DText" for _, o in obs):
            run.count("expressions_with_hidden_or_empty_details")
        for v in vals:
            hit = logic_oracle(e, v, [60])
            if hit:
                cons, sub, sv, got, want = hit
                sub = G.shrink(sub, lambda c: c[0] == cons and outcome(impl_truth, c, sv) != outcome(reference, c, sv), limit=150)
                got, want = outcome(impl_truth, sub, sv), outcome(reference, sub, sv)
                run.violation("logic:%s" % cons,
                              "%s does not compute what Python's operators give: implementation %r, reference %r" % (cons, got, want),
                              {"kind": "logic", "expr": repr(sub), "value": repr(sv), "implementation": got, "reference": want})
        if i < 2:
            run.sample({"expr": repr(e), "observed": [[repr(v), list(o)] for v, o in obs[:4]]})

    # ---- is_json(expected): no constructor of its own in the model -- its verdict is Python's == on the two structures, i.e.
    # Model.PyVal.py_eq; what json.dumps prints (1 and True, the keys 1 and "1") is not what decides
    import lemoncheesecake.matching as M

    def retype(x, alias):
        if isinstance(x, bool):
            return int(x)
        if isinstance(x, int):
            return bool(x) if x in (0, 1) else x
        if isinstance(x, list):
            return [retype(y, alias) for y in x]
        if isinstance(x, dict):
            return {(str(k) if alias and isinstance(k, int) and not isinstance(k, bool) else retype(k, False)): retype(y, alias) for k, y in x.items()}
        return x
    def sortable(x):
        if isinstance(x, list):
            return all(sortable(y) for y in x)
        if isinstance(x, dict):
            return len(set(isinstance(k, str) for k in x)) <= 1 and None not in x and all(sortable(y) for y in x.values())
        return True
    jcases = [({1: "a"}, {"1": "a"}), (1, True), ([0, {"a": 1}], [False, {"a": True}]), ({"a": [1, 2]}, {"a": [1, 2]}), ({True: "x"}, {1: "x"})]
    while len(jcases) < (400 if quick else 6000):
        e = G.gen_value(run.rng) if run.rng.random() < 0.7 else run.rng.choice(G.value_domain(run.rng, 29))
        r = run.rng.random()
        v = retype(e, False) if r < 0.35 else retype(e, True) if r < 0.6 else copy.deepcopy(e) if r < 0.8 else G.gen_value(run.rng)
        # is_json prints both structures with json.dumps(sort_keys=True): the keys of one dict must be comparable with each other
        if sortable(v) and sortable(e):
            jcases.append((v, e))
    jobs = []
    for v, e in jcases:
        run.evaluations += 1
        run.count("is_json_pairs")
        try:
            got = bool(M.is_json(e).matches(v))
            neg = bool(M.not_(M.is_json(e)).matches(v))
        except Exception as ex:     # noqa: BLE001
            run.violation("logic:is_json", "is_json raised %s" % type(ex).__name__, {"kind": "is_json", "value": repr(v), "expected": repr(e)})
            continue
        want = bool(v == e)
        run.count("is_json_equal" if want else "is_json_different")
        if want and repr(v) != repr(e):
            run.count("is_json_equal_but_printed_differently")
            run.nontrivial.add("is_json:" + repr((v, e)))
        if got != want or neg == got:
            run.violation("logic:is_json", "is_json(%r) on %r: verdict %r (not_: %r) although the two structures are %s for Python" % (
                e, v, got, neg, "equal" if want else "different"), {"kind": "is_json", "value": repr(v), "expected": repr(e), "implementation": got, "reference": want})
        jobs.append((v, e, got))
    if getattr(run, "model_ok", False) and jobs:
        body = ";\n".join("(%s, %s, %s)" % (G.c_val(v), G.c_val(e), c_bool(b)) for v, e, b in jobs)
        rc, out = run.coq_eval("isjson", HEADER + "Definition jcases : list (pyval * pyval * bool) := [\n%s\n].\n" % body +
                               "Eval vm_compute in (find_indexes (fun c => let '(v, e, b) := c in negb (Bool.eqb (py_eq v e) b)) jcases).\n")
        bad = lib.parse_nat_list(out) if rc == 0 else None
        if bad is None:
            run.tie_broken("is_json case file did not evaluate", detail=out[-1500:])
        for idx in (bad or [])[:3]:
            v, e, b = jobs[idx]
            run.tie_broken("PyVal.py_eq = verdict of is_json", case={"value": repr(v), "expected": repr(e)}, impl=b)

    # ---- operations: one real run per batch, contract oracle
    ocases = [("check_that", F8_WITNESS, 3, False, "value"), ("check_that", ("any_of", []), 1, False, None),
              ("require_that", F8_WITNESS, 3, False, "value"), ("assert_that", F8_WITNESS, 3, False, "value"),
              ("check_that", F8_WITNESS, 3, True, "value")]
    while len(ocases) < n_ops:
        e = G.gen_expr(run.rng, run.rng.choice([0, 1, 2, 2, 3, 4]), opts)
        v = run.rng.choice(G.value_domain(run.rng, 29)) if run.rng.random() < 0.7 else G.gen_value(run.rng)
        ocases.append((run.rng.choice(OPS), e, v, run.rng.random() < 0.3, run.rng.choice([None, "value", "x"])))
    oobs = []
    for k in range(0, len(ocases), 500):
        oobs += I.run_operations(ocases[k:k + 500])
    opairs = list(zip(ocases, oobs))
    for (op, e, v, q, h), o in opairs:
        run.evaluations += 1
        run.count("op_" + op)
        run.count("op_quiet" if q else "op_loud")
        run.count("op_outcome_" + (o["outcome"][1] if o["outcome"][0] == "exc" else "returned"))
        for c in o["checks"]:
            run.count("op_check_details_" + G.details_class(c[2]))
        if o["outcome"][0] == "exc" or any(c[2] is None or c[2] == "" for c in o["checks"]):
            run.nontrivial.add(repr((op, e, v, q)))
        hit = operations_oracle(op, e, v, q, o)
        if hit:
            def still(c, op=op, v=v, q=q, h=h, what=hit[0]):
                r = operations_oracle(op, c, v, q, I.run_operations([(op, c, v, q, h)])[0])
                return bool(r) and r[0] == what
            small = G.shrink(e, still, limit=60)
            so = I.run_operations([(op, small, v, q, h)])[0]
            run.violation("ops:%s:%s" % (op, hit[0]), "%s broke its contract: %s" % (op, hit[1]),
                          {"kind": "operation", "op": op, "expr": repr(small), "value": repr(v), "quiet": q, "hint": h,
                           "recorded_checks": so["checks"], "outcome": list(so["outcome"])})
    run.sample({"operation": list(map(repr, ocases[5])), "observed": oobs[5]})

    # ---- correspondence inside Coq
    if getattr(run, "model_ok", False):
        files = [("m%d" % k, matches_file(mcases[k:k + 400])) for k in range(0, len(mcases), 400)]
        nm = len(files)
        oshards = [opairs[k:k + 500] for k in range(0, len(opairs), 500)]
        files += [("o%d" % k, ops_file(s)) for k, s in enumerate(oshards)]
        outs = run.coq_eval_many(files)
        for k, (rc, out) in enumerate(outs):
            bad = lib.parse_nat_list(out) if rc == 0 else None
            if bad is None:
                run.tie_broken("case file %s did not evaluate" % files[k][0], detail=out[-1500:])
                continue
            for idx in bad[:2]:
                if k < nm:
                    e, obs = mcases[k * 400 + idx]
                    run.tie_broken("matches (model) = matches() (implementation)", case=repr(e),
                                   impl=[[repr(v), list(o)] for v, o in obs])
                else:
                    (op, e, v, q, h), o = oshards[k - nm][idx]
                    run.tie_broken("%s (model, _format_result_details as in the source) = %s (real run)" % (op, op),
                                   case={"op": op, "expr": repr(e), "value": repr(v), "quiet": q}, impl=o)
    check_ops_in(run)
    run.coverage["rule"] = (
        "seeded random expressions over all modelled public constructors (depth 0..4, value arguments through is_, "
        "hide_result_details 12%, override_description 5%) x 12 values each from a fixed separating core plus random nested "
        "values; operations: random (operation, expression, value, quiet, hint) executed in a real test of a real run; "
        "non-trivial = an expression of depth >= 2 with a connective that was seen both accepting and rejecting, or an "
        "operation that raised / recorded a check without text details")


def replay(path):
    r = json.load(open(path))
    rp = r.get("replay") or {}
    if rp.get("kind") == "logic":
        e, v = G.parse(rp["expr"]), G.parse(rp["value"])
        got, want = outcome(impl_truth, e, v), outcome(reference, e, v)
        print(json.dumps({"expr": rp["expr"], "value": rp["value"], "implementation": got, "reference": want}))
        return 1 if got != want else 0
    if rp.get("kind") == "is_json":
        import lemoncheesecake.matching as M
        e, v = G.parse(rp["expected"]), G.parse(rp["value"])
        got, neg = bool(M.is_json(e).matches(v)), bool(M.not_(M.is_json(e)).matches(v))
        print(json.dumps({"expected": rp["expected"], "value": rp["value"], "is_json": got, "not_is_json": neg, "python_eq": v == e}))
        return 1 if got != (v == e) or neg == got else 0
    if rp.get("kind") == "operation":
        e, v = G.parse(rp["expr"]), G.parse(rp["value"])
        o = I.run_operations([(rp["op"], e, v, rp["quiet"], rp.get("hint"))])[0]
        hit = operations_oracle(rp["op"], e, v, rp["quiet"], o)
        print(json.dumps({"op": rp["op"], "expr": rp["expr"], "value": rp["value"], "observed": o, "oracle": hit}, default=str))
        return 1 if hit else 0
    if r.get("kind") == "no-failing-input-found" or rp.get("kind") in ("in-operation", "value-clause"):
        # a broken proof / translator / correspondence without a failing input: re-run the whole check on the current tree
        import subprocess
        rc = subprocess.call([os.path.join(lib.ROOT, "check"), "C16", "--tier", "quick"])
        return 1 if rc else 0
    print("nothing to replay in", path)
    return 2
