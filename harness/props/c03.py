"""C03 — fixtures and hooks: set up before use, torn down exactly once after last use.
Models: Fixture.v (schedules), Graph.v (dependency edges), Sched.v (ordering), TaskSem.v (setup/teardown phases)."""
import json

import engine
import propcommon
import projgen
import runoracle
import sim

PROFILE = {"max_fixtures": 8, "p_fixture_arg": 0.7, "p_hook": 0.5, "p_inject": 0.4, "p_empty_suite": 0.06, "p_fail": 0.22}


def check(run):
    run.trusted += engine.TRUSTED
    run.assume += engine.ASSUME + ["per-thread fixtures are covered by C15, not here"]
    run.prove(extra_targets=engine.TARGETS)
    n = 120 if run.tier == "quick" else 3000
    cases = engine.gen_cases(run, n, profile=PROFILE, threads=(1, 2, 3, 4) if run.tier == "quick" else (1, 2, 3, 4, 6, 8), prefix="f")
    results = engine.cosim(run, cases)
    for c in cases:
        r = results.get(c["id"]) or {"outcome": ["hang", "no result"]}
        run.evaluations += 1
        nfx = len(c["project"]["fixtures"])
        run.count("fixtures", nfx)
        run.count("threads=%d" % c["options"]["nb_threads"])
        setups = sum(1 for a in (r.get("trace") or []) if a[1] == "fx_setup_end")
        run.count("fixture_setups", setups)
        if setups >= 2:
            run.nontrivial.add(c["id"])
        for sig, text in runoracle.c03_oracle(c, r):
            run.violation(sig, text, {"case": c, "outcome": r.get("outcome")})
        if len(run.samples) < 2:
            run.sample({"fixtures": [(f["name"], f["scope"], f["params"]) for f in c["project"]["fixtures"]],
                        "options": c["options"], "fixture_setups": setups})
    # directed family: a fixture needed only by a DISABLED test, next to an enabled test of the same suite: it is not evaluated
    # (suite, session and pre_run scope; with --force-disabled it is needed and evaluated)
    nohooks = {"setup_suite": None, "teardown_suite": None, "setup_test": None, "teardown_test": None}
    dcases = []
    for k, (scope, force, nthreads) in enumerate([("suite", False, 1), ("session", False, 2), ("pre_run", False, 1), ("suite", True, 2),
                                                  ("session", True, 1)]):
        fx = [{"name": "f5", "scope": scope, "params": [], "per_thread": False, "generator": scope != "pre_run",
               "setup": [["mark", 1]], "teardown": [["mark", 2]] if scope != "pre_run" else []},
              {"name": "f9", "scope": "suite", "params": [], "per_thread": False, "generator": True, "setup": [["mark", 3]], "teardown": [["mark", 4]]}]
        tests = [{"name": "t7", "disabled": False, "rank": 0, "deps": [], "args": ["f9"], "params": {}, "body": [["log", 1, 1], ["use", "f9"]]},
                 {"name": "t8", "disabled": True, "rank": 1, "deps": [], "args": ["f5"], "params": {}, "body": [["log", 1, 2], ["use", "f5"]]}]
        dcases.append({"id": "fd%d" % k, "project": {"fixtures": fx, "suites": [
            {"name": "s6", "disabled": False, "rank": 0, "hooks": nohooks, "injected": [], "tests": tests, "subs": []}]},
            "sched": projgen.gen_sched(run.rng), "options": {"nb_threads": nthreads, "stop_on_failure": False, "force_disabled": force}})
    dres = engine.cosim(run, dcases)
    for c in dcases:
        r = dres.get(c["id"]) or {"outcome": ["hang", "no result"]}
        run.evaluations += 1
        run.count("fixture_of_a_disabled_test_only_runs")
        for sig, text in runoracle.c03_oracle(c, r):
            run.violation(sig, text, {"case": c, "outcome": r.get("outcome")})
    # directed family (test scope): setup_test completes, then a test-scoped fixture set up after it fails (raises / logs an
    # error), or the body fails: teardown_test still runs, once, and the fixtures set up before the failing one are torn down
    tcases = []
    for k, (how, nthreads) in enumerate([(["raise", "Exception"], 1), (["log", 3, 9], 2), (["raise", "AbortTest"], 1), (None, 2)]):
        fx = [{"name": "f5", "scope": "test", "params": [], "per_thread": False, "generator": True, "setup": [["mark", 1]], "teardown": [["mark", 2]]},
              {"name": "f9", "scope": "test", "params": [], "per_thread": False, "generator": True,
               "setup": [["mark", 3]] + ([how] if how else []), "teardown": [["mark", 4]]}]
        tests = [{"name": "t7", "disabled": False, "rank": 0, "deps": [], "args": ["f5", "f9"], "params": {},
                  "body": [["log", 1, 1]] + ([] if how else [["raise", "Exception"]])},
                 {"name": "t8", "disabled": False, "rank": 1, "deps": [], "args": [], "params": {}, "body": [["log", 1, 2]]}]
        tcases.append({"id": "ft%d" % k, "project": {"fixtures": fx, "suites": [
            {"name": "s6", "disabled": False, "rank": 0, "hooks": dict(nohooks, setup_test=[["mark", 5]], teardown_test=[["mark", 6]]),
             "injected": [], "tests": tests, "subs": []}]},
            "sched": projgen.gen_sched(run.rng), "options": {"nb_threads": nthreads, "stop_on_failure": False, "force_disabled": False}})
    tres = engine.cosim(run, tcases)
    for c in tcases:
        r = tres.get(c["id"]) or {"outcome": ["hang", "no result"]}
        run.evaluations += 1
        run.count("test_scope_failure_after_setup_test_runs")
        for sig, text in runoracle.c03_oracle(c, r):
            run.violation(sig, text, {"case": c, "outcome": r.get("outcome")})
    # directed family: several tests of one suite with the SAME test-scoped fixtures, run at the same time: each test sets up and
    # tears down instances of its own
    scases = []
    for k in range(6 if run.tier == "quick" else 60):
        fx = [{"name": "f5", "scope": "test", "params": [], "per_thread": False, "generator": True, "setup": [["mark", 1], ["mark", 2]], "teardown": [["mark", 3]]},
              {"name": "f9", "scope": "test", "params": ["f5"], "per_thread": False, "generator": k % 2 == 0, "setup": [["mark", 4]], "teardown": [["mark", 5]] if k % 2 == 0 else []}]
        tests = [{"name": "t%d" % (10 + i), "disabled": False, "rank": i, "deps": [], "args": ["f5", "f9"], "params": {},
                  "body": [["mark", 6], ["use", "f5"], ["mark", 7], ["use", "f9"]]} for i in range(3 + k % 2)]
        scases.append({"id": "fs%d" % k, "project": {"fixtures": fx, "suites": [
            {"name": "s6", "disabled": False, "rank": 0, "hooks": nohooks, "injected": [], "tests": tests, "subs": []}]},
            "sched": projgen.gen_sched(run.rng, run.rng.choice(["random", "bursts", "last"])),
            "options": {"nb_threads": run.rng.choice([2, 3]), "stop_on_failure": False, "force_disabled": False}})
    sres = engine.cosim(run, scases)
    for c in scases:
        r = sres.get(c["id"]) or {"outcome": ["hang", "no result"]}
        run.evaluations += 1
        run.count("same_test_fixtures_at_the_same_time_runs")
        hits = runoracle.c03_oracle(c, r)
        rep = r.get("report")
        if rep and not hits:
            bad = [t for t, st in runoracle.report_tests(rep) if st != "passed"]
            if bad:
                hits = [("test-failed-although-nothing-fails", "tests %s do not pass although no user code fails" % bad)]
        for sig, text in hits:
            run.violation(sig, text, {"case": c, "outcome": r.get("outcome")})
    propcommon.search_failing_schedule(run, cases, runoracle.c03_oracle, results)
    run.coverage["rule"] = ("seeded random projects biased towards fixtures (4 scopes, generator/plain, parameters, injected, "
                            "setup_suite arguments) and hooks with failures in setups, bodies and teardowns; non-trivial = at "
                            "least two fixture evaluations in the run")
    run.coverage["traces_validated_against_impl"] = len([c for c in cases if results.get(c["id"], {}).get("graph")])


def replay(path):
    r = json.load(open(path))
    case = (r.get("replay") or {}).get("case") or ((r.get("broken") or [{}])[0].get("case"))
    if not case or "project" not in case:
        print("nothing to replay")
        return 2
    case.setdefault("id", "replay")
    case.setdefault("sched", [])
    res = sim.run_cases([case])[case["id"]]
    hits = runoracle.c03_oracle(case, res)
    print(json.dumps({"outcome": res.get("outcome"), "oracle": hits}, indent=1))
    return 1 if hits else 0
