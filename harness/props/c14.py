"""C14 — a project that passes validation cannot fail for structural reasons.
Model: coq/theories/Model/{Fixture,Deps,Policy,Validate}.v ; theorems: Props/C14.v.
Correspondence: PreparedProject.create (real Suite/Test/Fixture/MetadataPolicy objects built from generated abstract
projects) against Validate.validate: accept/reject, which check rejected, the schedules of every scope, the resolved
dependencies; every accepted project is really run with trivial bodies."""
import copy
import json
import os
import re
import shutil
import signal
import sys
import tempfile
import threading

import lib
import gen_projects_c14 as G
from gen_projects_c14 import LEVEL, REASONS, flatten_suites, flatten_tests, test_fixtures, suite_fixtures


# ----------------------------------------------------------------------------- implementation driver
class _Timeout(BaseException):
    pass


def _alarm(signum, frame):
    raise _Timeout()


def parse_path(s):
    return [int(c[1:]) for c in s.split(".")] if s else []


def fx_id(s):
    import gen_projects_c14
    return gen_projects_c14.FX_IDS[s] if s in gen_projects_c14.FX_IDS else int(s[1:])


def sched_names(sf):
    return [fx_id(n) for n in sf.get_fixture_names()]


def run_impl(proj, runs=(), ops_seed=None):
    """PreparedProject.create on real objects. Returns the observation dict:
       code (0 accepted / 1+reason / 200+ other exception), schedules, resolved, runs [(force_disabled, threads, outcome)]"""
    from lemoncheesecake.project import PreparedProject
    from lemoncheesecake.testtree import flatten_suites as lcc_flatten_suites, flatten_tests as lcc_flatten_tests
    tmp = tempfile.mkdtemp(prefix="lccverif_c14_")
    obs = {}
    try:
        project = G.build_project(proj, tmp)
        suites = G.build_suites(proj["suites"])
        try:
            prepared = PreparedProject.create(project, suites)
        except Exception as e:
            obs.update({"code": G.classify(e), "exc": type(e).__name__, "msg": str(e)[:300]})
            return obs
        obs["code"] = 0
        reg = prepared.fixture_registry
        sch = []
        try:
            for incl in (False, True):
                sch.append(sched_names(reg.get_fixtures_scheduled_for_pre_run(suites, incl)))
            for incl in (False, True):
                sch.append(sched_names(reg.get_fixtures_scheduled_for_session(suites, None, incl)))
            for s in lcc_flatten_suites(suites):
                for incl in (False, True):
                    sch.append(sched_names(reg.get_fixtures_scheduled_for_suite(s, None, incl)))
            for t in lcc_flatten_tests(suites):
                sch.append(sched_names(reg.get_fixtures_scheduled_for_test(t, None)))
            obs["schedules"] = sch
        except Exception as e:
            obs["schedules"] = None
            obs["schedule_exc"] = "%s: %s" % (type(e).__name__, e)
        obs["resolved"] = [[parse_path(d.path) for d in t.resolved_dependencies] for t in lcc_flatten_tests(suites)]
        if ops_seed is not None:
            try:
                obs["ops"] = chain_ops(reg, suites, ops_seed)
            except Exception as e:
                obs["ops"] = None
                obs["ops_exc"] = "%s: %s" % (type(e).__name__, e)
        obs["runs"] = []
        for fd, nthreads in runs:
            obs["runs"].append([fd, nthreads, run_once(proj, tmp, fd, nthreads)])
        return obs
    finally:
        shutil.rmtree(tmp, ignore_errors=True)


OUTCOMES = {"KeyError": 1, "LookupError": 2, "AssertionError": 3}


def chain_ops(reg, suites, seed):
    """Differential of the dynamic part of ScheduledFixtures: the real chain test -> suite -> session -> pre_run of one test
    (include_disabled=False) and a seeded sequence of _setup_fixture / _teardown_fixture / get_fixture_result calls, in and
    out of the legal order. -> [suite index, test index, [[op, level, name, outcome]]] or None when there is no test."""
    import random
    from lemoncheesecake.testtree import flatten_suites as lcc_flatten_suites, flatten_tests as lcc_flatten_tests
    rng = random.Random(seed)
    fsuites = list(lcc_flatten_suites(suites))
    ftests = list(lcc_flatten_tests(suites))
    if not ftests:
        return None
    tj = rng.randrange(len(ftests))
    test = ftests[tj]
    si = [i for i, s in enumerate(fsuites) if s is test.parent_suite][0]
    pre = reg.get_fixtures_scheduled_for_pre_run(suites, False)
    ses = reg.get_fixtures_scheduled_for_session(suites, pre, False)
    sui = reg.get_fixtures_scheduled_for_suite(fsuites[si], ses, False)
    tst = reg.get_fixtures_scheduled_for_test(test, sui)
    levels = [tst, sui, ses, pre]
    known = [n for lv in levels for n in lv.get_fixture_names()]
    pool = known + ["f777"] + [f for f in test.get_fixtures()]
    # a legal prefix (setups in order from the outermost level) followed / interleaved with arbitrary operations
    legal = [(0, 3 - k, n) for k, lv in enumerate(reversed(levels)) for n in lv.get_fixture_names()]
    ops = []
    cut = rng.randint(0, len(legal))
    for o in legal[:cut]:
        if rng.random() < 0.9:
            ops.append(o)
    for _ in range(rng.randint(3, 10)):
        ops.append((rng.choice([0, 1, 2, 2]), rng.randrange(4), rng.choice(pool)))
    for o in legal[cut:]:
        if rng.random() < 0.7:
            ops.append(o)
        if rng.random() < 0.4:
            ops.append((rng.choice([1, 2, 2]), rng.randrange(4), rng.choice(pool)))
    out = []
    for op, lv, name in ops:
        sf = levels[lv]
        try:
            if op == 0:
                sf._setup_fixture(name)
            elif op == 1:
                sf._teardown_fixture(name)
            else:
                sf.get_fixture_result(name)
            res = 0
        except Exception as e:
            res = OUTCOMES.get(type(e).__name__, 9)
        out.append([op, lv, fx_id(name), res])
    return [si, tj, out]


def run_once(proj, tmp, force_disabled, nthreads):
    """A real run with trivial bodies. -> "ok" or a description of what went wrong."""
    from lemoncheesecake.project import PreparedProject
    project = G.build_project(proj, tmp)
    suites = G.build_suites(proj["suites"])
    rd = tempfile.mkdtemp(prefix="report_", dir=tmp)
    use_alarm = threading.current_thread() is threading.main_thread()
    if use_alarm:
        old = signal.signal(signal.SIGALRM, _alarm)
        signal.alarm(60)
    try:
        prepared = PreparedProject.create(project, suites)
        report = prepared.run([], rd, None, force_disabled=force_disabled, nb_threads=nthreads)
    except _Timeout:
        return "timeout"
    except BaseException as e:
        return "exception %s: %s" % (type(e).__name__, str(e)[-1500:])
    finally:
        if use_alarm:
            signal.alarm(0)
            signal.signal(signal.SIGALRM, old)
    want = {}
    for tp, dis, t, _, _ in flatten_tests(proj["suites"]):
        want[G.path_str(tp)] = "disabled" if (dis and not force_disabled) else "passed"
    got = {t.path: t.status for t in report.all_tests()}
    if got != want:
        bad = sorted(k for k in set(got) | set(want) if got.get(k) != want.get(k))[:3]
        return "statuses differ: " + ", ".join("%s: got %s want %s" % (k, got.get(k), want.get(k)) for k in bad)
    for r in report.all_results():
        if r.status not in ("passed", "disabled", None) and r.status is not None:
            return "result %s has status %s" % (r, r.status)
    if not report.is_successful():
        return "report is not successful"
    return "ok"


# ----------------------------------------------------------------------------- oracle: the documented rules, written independently
def ref_invalid(proj):
    """The set of rule kinds (names of REASONS) the project breaks, from doc/fixtures.rst (scopes, per-thread, builtin
    fixtures), doc/tests-and-suites.rst (depends_on, metadata policy) and doc/cli.rst (lcc check)."""
    kinds = set()
    # --- metadata policy: applies to the suites that are going to be run
    pol = proj["policy"]
    prules = {r["name"]: r for r in pol["props"]}
    trules = {r["name"]: r for r in pol["tags"]}
    nodes = []
    for p, _, s in flatten_suites(proj["suites"]):
        nodes.append(("on_suite", s))
        for t in s["tests"]:
            nodes.append(("on_test", t))
    for key, o in nodes:
        props = dict((k, v) for k, v in o["props"])
        for k, v in props.items():
            r = prules.get(k)
            if r is None:
                if pol["no_unknown_props"]:
                    kinds.add("RPolUnknownProp")
            elif not r[key]:
                kinds.add("RPolForbiddenProp")
                if pol["no_unknown_props"]:
                    kinds.add("RPolUnknownProp")     # the rule exists, but not for this kind of node
            elif r["values"] and v not in r["values"]:
                kinds.add("RPolBadValue")
        for r in pol["props"]:
            if r[key] and r["required"] and r["name"] not in props:
                kinds.add("RPolMissingProp")
        for t in o["tags"]:
            r = trules.get(t)
            if r is None:
                if pol["no_unknown_tags"]:
                    kinds.add("RPolUnknownTag")
            elif not r[key]:
                kinds.add("RPolForbiddenTag")
                if pol["no_unknown_tags"]:
                    kinds.add("RPolUnknownTag")
    # --- test dependencies
    all_tests = {tp: t for tp, _, t, _, _ in flatten_tests(proj["all_suites"])}
    sched = {tp: t for tp, _, t, _, _ in flatten_tests(proj["suites"])}
    edges = {}
    for tp, t in sched.items():
        out = []
        for d in t["deps"]:
            d = tuple(d)
            if d not in all_tests:
                kinds.add("RDepUnknown")
            elif d not in sched:
                kinds.add("RDepNotScheduled")
            else:
                out.append(d)
        edges[tp] = out
    if has_cycle(edges):
        kinds.add("RDepCircular")
    # --- fixtures
    reg = {1: {"name": 1, "scope": "pre_run", "params": [], "per_thread": False},
           2: {"name": 2, "scope": "pre_run", "params": [], "per_thread": False}}
    for f in proj["fixtures"]:
        if f["name"] in (1, 2):
            kinds.add("RFxBuiltinClash")
        reg[f["name"]] = f
    if 0 in reg:
        kinds.add("RFxForbiddenName")
    fedges = {}
    for n, f in reg.items():
        out = []
        for p in f["params"]:
            if p == 0:
                continue
            if p not in reg:
                kinds.add("RFxUnknownParam")
                continue
            out.append(p)
            if reg[p]["per_thread"] and f["scope"] != "test":
                kinds.add("RFxPerThreadParam")
            if LEVEL[reg[p]["scope"]] < LEVEL[f["scope"]]:
                kinds.add("RFxScopeParam")
        fedges[n] = out
    if has_cycle(fedges):
        kinds.add("RFxCircular")
    for p, _, s in flatten_suites(proj["suites"]):
        for n in suite_fixtures(s):
            if n not in reg:
                kinds.add("RSuiteUnknownFx")
            elif reg[n]["per_thread"]:
                kinds.add("RSuitePerThreadFx")
            elif LEVEL[reg[n]["scope"]] < LEVEL["suite"]:
                kinds.add("RSuiteScopeFx")
        for t in s["tests"]:
            for n in test_fixtures(t):
                if n not in reg:
                    kinds.add("RTestUnknownFx")
    return kinds


def has_cycle(edges):
    """Kahn: a cycle exists iff the nodes cannot all be removed in topological order."""
    indeg = {n: 0 for n in edges}
    for n, out in edges.items():
        for m in out:
            indeg[m] = indeg.get(m, 0) + 1
    todo = [n for n, d in indeg.items() if d == 0]
    seen = 0
    while todo:
        n = todo.pop()
        seen += 1
        for m in edges.get(n, []):
            indeg[m] -= 1
            if indeg[m] == 0:
                todo.append(m)
    return seen != len(indeg)


def oracle(proj, obs):
    """-> (signature, text) or None"""
    kinds = ref_invalid(proj)
    code = obs["code"]
    if code >= 200:
        return ("wrong-exception:%s" % obs.get("exc"), "PreparedProject.create raised %s instead of ValidationError: %s" % (obs.get("exc"), obs.get("msg")))
    if code == 0 and kinds:
        return ("accepted-invalid:" + ",".join(sorted(kinds)), "an invalid project was accepted (breaks: %s)" % ", ".join(sorted(kinds)))
    if code != 0 and not kinds:
        return ("rejected-valid:" + REASONS[code - 1], "a valid project was rejected: %s" % obs.get("msg"))
    if code != 0 and REASONS[code - 1] not in kinds:
        return ("wrong-reason:" + REASONS[code - 1], "rejected for %s (%s) but the project only breaks %s" % (REASONS[code - 1], obs.get("msg"), sorted(kinds)))
    if code == 0:
        if obs.get("schedules") is None:
            return ("schedule-exception", "computing a schedule of an accepted project raised %s" % obs.get("schedule_exc"))
        hit = schedules_oracle(proj, obs["schedules"])
        if hit:
            return hit
        for fd, n, outcome in obs.get("runs", []):
            if outcome != "ok":
                return ("accepted-run-fails:" + outcome_kind(outcome), "accepted project, force_disabled=%s threads=%d: %s" % (fd, n, outcome))
    return None


def outcome_kind(outcome):
    """A specific signature for what went wrong in the run of an accepted project."""
    if outcome.startswith("exception"):
        m = re.match(r"exception (\w+)", outcome)
        last = [l for l in outcome.split("\n") if re.match(r"^\w*(Error|Exception)\b", l)]
        detail = re.sub(r"'[^']*'|\[.*?\]|\d+", "_", last[-1])[:60].strip().replace(" ", "-") if last else ""
        return "exception:%s:%s" % (m.group(1) if m else "?", detail)
    return outcome.split(":")[0].replace(" ", "-")


def schedules_oracle(proj, sch):
    """Structural soundness of the observed schedules of an accepted project, without the model: every fixture parameter
    is scheduled earlier in the same scope or in a higher scope's schedule of the chain; every use finds its fixture."""
    reg = {1: {"name": 1, "scope": "pre_run", "params": []}, 2: {"name": 2, "scope": "pre_run", "params": []}}
    for f in proj["fixtures"]:
        reg[f["name"]] = f
    it = iter(sch)
    pre = [next(it), next(it)]
    ses = [next(it), next(it)]
    suites = list(flatten_suites(proj["suites"]))
    per_suite = {}
    for p, inh, s in suites:
        per_suite[p] = [next(it), next(it)]
    tests = list(flatten_tests(proj["suites"]))
    per_test = {tp: next(it) for tp, _, _, _, _ in tests}

    def check_level(own, parents, what):
        for i, n in enumerate(own):
            for q in reg[n]["params"]:
                if q == 0:
                    continue
                if q in own:
                    if own.index(q) >= i:
                        return ("schedule-order", "%s: fixture %d is set up before its parameter %d" % (what, n, q))
                elif not any(q in lv for lv in parents):
                    return ("schedule-missing", "%s: parameter %d of fixture %d is not scheduled in any enclosing scope" % (what, q, n))
        return None
    for incl in (0, 1):
        hit = check_level(pre[incl], [], "pre_run") or check_level(ses[incl], [pre[incl]], "session")
        if hit:
            return hit
        for p, inh, s in suites:
            dis = inh or s["disabled"]
            enabled = any(not (dis or t["disabled"]) for t in s["tests"])
            if not (enabled or (incl and s["tests"])):      # no suite initialisation task (fix F19: nor under --force-disabled
                continue                                     # when the suite has no direct test)
            chain = [per_suite[p][incl], ses[incl], pre[incl]]
            hit = check_level(chain[0], chain[1:], "suite %s" % (p,))
            if hit:
                return hit
            for n in suite_fixtures(s):
                if not any(n in lv for lv in chain):
                    return ("suite-lookup", "suite %s: fixture %d is not scheduled" % (p, n))
            for t in s["tests"]:
                if (dis or t["disabled"]) and not incl:
                    continue
                tp = p + (t["name"],)
                hit = check_level(per_test[tp], chain, "test %s" % (tp,))
                if hit:
                    return hit
                for n in test_fixtures(t):
                    if n not in per_test[tp] and not any(n in lv for lv in chain):
                        return ("test-lookup", "test %s: fixture %d is not scheduled" % (tp, n))
    return None


# ----------------------------------------------------------------------------- shrinking (generic over the JSON structure)
def _lists(o, path=()):
    if isinstance(o, list):
        yield path
        for i, x in enumerate(o):
            yield from _lists(x, path + (i,))
    elif isinstance(o, dict):
        for k, v in o.items():
            yield from _lists(v, path + (k,))


def _get(o, path):
    for k in path:
        o = o[k]
    return o


def shrink(proj, pred, budget=250):
    def ok(c):
        try:
            return bool(pred(c))
        except Exception:
            return False
    changed = True
    while changed and budget > 0:
        changed = False
        for path in list(_lists(proj)):
            try:
                lst = _get(proj, path)
            except (KeyError, IndexError, TypeError):
                continue
            if not isinstance(lst, list):
                continue
            i = 0
            while i < len(lst) and budget > 0:
                cand = copy.deepcopy(proj)
                del _get(cand, path)[i]
                budget -= 1
                if ok(cand):
                    proj, changed = cand, True
                    lst = _get(proj, path)
                else:
                    i += 1
    return proj


# ----------------------------------------------------------------------------- Gallina case files
HEADER = """From Coq Require Import List Arith Bool.
Import ListNotations.
From LCC Require Import Base.Util Model.Proj Model.Fixture Model.Deps Model.Policy Model.Validate.
Definition reason_code (r : reason) : nat :=
  match r with
  | RPolUnknownProp => 1 | RPolForbiddenProp => 2 | RPolMissingProp => 3 | RPolBadValue => 4 | RPolUnknownTag => 5
  | RPolForbiddenTag => 6 | RDepUnknown => 7 | RDepCircular => 8 | RDepNotScheduled => 9 | RFxBuiltinClash => 10
  | RFxForbiddenName => 11 | RFxCircular => 12 | RFxUnknownParam => 13 | RFxPerThreadParam => 14 | RFxScopeParam => 15
  | RSuiteUnknownFx => 16 | RSuitePerThreadFx => 17 | RSuiteScopeFx => 18 | RTestUnknownFx => 19
  end.
Definition err_code (e : err) : nat :=
  match e with ValidationError r => reason_code r | KeyError => 101 | LookupError => 102 | AssertionError => 103 | OutOfFuel => 104 end.
Fixpoint suites_inh (inh : bool) (s : suite) : list (bool * suite) :=
  match s with Suite _ d _ _ _ subs => (inh, s) :: flat_map (suites_inh (inh || d)) subs end.
Definition names_of (r : result (list fixture)) : option (list nat) :=
  match r with Ok l => Some (map fx_name l) | Err _ => None end.
Definition all_schedules (reg : registry) (suites : list suite) : list (option (list nat)) :=
  [names_of (get_fixtures_scheduled_for_pre_run reg suites false); names_of (get_fixtures_scheduled_for_pre_run reg suites true);
   names_of (get_fixtures_scheduled_for_session reg suites false); names_of (get_fixtures_scheduled_for_session reg suites true)]
  ++ flat_map (fun bs => [names_of (get_fixtures_scheduled_for_suite reg (fst bs) (snd bs) false);
                          names_of (get_fixtures_scheduled_for_suite reg (fst bs) (snd bs) true)])
              (flat_map (suites_inh false) suites)
  ++ map (fun x => names_of (get_fixtures_scheduled_for_test reg (snd x))) (all_tests_with_path suites).
Definition is_ok (r : result unit) : bool := match r with Ok _ => true | Err _ => false end.
(* the dynamic part: a state of four ScheduledFixtures objects [test; suite; session; pre_run]; the object of level k sees the
   levels after it as its chain of parents *)
Definition out_code {A} (r : result A) : nat :=
  match r with Ok _ => 0 | Err KeyError => 1 | Err LookupError => 2 | Err AssertionError => 3 | Err _ => 9 end.
Definition exec_op (st : chain name) (o : nat * nat * nat * nat) : chain name * nat :=
  match o with
  | (op, lv, n, _) =>
      let c := skipn lv st in
      match op with
      | 0 => match setup_fixture_begin c n with
             | Ok _ => (firstn lv st ++ setup_fixture_end c n n, 0)
             | Err e => (st, out_code (@Err unit e))
             end
      | 1 => match teardown_fixture c n with
             | Ok (_, c') => (firstn lv st ++ c', 0)
             | Err e => (st, out_code (@Err unit e))
             end
      | _ => (st, out_code (get_fixture_result c n))
      end
  end.
Fixpoint exec_ops (st : chain name) (ops : list (nat * nat * nat * nat)) : bool :=
  match ops with
  | [] => true
  | o :: r => let '(st', code) := exec_op st o in Nat.eqb code (snd o) && exec_ops st' r
  end.
Definition ops_agree (reg : registry) (suites : list suite) (info : option (nat * nat * list (nat * nat * nat * nat))) : bool :=
  match info with
  | None => true
  | Some (si, tj, ops) =>
      match nth_error (flat_map (suites_inh false) suites) si, nth_error (all_tests_with_path suites) tj,
            get_fixtures_scheduled_for_pre_run reg suites false, get_fixtures_scheduled_for_session reg suites false with
      | Some (inh, s), Some (_, _, t), Ok pre, Ok ses =>
          match get_fixtures_scheduled_for_suite reg inh s false, get_fixtures_scheduled_for_test reg t with
          | Ok sui, Ok tst => exec_ops [new_level tst; new_level sui; new_level ses; new_level pre] ops
          | _, _ => false
          end
      | _, _, _, _ => false
      end
  end.
Definition lnat_eqb := list_eqb Nat.eqb.
(* a case: the project, the verdict of PreparedProject.create, the schedules it computes, the resolved dependencies *)
Definition agrees (c : xproject * nat * list (option (list nat)) * list (list (list nat)) *
                        option (nat * nat * list (nat * nat * nat * nat))) : bool :=
  match c with
  | (x, code, sch, res, info) =>
      match validate x with
      | Err e => Nat.eqb (err_code e) code
      | Ok pp =>
          Nat.eqb code 0
          && list_eqb (option_eqb lnat_eqb) (all_schedules (pp_registry pp) (p_suites (xp_proj x))) sch
          && list_eqb (list_eqb lnat_eqb) (map snd (pp_resolved pp)) res
          && is_ok (dry_run (pp_registry pp) (p_suites (xp_proj x)) false)
          && is_ok (dry_run (pp_registry pp) (p_suites (xp_proj x)) true)
          && ops_agree (pp_registry pp) (p_suites (xp_proj x)) info
      end
  end.
"""


def g_case(proj, obs):
    sch = obs.get("schedules") or []
    res = obs.get("resolved") or []
    ops = obs.get("ops")
    g_ops = "None" if not ops else "(Some (%d, %d, %s))" % (
        ops[0], ops[1], G.g_list(ops[2], lambda o: "(%d, %d, %d, %d)" % tuple(o)))
    return "(%s,\n   %d, %s, %s, %s)" % (
        G.g_xproject(proj), obs["code"],
        G.g_list(sch, lambda l: "Some " + G.g_list(l)),
        G.g_list(res, lambda ds: G.g_list(ds, G.g_path)), g_ops)


def cases_file(cases):
    body = ";\n  ".join(g_case(p, o) for p, o in cases)
    return HEADER + ("Definition cases : list (xproject * nat * list (option (list nat)) * list (list (list nat)) * option (nat * nat * list (nat * nat * nat * nat))) := [\n  %s\n].\n" % body) + \
        "Eval vm_compute in (find_indexes (fun c => negb (agrees c)) cases).\n"


def model_disagrees(run, proj, ops_seed=None):
    obs = run_impl(proj, ops_seed=ops_seed)
    rc, out = run.coq_eval("shrink", cases_file([(proj, obs)]))
    bad = lib.parse_nat_list(out) if rc == 0 else None
    return bool(bad)


# ----------------------------------------------------------------------------- the check
def check(run):
    run.trusted += [
        "modelled, not verified: Python object construction (Suite/Test/Fixture/MetadataPolicy built programmatically, get_callable_args), "
        "dict / OrderedSet iteration order (assoc lists / duplicate-free lists), the ValidationError message -> reason classification",
        "C14_green (every test of an accepted project with non-failing bodies is passed or disabled) is not a Coq theorem yet "
        "(needs the runner model): it is checked by really running every accepted generated project",
    ]
    run.assume += [
        "load_fixtures() returns Fixture objects, never BuiltinFixture (user_fixtures: fx_builtin = false)",
        "test dependencies are given as paths (callable dependencies are not modelled)",
        "the scheduled suites are the loaded suites after a test filter: a scheduled test has the dependencies of the "
        "test loaded under the same path (sched_consistent)",
    ]
    run.prove(extra_targets=["theories/Base/Util.vo", "theories/Model/Validate.vo"])
    n = 500 if run.tier == "quick" else 20000
    nruns = 150 if run.tier == "quick" else 3000
    cases = []
    done_runs = 0
    for i in range(n):
        proj, label = G.gen_case(run.rng)
        want_run = done_runs < nruns
        plans = [(False, 1), (run.rng.random() < 0.5, run.rng.choice([2, 3, 4, 8]))] if want_run else []
        ops_seed = run.rng.randrange(1 << 30)
        obs = run_impl(proj, plans, ops_seed=ops_seed)
        if obs.get("ops"):
            run.count("chain_ops", len(obs["ops"][2]))
            for o in obs["ops"][2]:
                run.count("chain_op_outcome:%d" % o[3])
        if "ops_exc" in obs:
            run.tie_broken("chain operations could not be executed on the implementation", case=proj, detail=obs["ops_exc"])
        obs["ops_seed"] = ops_seed
        run.evaluations += 1
        run.count("label:" + label.split("+")[0])
        for dsc in G.LAST_DETAILS:
            if "cycle" in dsc:
                run.count(dsc)
        run.count("verdict:" + ("accepted" if obs["code"] == 0 else REASONS[obs["code"] - 1] if obs["code"] < 200 else "other-exception"))
        run.count("fixtures", len(proj["fixtures"]))
        run.count("tests", sum(1 for _ in flatten_tests(proj["suites"])))
        if proj["suites"] != proj["all_suites"]:
            run.count("filtered")
        if obs["code"] == 0 and obs.get("runs"):
            done_runs += 1
            run.count("runs", len(obs["runs"]))
            for fd, nt, _ in obs["runs"]:
                run.count("run_threads:%d" % nt)
        # non-trivial: a rejection (which check), or an accepted project whose schedules are not all empty
        if obs["code"] != 0 or any(obs.get("schedules") or []):
            run.nontrivial.add(json.dumps(proj, sort_keys=True))
        hit = oracle(proj, obs)
        if hit:
            sig = hit[0]
            if any(h["signature"] == "oracle:" + sig for h in run.oracle_hits):
                cases.append((proj, obs))
                continue
            runs_for_shrink = plans if sig.startswith("accepted-run-fails") else []
            small = shrink(proj, lambda c: (oracle(c, run_impl(c, runs_for_shrink)) or [None])[0] == sig)
            sobs = run_impl(small, runs_for_shrink)
            run.violation("oracle:" + sig, (oracle(small, sobs) or hit)[1], {"project": small, "observed": sobs, "runs": runs_for_shrink})
        cases.append((proj, obs))
        if i < 2:
            run.sample({"label": label, "project": proj, "observed": {k: v for k, v in obs.items() if k != "msg"}})
    replay_known(run)
    if getattr(run, "model_ok", False):
        size = 250
        shards = [cases[i:i + size] for i in range(0, len(cases), size)]
        outs = run.coq_eval_many([("s%d" % k, cases_file(sh)) for k, sh in enumerate(shards)])
        reported = 0
        for k, (rc, out) in enumerate(outs):
            bad = lib.parse_nat_list(out) if rc == 0 else None
            if bad is None:
                run.tie_broken("case file did not evaluate", detail=out[-1500:])
                continue
            for idx in bad[:1]:
                if reported:
                    break
                reported += 1
                proj, obs = shards[k][idx]
                small = proj
                if not run.oracle_hits:
                    try:
                        small = shrink(proj, lambda c: model_disagrees(run, c, obs.get("ops_seed")), budget=40)
                    except Exception:
                        small = proj
                run.tie_broken("validate / schedules / resolved dependencies / ScheduledFixtures operations = implementation",
                               case=small, impl=run_impl(small, ops_seed=obs.get("ops_seed")))
    run.count("dependencies_declared_by_a_predicate", G.PREDICATE_DEPS[0])
    run.coverage["rule"] = (
        "seeded abstract projects: 30% valid by construction (fixture DAGs over 4 scopes, per-thread, fixture_name, duplicates, "
        "parametrized tests, setup_suite/injected uses, dependency DAGs, nested and disabled suites, optional test filter, policies "
        "with compliant metadata), 15% unconstrained (random parameters / arguments / dependencies over all names), 55% valid "
        "projects with one or two of 19 malformations (fixture and dependency cycles of every length, unknown names, scope "
        "inversion, per-thread misuse, forbidden and builtin names, filtered-out dependencies, the 6 policy violations); each is "
        "built as real Suite/Test/Fixture/MetadataPolicy objects and given to PreparedProject.create, and to Validate.validate "
        "inside Coq (verdict, rejecting check, schedules per scope with order, resolved dependencies, dry run of all fixture "
        "lookups; plus, on the real chain test->suite->session->pre_run of one test, a seeded sequence of _setup_fixture / "
        "_teardown_fixture / get_fixture_result calls in and out of the legal order, outcome class compared call by call); accepted projects are really run (1 thread and 2-8 threads, with and without force_disabled). "
        "non-trivial = rejected, or accepted with at least one non-empty schedule")


def replay_known(run):
    """Replay the witnesses of the known findings of C14 and of the fixed ones (a fixed defect that reappears is not in the
    list of known signatures any more, hence reported as a violation)."""
    kf = lib.load_findings()
    for f in kf.get("findings", []) + kf.get("fixed", []):
        if f.get("property") != "C14":
            continue
        w = f.get("witness") or {}
        if "project" in w:
            obs = run_impl(w["project"], [tuple(r) for r in w.get("runs", [])])
            hit = oracle(w["project"], obs)
            if hit:
                run.violation("oracle:" + hit[0], hit[1], {"project": w["project"], "observed": obs, "runs": w.get("runs", [])})


def replay(path):
    r = json.load(open(path))
    rp = r.get("replay") or {}
    proj = rp.get("project") or ((r.get("broken") or [{}])[0].get("case"))
    if not proj:
        print("nothing to replay in", path)
        return 2
    obs = run_impl(proj, [tuple(x) for x in rp.get("runs", [])])
    hit = oracle(proj, obs)
    print(json.dumps({"project": proj, "observed": obs, "oracle": hit}, indent=1))
    return 1 if hit else 0
