"""C18 — Replaying a report reproduces it.
Models: coq/theories/Model/{Events,Writer,Replay,StreamOk}.v ; theorems: Props/C18.v.

Correspondence (every run):
  * generated reports (harness/gen_reports_views.py, finished and unfinished, plus locally perturbed ones that leave the theorem's
    domain) are replayed by the real replay_report_events through a real SyncEventManager into a real ReportWriter(Report());
    a recording listener captures the stream;
  * inside Coq: Replay.replay_report_events on the same report must give the recorded stream and the same exception;
    Writer.aggregate on the RECORDED stream must give the rebuilt report; StreamOk.sequential_ok must accept the recorded stream;
    Replay.replayable must say what the Python re-implementation of the hypothesis says;
  * perturbed streams (dropped / duplicated / swapped / re-threaded events) are fed to the real ReportWriter and to
    Writer.aggregate: same exception class or same report.
Oracle (independent of the model): normal form of the rebuilt report == normal form of the original (minus what no event
carries), no exception, and a plain-Python bracket check of the recorded stream.
"""
import copy
import json
import os
import sys
import types

import lib
from lib import c_str, c_Z, c_opt, c_list, c_bool

sys.path.insert(0, os.path.dirname(os.path.dirname(os.path.abspath(__file__))))
import gen_reports_views as G  # noqa: E402

NOW_MS = 4102444800123          # what time.time() returns during a replay (2100-01-01): a defaulted time is recognisable
TH = 1                          # canonical id of the replaying thread
DEFAULT_TITLE = "Test Report"


# ----------------------------------------------------------------------------- implementation driver
def _ms(t):
    return None if t is None else int(round(t * 1000))


RANK_BASE = 2 ** 20          # Events.rank_base


SUITE_POSITIONS = [False]     # live streams: encode (suite.rank, position) for suites too (set by harness/corun.py)


def _sort_key(n):
    """Events.n_rank: for a test the integer order-isomorphic to the pair ReportWriter sorts by,
    (test.rank, position of the test in test.parent_suite.get_tests()).  For a suite the writer (since the repair F24) sorts by
    (suite.rank, position among the parent's suites, or the position the runner gave to a top-level suite): encoded the same way
    for LIVE streams (SUITE_POSITIONS); for the replay correspondence the suite's rank alone is kept -- Replay.v emits 0 for the
    suites of a loaded report, and on the sequential stream of a replay the arrival order of sibling suites IS their position
    order, so the stable sort of the model and the (rank, position) sort of the code give the same list."""
    from lemoncheesecake.testtree import BaseTest
    rank = getattr(n, "rank", 0)
    if not isinstance(n, BaseTest):
        if not SUITE_POSITIONS[0]:
            return rank
        if n.parent_suite:
            pos = next((i for i, s in enumerate(n.parent_suite.get_suites()) if s is n), 0)
        else:
            pos = getattr(n, "position", 0)
        assert isinstance(rank, int) and 0 <= pos < RANK_BASE, (rank, pos)
        return rank * RANK_BASE + pos
    siblings = n.parent_suite.get_tests() if n.parent_suite else [n]
    pos = next((i for i, s in enumerate(siblings) if s is n), 0)
    assert isinstance(rank, int) and 0 <= pos < RANK_BASE, (rank, pos)
    return rank * RANK_BASE + pos


def _node(n):
    hier = list(n.hierarchy)
    return {"parent": [x.name for x in hier[:-1]],
            "meta": {"name": n.name, "description": n.description, "tags": list(n.tags),
                     "properties": [[k, v] for k, v in n.properties.items()],
                     "links": [[u, d] for u, d in n.links]},
            "rank": _sort_key(n)}


_LOC = {0: "session_setup", 1: "session_teardown", 2: "suite_setup", 3: "suite_teardown", 4: "test"}


def _loc(l):
    return [_LOC[l.node_type]] + ([list(l.node_hierarchy)] if l.node_hierarchy is not None else [])


def plain_event(e, thmap):
    """Real event object -> plain JSON-able value (see c_event for the shapes)."""
    k = e.__class__.get_name()
    t = _ms(e.time)
    th = lambda: thmap.setdefault(e.thread_id, len(thmap) + 1)
    if k in ("test_session_start", "test_session_end", "test_session_setup_start", "test_session_setup_end",
             "test_session_teardown_start", "test_session_teardown_end"):
        return [k, t]
    if k in ("suite_start", "suite_end", "suite_setup_start", "suite_setup_end", "suite_teardown_start", "suite_teardown_end"):
        return [k, _node(e.suite), t]
    if k in ("test_start", "test_end"):
        return [k, _node(e.test), t]
    if k == "test_skipped":
        return [k, _node(e.test), e.skipped_reason, t]
    if k == "test_disabled":
        return [k, _node(e.test), e.disabled_reason, t]
    if k == "step_start":
        return [k, _loc(e.location), e.step_description, th(), t]
    if k == "step_end":
        return [k, _loc(e.location), e.step, th(), t]
    if k == "log":
        return [k, _loc(e.location), e.step, th(), e.log_level, e.log_message, t]
    if k == "check":
        return [k, _loc(e.location), e.step, th(), e.check_description, bool(e.check_is_successful), e.check_details, t]
    if k == "log_attachment":
        return [k, _loc(e.location), e.step, th(), e.attachment_path, e.attachment_description, bool(e.as_image), t]
    if k == "log_url":
        return [k, _loc(e.location), e.step, th(), e.url, e.url_description, t]
    raise ValueError("unknown event %s" % k)


def real_event(p):
    """Plain event -> real event object (for the perturbed streams)."""
    from lemoncheesecake import events as ev
    from lemoncheesecake.testtree import BaseSuite, BaseTest
    from lemoncheesecake.reporting import ReportLocation

    def node(n, cls):
        parent = None
        for name in n["parent"]:
            s = BaseSuite(name, name)
            s.parent_suite = parent
            parent = s
        m = n["meta"]
        x = cls(m["name"], m["description"])
        x.tags.extend(m["tags"])
        x.properties.update({k: v for k, v in m["properties"]})
        x.links.extend((u, d) for u, d in m["links"])
        if cls is BaseTest:
            # n["rank"] is the writer's sort key: rank * RANK_BASE + position among the parent's tests
            x.rank, pos = divmod(n["rank"], RANK_BASE)
            if parent is not None:
                for i in range(pos):
                    parent.add_test(BaseTest("__sibling_%d" % i, ""))
                parent.add_test(x)
            else:
                assert pos == 0
        else:
            x.rank = n["rank"]
        x.parent_suite = parent
        return x

    def loc(l):
        kinds = {v: k for k, v in _LOC.items()}
        return ReportLocation(kinds[l[0]], tuple(l[1]) if len(l) > 1 else None)
    k = p[0]
    t = p[-1] / 1000.0
    if k in ("test_session_start", "test_session_end"):
        return getattr(ev, {"test_session_start": "TestSessionStartEvent", "test_session_end": "TestSessionEndEvent"}[k])(None, t)
    simple = {"test_session_setup_start": "TestSessionSetupStartEvent", "test_session_setup_end": "TestSessionSetupEndEvent",
              "test_session_teardown_start": "TestSessionTeardownStartEvent", "test_session_teardown_end": "TestSessionTeardownEndEvent"}
    if k in simple:
        return getattr(ev, simple[k])(t)
    suite = {"suite_start": "SuiteStartEvent", "suite_end": "SuiteEndEvent", "suite_setup_start": "SuiteSetupStartEvent",
             "suite_setup_end": "SuiteSetupEndEvent", "suite_teardown_start": "SuiteTeardownStartEvent",
             "suite_teardown_end": "SuiteTeardownEndEvent"}
    if k in suite:
        return getattr(ev, suite[k])(node(p[1], BaseSuite), t)
    if k == "test_start":
        return ev.TestStartEvent(node(p[1], BaseTest), t)
    if k == "test_end":
        return ev.TestEndEvent(node(p[1], BaseTest), t)
    if k == "test_skipped":
        return ev.TestSkippedEvent(node(p[1], BaseTest), p[2], t)
    if k == "test_disabled":
        return ev.TestDisabledEvent(node(p[1], BaseTest), p[2], t)
    if k == "step_start":
        return ev.StepStartEvent(loc(p[1]), p[2], p[3], t)
    if k == "step_end":
        return ev.StepEndEvent(loc(p[1]), p[2], p[3], t)
    if k == "log":
        return ev.LogEvent(loc(p[1]), p[2], p[3], p[4], p[5], t)
    if k == "check":
        return ev.CheckEvent(loc(p[1]), p[2], p[3], p[4], p[5], p[6], t)
    if k == "log_attachment":
        return ev.LogAttachmentEvent(loc(p[1]), p[2], p[3], p[4], p[5], p[6], t)
    if k == "log_url":
        return ev.LogUrlEvent(loc(p[1]), p[2], p[3], p[4], p[5], t)
    raise ValueError(k)


class _Recorder:
    def __init__(self):
        self.events = []
        self.thmap = {}

    def handle(self, e):
        self.events.append(plain_event(e, self.thmap))


def _err_name(e):
    for cls, name in ((AssertionError, "AssertionError"), (LookupError, "LookupError"), (AttributeError, "AttributeError"),
                      (ValueError, "ValueError")):
        if isinstance(e, cls):
            return name
    return "other:" + type(e).__name__


def _fresh_writer():
    from lemoncheesecake import events as ev
    from lemoncheesecake.reporting import Report, ReportWriter
    em = ev.SyncEventManager.load()
    rec = _Recorder()
    for name in list(em._event_types):
        em.subscribe_to_event(name, rec.handle)         # recorder first: the event that makes the writer raise is recorded
    new = Report()
    em.add_listener(ReportWriter(new))
    return em, rec, new


def run_replay(desc):
    """The real replay_report_events + SyncEventManager + ReportWriter(Report()) on the report described by desc."""
    from lemoncheesecake import events as ev
    from lemoncheesecake.reporting.replay import replay_report_events
    import threading
    report = G.build_report(desc)
    em, rec, new = _fresh_writer()
    rec.thmap[threading.current_thread().ident] = TH
    saved = ev.time
    ev.time = types.SimpleNamespace(time=lambda: NOW_MS / 1000.0)
    err = None
    try:
        replay_report_events(report, em)
    except Exception as e:          # noqa: BLE001
        err = _err_name(e)
    finally:
        ev.time = saved
    rebuilt = None
    if err is None:
        rebuilt = G.describe_report(new)
    return {"events": rec.events, "error": err, "rebuilt": rebuilt}


def run_writer(events):
    """A plain event stream through the real ReportWriter."""
    em, rec, new = _fresh_writer()
    err = None
    try:
        for p in events:
            em.fire(real_event(p))
    except Exception as e:          # noqa: BLE001
        err = _err_name(e)
    return {"error": err, "rebuilt": None if err else G.describe_report(new)}


# ----------------------------------------------------------------------------- hypothesis + oracle (plain Python)
def tree(desc):
    d = copy.deepcopy(desc)
    d.update({"title": DEFAULT_TITLE, "info": [], "saving": None, "nb_threads": 1})
    return d


def _truthy(t):
    return t is not None and t != 0


def _log_ok(l):
    return l[-1] != 0


def _log_successful(l):
    if l[0] == "check":
        return bool(l[2])
    if l[0] == "log":
        return l[1] != "error"
    return True


def py_replayable(desc):
    """Plain re-statement of Replay.replayable (the hypothesis of C18_identity)."""
    def end_ok(t):
        return t is None or t != 0

    def step_ok(s):
        return _truthy(s["start"]) and end_ok(s["end"]) and all(_log_ok(l) for l in s["logs"])

    def result_ok(r):
        if not (_truthy(r["start"]) and end_ok(r["end"]) and r["status_details"] is None and all(step_ok(s) for s in r["steps"])):
            return False
        if r["end"] is None:
            return r["status"] is None
        ok = all(_log_successful(l) for s in r["steps"] for l in s["logs"])
        return r["status"] == ("passed" if ok else "failed")

    def test_ok(t):
        r = t["result"]
        if r["status"] in ("skipped", "disabled"):
            return _truthy(r["start"]) and r["end"] == r["start"] and r["steps"] == []
        return result_ok(r)

    def suites_ok(suites):
        if len({s["name"] for s in suites}) != len(suites):
            return False
        for s in suites:
            if not (_truthy(s["start"]) and end_ok(s["end"])):
                return False
            if any(x is not None and not result_ok(x) for x in (s["setup"], s["teardown"])):
                return False
            if len({t["name"] for t in s["tests"]}) != len(s["tests"]) or not all(test_ok(t) for t in s["tests"]):
                return False
            if not suites_ok(s["suites"]):
                return False
        return True
    return (_truthy(desc["start"]) and end_ok(desc["end"]) and
            all(x is None or result_ok(x) for x in (desc["setup"], desc["teardown"])) and suites_ok(desc["suites"]))


def first_difference(a, b, path=""):
    """Path of the first difference between two descriptions (for the signature), None when equal."""
    if type(a) is not type(b):
        return path or "."
    if isinstance(a, dict):
        for k in a:
            if k not in b:
                return path + "." + k
            d = first_difference(a[k], b[k], path + "." + k)
            if d:
                return d
        return None
    if isinstance(a, list):
        if len(a) != len(b):
            return path + "[len]"
        for x, y in zip(a, b):
            d = first_difference(x, y, path + "[]")
            if d:
                return d
        return None
    return None if a == b else (path or ".")


def py_stream_check(events, finished):
    """Plain bracket check of a replayed (single-threaded) stream: returns None or a short reason."""
    if not events or events[0][0] != "test_session_start":
        return "no-session-start"
    open_suites, seen_suites, seen_tests = [], set(), set()
    cur = None          # (location) of the result whose block is open
    step = None
    ended = False
    closed_results = set()

    def key(l):
        return json.dumps(l)
    for e in events[1:]:
        k = e[0]
        if ended:
            return "event-after-session-end"
        if k == "test_session_start":
            return "second-session-start"
        if k == "test_session_end":
            if finished and (open_suites or cur or step):
                return "session-end-with-open-brackets"
            ended = True
            continue
        if k in ("suite_start", "suite_end"):
            if step and finished:
                return "suite-event-inside-step"
            cur, step = None, None
            p = e[1]["parent"] + [e[1]["meta"]["name"]]
            if k == "suite_start":
                if tuple(p) in seen_suites:
                    return "suite-started-twice"
                while open_suites and open_suites[-1] != e[1]["parent"]:
                    if finished:
                        return "suite-start-outside-parent"
                    open_suites.pop()
                if (open_suites[-1] if open_suites else []) != e[1]["parent"]:
                    return "suite-start-outside-parent"
                seen_suites.add(tuple(p))
                open_suites.append(p)
            else:
                while open_suites and open_suites[-1] != p:
                    if finished:
                        return "suite-end-not-innermost"
                    open_suites.pop()
                if not open_suites:
                    return "suite-end-without-start"
                open_suites.pop()
            continue
        starts = {"test_session_setup_start": ["session_setup"], "test_session_teardown_start": ["session_teardown"]}
        ends = {"test_session_setup_end": ["session_setup"], "test_session_teardown_end": ["session_teardown"]}
        if k in starts or k in ("suite_setup_start", "suite_teardown_start", "test_start", "test_skipped", "test_disabled"):
            if k in starts:
                loc = starts[k]
            else:
                p = e[1]["parent"] + [e[1]["meta"]["name"]]
                loc = [{"suite_setup_start": "suite_setup", "suite_teardown_start": "suite_teardown"}.get(k, "test"), p]
                owner = p if k.startswith("suite_") else e[1]["parent"]
                while open_suites and open_suites[-1] != owner and not finished:
                    open_suites.pop()
                if not open_suites or open_suites[-1] != owner:
                    return "result-outside-its-suite"
            if key(loc) in closed_results:
                return "result-started-twice"
            if cur is not None and finished:
                return "result-start-inside-result"
            closed_results.add(key(loc))
            cur, step = (None if k in ("test_skipped", "test_disabled") else loc), None
            continue
        if k in ends or k in ("suite_setup_end", "suite_teardown_end", "test_end"):
            if k in ends:
                loc = ends[k]
            else:
                p = e[1]["parent"] + [e[1]["meta"]["name"]]
                loc = [{"suite_setup_end": "suite_setup", "suite_teardown_end": "suite_teardown"}.get(k, "test"), p]
            if cur != loc:
                return "result-end-without-start"
            if step is not None and finished:
                return "result-end-with-open-step"
            cur, step = None, None
            continue
        # step-level events
        loc = e[1]
        if cur != loc:
            return "step-event-outside-its-result"
        if k == "step_start":
            if step is not None and finished:
                return "step-start-inside-step"
            step = e[2]
        elif k == "step_end":
            if step != e[2]:
                return "step-end-without-start"
            step = None
        else:
            if step != e[2]:
                return "log-outside-its-step"
    if finished and not ended:
        return "no-session-end"
    return None


def is_finished(desc):
    def res_f(r):
        return r is None or (r["status"] is not None and all(s["end"] is not None for s in r["steps"]))

    def suites_f(suites):
        return all(s["end"] is not None and res_f(s["setup"]) and res_f(s["teardown"]) and
                   all(res_f(t["result"]) for t in s["tests"]) and suites_f(s["suites"]) for s in suites)
    return desc["end"] is not None and res_f(desc["setup"]) and res_f(desc["teardown"]) and suites_f(desc["suites"])


def py_finished(desc):
    """Plain re-statement of Replay.finished (hypothesis of C18_stream_ok_finished)."""
    def res_e(r):
        return _truthy(r["end"]) and all(_truthy(s["end"]) for s in r["steps"])

    def ores_e(r):
        return r is None or res_e(r)

    def test_e(t):
        return t["result"]["status"] in ("skipped", "disabled") or res_e(t["result"])

    def suites_e(suites):
        return all(_truthy(s["end"]) and ores_e(s["setup"]) and ores_e(s["teardown"]) and all(test_e(t) for t in s["tests"])
                   and suites_e(s["suites"]) for s in suites)
    return _truthy(desc["end"]) and ores_e(desc["setup"]) and ores_e(desc["teardown"]) and suites_e(desc["suites"])


def oracle(desc, obs):
    """C18 evaluated directly on what the implementation did. Returns (signature, text) or None."""
    if obs["error"]:
        return ("replay-raises:" + obs["error"], "replaying the report raised %s" % obs["error"])
    d = first_difference(tree(desc), obs["rebuilt"])
    if d:
        leaf = ".".join(x for x in d.replace("[]", "").split(".") if x)
        short = leaf.split(".")[-2:] if "." in leaf else [leaf]
        return ("identity:" + ".".join(short), "the rebuilt report differs from the original at %s" % d)
    why = py_stream_check(obs["events"], py_finished(desc))
    if why:
        return ("stream:" + why, "the replayed stream is not well formed: %s" % why)
    return None


# ----------------------------------------------------------------------------- shrinking
def _subterms(desc):
    """Yield (container list, index) pairs that can be deleted, and (dict, key) pairs that can be set to None."""
    def res(r):
        if r is None:
            return
        for i in range(len(r["steps"])):
            yield ("del", r["steps"], i)
        for s in r["steps"]:
            for i in range(len(s["logs"])):
                yield ("del", s["logs"], i)

    def suites(lst):
        for i in range(len(lst)):
            yield ("del", lst, i)
        for i in range(len(lst)):
            if lst[i]["suites"]:
                yield ("hoist", lst, i)
        for s in lst:
            for k in ("setup", "teardown"):
                if s[k] is not None:
                    yield ("none", s, k)
                    yield from res(s[k])
            for i in range(len(s["tests"])):
                yield ("del", s["tests"], i)
            for t in s["tests"]:
                yield from res(t["result"])
            yield from suites(s["suites"])
    for k in ("setup", "teardown"):
        if desc[k] is not None:
            yield ("none", desc, k)
            yield from res(desc[k])
    yield from suites(desc["suites"])


def shrink(desc, pred, budget=400):
    desc = copy.deepcopy(desc)
    changed = True
    while changed and budget > 0:
        changed = False
        n = sum(1 for _ in _subterms(desc))
        for idx in range(n):
            cand = copy.deepcopy(desc)
            op = list(_subterms(cand))[idx]
            if op[0] == "del":
                del op[1][op[2]]
            elif op[0] == "hoist":
                op[1][op[2]:op[2] + 1] = op[1][op[2]]["suites"]
            else:
                op[1][op[2]] = None
            budget -= 1
            if pred(cand):
                desc, changed = cand, True
                break
            if budget <= 0:
                break
    # cosmetic: drop metadata noise
    for s in G._walk_suites(desc["suites"]):
        for n in [s] + s["tests"]:
            for k, v in (("tags", []), ("properties", []), ("links", [])):
                c = copy.deepcopy(desc)
                old = n[k]
                n[k] = v
                if not pred(desc):
                    n[k] = old
    return desc


# ----------------------------------------------------------------------------- perturbations
def perturb_report(rng, desc):
    """Leave the theorem's domain in one place (the models must still agree with the code there)."""
    d = copy.deepcopy(desc)
    results = list(G._results_of(d))
    kind = rng.choice(["status", "start_none", "end_zero", "details", "unknown_status", "step_start_none", "log_time_zero",
                       "report_start_none", "suite_start_none", "dup_suite", "end_without_status", "bypassed_with_steps"])
    r = rng.choice(results) if results else None
    if kind == "status" and r:
        r["status"] = rng.choice(["passed", "failed", None])
    elif kind == "start_none" and r:
        r["start"] = None
    elif kind == "end_zero" and r:
        r["end"] = 0
    elif kind == "details" and r:
        r["status_details"] = rng.choice(["", "some details"])
    elif kind == "unknown_status":
        tests = [t for _, t in G.all_tests(d)]
        if tests:
            rng.choice(tests)["result"]["status"] = rng.choice(["", "weird", "PASSED"])
    elif kind == "step_start_none" and r and r["steps"]:
        rng.choice(r["steps"])["start"] = rng.choice([None, 0])
    elif kind == "log_time_zero" and r and any(s["logs"] for s in r["steps"]):
        s = rng.choice([s for s in r["steps"] if s["logs"]])
        l = rng.choice(s["logs"])
        l[-1] = 0
    elif kind == "report_start_none":
        d["start"] = rng.choice([None, 0])
    elif kind == "suite_start_none" and d["suites"]:
        rng.choice(list(G._walk_suites(d["suites"])))["start"] = None
    elif kind == "dup_suite" and d["suites"]:
        s = copy.deepcopy(rng.choice(d["suites"]))
        d["suites"].append(s)
    elif kind == "end_without_status" and r:
        r["status"], r["end"] = None, (r["start"] or G.BASE_MS) + 5
    elif kind == "bypassed_with_steps":
        tests = [t for _, t in G.all_tests(d) if t["result"]["status"] in ("skipped", "disabled")]
        if tests:
            t = rng.choice(tests)["result"]
            t["end"] = (t["start"] or G.BASE_MS) + 7
    return kind, d


def perturb_stream(rng, events):
    ev = copy.deepcopy(events)
    if len(ev) < 3:
        return "none", ev
    kind = rng.choice(["drop", "dup", "swap", "rethread", "truncate", "move_late", "rerank", "rerank"])
    i = rng.randrange(1, len(ev))
    if kind == "drop":
        del ev[i]
    elif kind == "dup":
        ev.insert(i, copy.deepcopy(ev[i]))
    elif kind == "swap" and i + 1 < len(ev):
        ev[i], ev[i + 1] = ev[i + 1], ev[i]
    elif kind == "rethread":
        cands = [j for j, e in enumerate(ev) if e[0] in ("step_start", "step_end", "log", "check", "log_attachment", "log_url")]
        if cands:
            j = rng.choice(cands)
            ev[j][3] = 2
    elif kind == "rerank":
        # the writer copies node.rank at Start time and the accessors sort children by it (stable)
        for e in ev:
            if e[0] == "suite_start":
                e[1]["rank"] = rng.choice([0, 0, 1, 2, 3, 7])
            elif e[0] in ("test_start", "test_skipped", "test_disabled"):
                # (rank, position in the suite): ties on the rank are broken by the position, not by the arrival order
                e[1]["rank"] = rng.choice([0, 0, 1, 2, -1]) * RANK_BASE + (rng.choice([0, 1, 2, 3, 5]) if e[1]["parent"] else 0)
    elif kind == "truncate":
        ev = ev[:i]
    elif kind == "move_late":
        e = ev.pop(i)
        ev.insert(rng.randrange(i, len(ev) + 1), e)
    return kind, ev


# ----------------------------------------------------------------------------- Gallina printers
def c_node(n):
    m = dict(n["meta"])
    return "(mkNode %s (%s) %s)" % (c_list(n["parent"], c_str), G.c_meta(m), c_Z(n["rank"]))


def c_loc(l):
    k = l[0]
    if k == "session_setup":
        return "LocSessionSetup"
    if k == "session_teardown":
        return "LocSessionTeardown"
    return "(%s %s)" % ({"suite_setup": "LocSuiteSetup", "suite_teardown": "LocSuiteTeardown", "test": "LocTest"}[k],
                        c_list(l[1], c_str))


_SIMPLE = {"test_session_start": "ESessionStart", "test_session_end": "ESessionEnd",
           "test_session_setup_start": "ESessionSetupStart", "test_session_setup_end": "ESessionSetupEnd",
           "test_session_teardown_start": "ESessionTeardownStart", "test_session_teardown_end": "ESessionTeardownEnd"}
_NODE = {"suite_start": "ESuiteStart", "suite_end": "ESuiteEnd", "suite_setup_start": "ESuiteSetupStart",
         "suite_setup_end": "ESuiteSetupEnd", "suite_teardown_start": "ESuiteTeardownStart",
         "suite_teardown_end": "ESuiteTeardownEnd", "test_start": "ETestStart", "test_end": "ETestEnd"}


def c_event(e):
    k = e[0]
    if k in _SIMPLE:
        return "%s %s" % (_SIMPLE[k], c_Z(e[1]))
    if k in _NODE:
        return "%s %s %s" % (_NODE[k], c_node(e[1]), c_Z(e[2]))
    if k in ("test_skipped", "test_disabled"):
        return "%s %s %s %s" % ("ETestSkipped" if k == "test_skipped" else "ETestDisabled", c_node(e[1]), c_opt(e[2], c_str), c_Z(e[3]))
    if k in ("step_start", "step_end"):
        return "%s %s %s %s %s" % ("EStepStart" if k == "step_start" else "EStepEnd", c_loc(e[1]), c_str(e[2]), c_Z(e[3]), c_Z(e[4]))
    if k == "log":
        return "ELog %s %s %s %s %s %s" % (c_loc(e[1]), c_str(e[2]), c_Z(e[3]), c_str(e[4]), c_str(e[5]), c_Z(e[6]))
    if k == "check":
        return "ECheck %s %s %s %s %s %s %s" % (c_loc(e[1]), c_str(e[2]), c_Z(e[3]), c_str(e[4]), c_bool(e[5]), c_opt(e[6], c_str), c_Z(e[7]))
    if k == "log_attachment":
        return "ELogAttachment %s %s %s %s %s %s %s" % (c_loc(e[1]), c_str(e[2]), c_Z(e[3]), c_str(e[4]), c_str(e[5]), c_bool(e[6]), c_Z(e[7]))
    if k == "log_url":
        return "ELogUrl %s %s %s %s %s %s" % (c_loc(e[1]), c_str(e[2]), c_Z(e[3]), c_str(e[4]), c_str(e[5]), c_Z(e[6]))
    raise ValueError(k)


def c_err(e):
    return e if e in ("LookupError", "AssertionError", "AttributeError", "ValueError") else "Unmodelled"


HEADER = """From Coq Require Import List NArith ZArith Bool.
Import ListNotations.
From LCC Require Import Base.Util Model.Report Model.Events Model.Writer Model.Replay Model.StreamOk.
Open Scope Z_scope.
Definition NOW := %d.
Definition TH := %d.
Definition emit_eqb (a b : list event * option err) : bool :=
  list_eqb event_eqb (fst a) (fst b) && option_eqb err_eqb (snd a) (snd b).
(* a replay case: report, recorded stream, exception of the replay, rebuilt report (None = same as tree r), expected `replayable`,
   expected verdict of the grammar, expected `finished` *)
Definition rcase := (report * list event * option err * option report * bool * bool * bool)%%type.
Definition rel_replay (c : rcase) : bool := match c with (r, evs, e, _, _, _, _) => emit_eqb (replay_report_events NOW TH r) (evs, e) end.
Definition rel_writer (c : rcase) : bool :=
  match c with
  | (r, evs, x, reb, _, _, _) =>
      match aggregate evs, x with
      | Err Unmodelled, _ => true           (* outside the writer model (duplicate sibling): excluded *)
      | _, Some ValueError => true          (* the replay raised by itself, the writer saw a prefix *)
      | a, Some e => res_eqb report_eqb a (Err e)
      | a, None => res_eqb report_eqb a (Ok (match reb with Some x => x | None => tree r end))
      end
  end.
Definition rel_grammar (c : rcase) : bool :=
  match c with (r, evs, e, _, _, g, _) => Bool.eqb (sequential_ok replay_mode evs) g end.
Definition rel_hyp (c : rcase) : bool := match c with (r, _, _, _, h, _, _) => Bool.eqb (replayable r) h end.
(* a finished replayable report: the recorded stream must also satisfy the grammar with every bracket closed *)
Definition rel_strict (c : rcase) : bool :=
  match c with (r, evs, _, _, _, _, f) =>
    Bool.eqb (finished r) f && (negb (replayable r && finished r) || sequential_ok finished_replay_mode evs) end.
Definition agrees (c : rcase) : bool := rel_replay c && rel_writer c && rel_grammar c && rel_hyp c && rel_strict c.
(* a writer case: a stream and what the real ReportWriter did with it *)
Definition wcase := (list event * res report)%%type.
Definition unmodelled (c : wcase) : bool := match aggregate (fst c) with Err Unmodelled => true | _ => false end.
Definition wagrees (c : wcase) : bool := unmodelled c || res_eqb report_eqb (aggregate (fst c)) (snd c).
""" % (NOW_MS, TH)


def c_rcase(c):
    desc, obs, hyp, gram, fin = c
    reb = None if (obs["rebuilt"] is None or obs["rebuilt"] == tree(desc)) else obs["rebuilt"]
    return "(%s,\n %s,\n %s, %s, %s, %s, %s)" % (G.c_report(desc), c_list(obs["events"], c_event),
                                                c_opt(obs["error"], c_err), c_opt(reb, lambda d: "(%s)" % G.c_report(d)),
                                                c_bool(hyp), c_bool(gram), c_bool(fin))


def c_wcase(c):
    events, obs = c
    exp = "Err %s" % c_err(obs["error"]) if obs["error"] else "Ok (%s)" % G.c_report(obs["rebuilt"])
    return "(%s,\n (%s : res report))" % (c_list(events, c_event), exp)


def rfile(cases):
    return HEADER + "Definition cases : list rcase := [\n%s\n].\n" % ";\n".join(c_rcase(c) for c in cases) + \
        "Eval vm_compute in (find_indexes (fun c => negb (agrees c)) cases).\n"


def rfile_detail(case):
    return HEADER + "Definition c : rcase := %s.\n" % c_rcase(case) + \
        "Eval vm_compute in (find_indexes (fun b : bool => negb b) [rel_replay c; rel_writer c; rel_grammar c; rel_hyp c; rel_strict c]).\n"


def wfile(cases):
    return HEADER + "Definition cases : list wcase := [\n%s\n].\n" % ";\n".join(c_wcase(c) for c in cases) + \
        "Eval vm_compute in (find_indexes (fun c => negb (wagrees c)) cases).\n" + \
        "Eval vm_compute in (find_indexes unmodelled cases).\n"


def parse_nat_lists(out):
    """All `= [..] : list nat` answers of a case file, in order (numbers may carry a %nat scope suffix)."""
    import re
    res = []
    for m in re.finditer(r"=\s*(\[[^\]]*\]|nil)\s*:\s*list nat", out, re.S):
        body = m.group(1)
        body = "" if body == "nil" else body.strip()[1:-1].strip()
        res.append([int(x.replace("%nat", "").strip()) for x in body.split(";") if x.strip()])
    return res


def parse_first(out):
    l = parse_nat_lists(out)
    return l[0] if l else None


RELS = ["Replay.replay_report_events = recorded stream and exception", "Writer.aggregate(recorded stream) = rebuilt report",
        "StreamOk.sequential_ok(recorded stream) = python bracket check", "Replay.replayable = python hypothesis",
        "Replay.finished = python re-statement, and StreamOk.sequential_ok finished_replay_mode accepts the recorded stream of "
        "a finished replayable report"]


# ----------------------------------------------------------------------------- the check
def expected_grammar(desc, obs):
    """What the grammar must say about the recorded stream (independent bracket check; only used when nothing raised)."""
    return py_stream_check(obs["events"], False) is None


def check(run):
    run.trusted += [
        "modelled, not verified: float seconds <-> integer milliseconds (int(round(t*1000)) in the harness), Python object identity "
        "of Step objects in ReportWriter.active_steps (named by owner location + index in Model/Writer.v), dict insertion order",
        "Model/Writer.v returns Err Unmodelled for events that replace an object of the live report (duplicate suite / test / "
        "setup start); such streams are excluded from the writer correspondence and counted",
    ]
    run.assume += [
        "C18_identity hypothesis `replayable`: start times present, no time equal to 0.0 (epoch), sibling names pairwise distinct, "
        "status of an ended result = passed/failed as computed from its logs, no status details on passed/failed results, "
        "skipped/disabled tests have start = end and no step",
        "the replayed report is a loaded one (ranks 0, children already in get_suites()/get_tests() order)",
        "the attributes no event carries (title, info, nb_threads, saving_time) are outside the identity (Replay.tree)",
    ]
    run.prove(extra_targets=["theories/Base/Util.vo", "theories/Model/Report.vo", "theories/Model/Events.vo",
                             "theories/Model/Writer.vo", "theories/Model/Replay.vo", "theories/Model/StreamOk.vo"])
    quick = run.tier == "quick"
    n = 90 if quick else 1500
    sizes = ["small"] * 6 + ["medium"] * 3 + (["large"] if not quick else [])
    rcases, wcases = [], []
    for i in range(n):
        unfinished = run.rng.random() < 0.55
        desc = G.gen_report(run.rng, run.rng.choice(sizes), unfinished=unfinished)
        kind = "generated"
        if run.rng.random() < 0.35:
            # the report of a parallel run: siblings are listed in declaration order, not in the order they started
            # (the generator's clock is monotonic, so shuffling the listing order makes the two orders differ)
            for lst in [desc["suites"]] + [x for su in G._walk_suites(desc["suites"]) for x in (su["suites"], su["tests"])]:
                run.rng.shuffle(lst)
            run.count("reports_listed_in_another_order_than_started")
        if run.rng.random() < 0.2:
            # names with a dot in them (a parametrized test named check_v1.2, a suite named api.v1): nodes are addressed by
            # their hierarchy of names, never by a dotted path string
            for su in G._walk_suites(desc["suites"]):
                if run.rng.random() < 0.5 and "." not in su["name"]:
                    su["name"] = su["name"] + ".v" + str(run.rng.randint(1, 3))
                for t in su["tests"]:
                    if run.rng.random() < 0.3 and "." not in t["name"]:
                        t["name"] = t["name"] + "_1." + str(run.rng.randint(0, 9))
            run.count("reports_with_dotted_names")
        if run.rng.random() < 0.3:
            kind, desc = perturb_report(run.rng, desc)
        try:
            obs = run_replay(desc)
        except Exception as e:      # noqa: BLE001   (the driver itself failed: e.g. the builder rejected the description)
            run.tie_broken("driver failed", case={"kind": kind}, detail="%s: %s" % (type(e).__name__, e))
            continue
        hyp = py_replayable(desc)
        run.evaluations += 1
        run.count("reports")
        run.count("kind:" + kind)
        run.count("events", len(obs["events"]))
        run.count("unfinished" if desc["end"] is None else "finished")
        if hyp:
            run.count("replayable")
            nopen = sum(1 for r in G._results_of(desc) for s in r["steps"] if s["end"] is None)
            if nopen:
                run.count("replayable_with_open_steps")
                run.nontrivial.add("open:%d" % i)
            if any(r["status"] is None for r in G._results_of(desc)):
                run.nontrivial.add("inprogress:%d" % i)
            hit = oracle(desc, obs)
            if hit:
                sig = hit[0]
                small = shrink(desc, lambda c: py_replayable(c) and (oracle(c, run_replay(c)) or [None])[0] == sig)
                so = run_replay(small)
                run.violation("oracle:" + sig, hit[1], {"report": small, "rebuilt": so["rebuilt"], "error": so["error"],
                                                        "events": so["events"]})
        elif obs["error"]:
            run.count("replay_raised:" + obs["error"])
        rcases.append((desc, obs, hyp, expected_grammar(desc, obs), py_finished(desc)))
        if hyp and py_finished(desc):
            run.count("replayable_and_finished")
        if i < 2:
            run.sample({"kind": kind, "replayable": hyp, "n_events": len(obs["events"]), "error": obs["error"],
                        "first_events": obs["events"][:4]})
        # perturbed streams through the writer alone
        if obs["events"] and run.rng.random() < 0.8:
            pk, evs = perturb_stream(run.rng, obs["events"])
            try:
                wobs = run_writer(evs)
            except Exception as e:      # noqa: BLE001
                run.tie_broken("writer driver failed", case={"perturbation": pk}, detail="%s: %s" % (type(e).__name__, e))
                continue
            run.count("writer_streams")
            run.count("writer:" + (wobs["error"] or "ok"))
            if wobs["error"] and wobs["error"].startswith("other:"):
                run.tie_broken("ReportWriter raised an exception class the model does not have", case={"perturbation": pk},
                               impl=wobs["error"])
                continue
            wcases.append((evs, wobs))
    if getattr(run, "model_ok", False):
        per = 12 if quick else 40
        rshards = [rcases[i:i + per] for i in range(0, len(rcases), per)]
        wshards = [wcases[i:i + per] for i in range(0, len(wcases), per)]
        texts = [("r%d" % k, rfile(sh)) for k, sh in enumerate(rshards)] + [("w%d" % k, wfile(sh)) for k, sh in enumerate(wshards)]
        outs = run.coq_eval_many(texts)
        unmodelled = 0
        for k, (rc, out) in enumerate(outs):
            is_r = k < len(rshards)
            shard = rshards[k] if is_r else wshards[k - len(rshards)]
            bad = parse_first(out) if rc == 0 else None
            if bad is None:
                run.tie_broken("case file did not evaluate", detail=out[-1500:])
                continue
            if not is_r:
                lists = parse_nat_lists(out)
                if len(lists) > 1:
                    unmodelled += len(lists[1])
            for idx in bad[:1]:
                if is_r:
                    case = shard[idx]
                    rc2, out2 = run.coq_eval("detail", rfile_detail(case))
                    which = parse_first(out2) if rc2 == 0 else None
                    rels = [RELS[j] for j in (which or [])] or ["?"]
                    desc, obs = case[0], case[1]
                    small = desc
                    run.tie_broken("; ".join(rels), case={"report": small}, impl={"events": obs["events"][:60], "error": obs["error"],
                                                                                  "rebuilt_differs_from_tree": obs["rebuilt"] != tree(desc),
                                                                                  "py_replayable": case[2], "py_grammar": case[3]})
                else:
                    evs, wobs = shard[idx]
                    run.tie_broken("Writer.aggregate(perturbed stream) = what the real ReportWriter did", case={"events": evs},
                                   impl={"error": wobs["error"], "rebuilt": wobs["rebuilt"]})
        run.count("writer_streams_unmodelled", unmodelled)
    run.coverage["rule"] = (
        "seeded reports from gen_reports_views.gen_report (55% snapshots of running sessions: results / steps / suites / report "
        "without end, several open steps per result), 30% of them perturbed in one place to leave the theorem's domain (missing / "
        "zero times, inconsistent or unknown status, duplicate suite, ...); each is replayed by the real replay_report_events -> "
        "SyncEventManager -> ReportWriter(Report()); the recorded stream, the exception and the rebuilt report are compared with "
        "Replay.replay_report_events / Writer.aggregate / StreamOk.sequential_ok inside Coq; 80% of the streams are also perturbed "
        "(drop, duplicate, swap, re-thread, truncate, move) and fed to the real ReportWriter and to Writer.aggregate. "
        "non-trivial = a replayable report with an in-progress result or an open step")


def replay(path):
    r = json.load(open(path))
    rp = r.get("replay") or {}
    case0 = ((r.get("broken") or [{}])[0].get("case") or {})
    desc = rp.get("report") or case0.get("report")
    if not desc and case0.get("events"):
        # a perturbed stream on which Writer.aggregate and the real ReportWriter disagreed: show what the writer does now
        wobs = run_writer(case0["events"])
        print(json.dumps({"events": case0["events"], "writer": wobs}, indent=1, ensure_ascii=False)[:6000])
        print("(model/implementation disagreement: re-run ./check C18 to see whether it persists)")
        return 1
    if not desc:
        print("nothing to replay in", path)
        return 2
    obs = run_replay(desc)
    hit = oracle(desc, obs) if py_replayable(desc) else None
    print(json.dumps({"report": desc, "error": obs["error"], "rebuilt": obs["rebuilt"], "oracle": hit}, indent=1, ensure_ascii=False)[:6000])
    return 1 if hit else 0
