"""C12 — test selection matches the filter, including report-based selection.
Model: coq/theories/Model/Glob.v, Model/Filter.v ; theorems: Props/C12.v.
Correspondence: (tree, filter expression[, report]) triples through the real argparse definitions, make_test_filter and
load_suites_from_project, and (pattern, string) pairs through fnmatch.fnmatch itself.
Oracle: reference evaluation of the documented filter semantics (doc/cli.rst "lcc filtering arguments", the fnmatch
documentation for ? and [seq]); it does not import lemoncheesecake.filter nor fnmatch nor re."""
import copy
import json
import os

import lib
import gen_filter as G

FLAGS = "-^~"


# ============================================================================= oracle: wildcard matching (from the documentation)
def o_tokens(pat):
    """`*` any string, `?` any character, `[seq]` any character in seq, `[!seq]` any character not in seq; a `]` directly after
    the opening bracket (or after `[!`) belongs to the set; an unterminated `[` is an ordinary character; x-y inside a set is a range"""
    toks, i, n = [], 0, len(pat)
    while i < n:
        ch = pat[i]
        if ch == "*":
            toks.append(("star",))
            i += 1
        elif ch == "?":
            toks.append(("any",))
            i += 1
        elif ch == "[":
            start = i + 1
            neg = pat[start:start + 1] == "!"
            if neg:
                start += 1
            close = pat.find("]", start + 1) if pat[start:start + 1] == "]" else pat.find("]", start)
            if close < 0 or start >= n:
                toks.append(("lit", "["))
                i += 1
                continue
            body = pat[start:close]
            members, k = [], 0
            while k < len(body):
                if k + 2 < len(body) and body[k + 1] == "-":
                    members.append((body[k], body[k + 2]))
                    k += 3
                else:
                    members.append((body[k], body[k]))
                    k += 1
            toks.append(("set", neg, members))
            i = close + 1
        else:
            toks.append(("lit", ch))
            i += 1
    return toks


def o_glob(pat, s):
    """dynamic programming over (token index, string index); no recursion, no regular expression"""
    toks = o_tokens(pat)
    reach = [False] * (len(s) + 1)
    reach[0] = True
    for t in toks:
        nxt = [False] * (len(s) + 1)
        if t[0] == "star":
            seen = False
            for j in range(len(s) + 1):
                seen = seen or reach[j]
                nxt[j] = seen
        else:
            for j in range(len(s)):
                if not reach[j]:
                    continue
                c = s[j]
                if t[0] == "any":
                    ok = True
                elif t[0] == "lit":
                    ok = (c == t[1])
                else:
                    inside = any(lo <= c <= hi for lo, hi in t[2])
                    ok = (not inside) if t[1] else inside
                if ok:
                    nxt[j + 1] = True
        reach = nxt
    return reach[len(s)]


# ============================================================================= oracle: filter semantics (from doc/cli.rst)
def values_of(kind, chain):
    """what a node exposes for an option, the enclosing suites taken into account"""
    if kind == "path":
        return [".".join(n["name"] for n in chain[:i + 1]) for i in range(len(chain))]
    if kind == "desc":
        return [n["desc"] for n in chain]
    if kind == "tag":
        return [t for n in chain for t in n["tags"]]
    if kind == "link":
        return [x if x is not None else "" for n in chain for l in n["links"] for x in l]
    raise ValueError(kind)


def props_of(chain):
    d = {}
    for n in chain:
        for k, v in n["props"]:
            d[k] = v          # the innermost definition wins
    return d


def split_neg(p):
    if p != "" and p[0] in FLAGS:
        return True, p[1:]
    return False, p


def value_ok(values, p):
    neg, body = split_neg(p)
    hit = any(o_glob(body, v) for v in values)
    return (not hit) if neg else hit


def prop_ok(props, k, p, absent_rejects_negation=False):
    neg, body = split_neg(p)
    if k not in props and absent_rejects_negation:
        return False
    hit = k in props and o_glob(body, props[k])
    return (not hit) if neg else hit


def node_ok(f, chain, variant=None):
    if f["path"] and not any(value_ok(values_of("path", chain), p) for p in f["path"]):
        return False
    for kind in ("desc", "tag", "link"):
        for group in f[kind]:                      # repeated option: AND
            if group and not any(value_ok(values_of(kind, chain), p) for p in group):     # values of one option: OR
                return False
    props = props_of(chain)
    for group in f["property"]:
        if group and not any(prop_ok(props, k, p, variant == "absent-key") for k, p in group):
            return False
    return True


def uses_report(f):
    return bool(f["from_report"] or f["passed"] or f["failed"] or f["skipped"] or f["non_passed"] or f["grep"])


def is_empty_filter(f):
    return not (f["path"] or f["desc"] or f["tag"] or f["property"] or f["link"] or f["enabled"] or f["disabled"])


def texts_of(rtest):
    out = []
    for st in rtest["steps"]:
        out.append(st["desc"])
        for l in st["logs"]:
            if l[0] == "log":
                out.append(l[2])
            elif l[0] == "check":
                out.append(l[1])
                if l[3]:
                    out.append(l[3])
            else:
                out += [l[1], l[2]]
    return out


def report_accepts(f, rchain, variant=None):
    rt = rchain[-1]
    if not node_ok(f, rchain, variant):
        return False
    wanted = set()
    if f["passed"]:
        wanted.add("passed")
    if f["failed"] or f["non_passed"]:
        wanted.add("failed")
    if f["skipped"] or f["non_passed"]:
        wanted.add("skipped")
    if wanted and rt["status"] not in wanted:
        return False
    if f["enabled"] and rt["status"] == "disabled":
        return False
    if f["disabled"] and rt["status"] != "disabled":
        return False
    if f["grep"] and not any(f["grep"] in t for t in texts_of(rt)):
        return False
    return True


def has_tests(s):
    return bool(s["tests"]) or any(has_tests(x) for x in s["suites"])


def reference(tree, f, report, variant=None):
    """expected observation: {"ok": [otree]} or {"err": ...}"""
    if f["enabled"] and f["disabled"]:
        return {"err": "EExclusive"}
    if not any(has_tests(s) for s in tree):
        return {"err": "ENoTests"}
    if uses_report(f):
        accepted = set()
        for chain, n, is_test in G.walk((report or {"suites": []})["suites"]):
            if is_test and report_accepts(f, list(chain), variant):
                accepted.add(".".join(x["name"] for x in chain))
        keep = lambda chain: ".".join(x["name"] for x in chain) in accepted
    else:
        if is_empty_filter(f):
            return {"ok": [otree_all(s) for s in tree]}       # an empty filter selects everything: the tree is left as it is
        def keep(chain):
            if not node_ok(f, chain, variant):
                return False
            dis = any(bool(n["disabled"]) for n in chain)
            if f["enabled"] and dis:
                return False
            if f["disabled"] and not dis:
                return False
            return True
    out = [o for o in (prune(s, (), keep) for s in tree) if o is not None]
    return {"ok": out} if out else {"err": "ENoMatch"}


def otree_all(s):
    return [s["name"], [t["name"] for t in s["tests"]], [otree_all(x) for x in s["suites"]]]


def prune(s, chain, keep):
    c = chain + (s,)
    tests = [t["name"] for t in s["tests"] if keep(list(c + (t,)))]
    subs = [o for o in (prune(x, c, keep) for x in s["suites"]) if o is not None]
    if not tests and not subs:
        return None                # a suite left without any test is dropped, nothing else is
    return [s["name"], tests, subs]


def flat_paths(otrees, prefix=""):
    out = []
    for name, tests, subs in otrees:
        p = prefix + name
        out += [p + "." + t for t in tests]
        out += flat_paths(subs, p + ".")
    return out


# ============================================================================= running one case
def run_case(case):
    import impl_filter
    obs, paths = impl_filter.run_case(case["tree"], case["filter"], case.get("report"), case.get("via_argparse", False))
    return obs, paths


def judge(case, obs, paths):
    """None if the implementation did what the documentation says, else (signature, text)."""
    f = case["filter"]
    want = reference(case["tree"], f, case.get("report"))
    if obs == want:
        if "ok" in obs and paths != flat_paths(obs["ok"]):
            return ("paths:order", "the selected tests' paths %r are not the paths of the pruned tree in order %r" % (paths, flat_paths(obs["ok"])))
        return None
    if "exc" in obs:
        empties = [p for p in f["path"]] + [p for k in ("desc", "tag", "link") for g in f[k] for p in g] + \
                  [v for g in f["property"] for _, v in g]
        if obs["exc"].startswith("IndexError") and "" in empties:
            return ("exception:IndexError:empty-pattern", "an empty pattern makes the filter raise %s" % obs["exc"])
        return ("exception:" + obs["exc"].split(":")[0], "selection raised %s" % obs["exc"])
    if f["property"] and obs == reference(case["tree"], f, case.get("report"), variant="absent-key"):
        return ("select:property-negation-absent-key",
                "a negated --property value does not select nodes that lack the property (expected %s, got %s)" % (
                    json.dumps(want), json.dumps(obs)))
    kinds = sorted(k for k in ("path", "desc", "tag", "property", "link", "enabled", "disabled", "passed", "failed", "skipped",
                               "non_passed", "grep", "from_report") if f[k])
    return ("select:mismatch:" + "+".join(kinds), "expected %s, got %s" % (json.dumps(want), json.dumps(obs)))


def sig_class(sig):
    """violations are minimised within their class (exception kind / wrong selection / glob) and named after the minimal case"""
    return sig.split(":")[0] + (":" + sig.split(":")[1] if sig.startswith("exception:") else "")


def shrink(case, sig):
    """greedy structural minimisation keeping the same class of oracle failure"""
    cls = sig_class(sig)

    def still(c):
        try:
            o, p = run_case(c)
            j = judge(c, o, p)
        except Exception:
            return False
        return j is not None and sig_class(j[0]) == cls

    def candidates(c):
        f = c["filter"]
        for kind in ("path",):
            for i in range(len(f[kind])):
                d = copy.deepcopy(c)
                del d["filter"][kind][i]
                yield d
        for kind in ("desc", "tag", "property", "link"):
            for i in range(len(f[kind])):
                d = copy.deepcopy(c)
                del d["filter"][kind][i]
                yield d
                for j in range(len(f[kind][i])):
                    if len(f[kind][i]) > 1:
                        d = copy.deepcopy(c)
                        del d["filter"][kind][i][j]
                        yield d
        for k in ("passed", "failed", "skipped", "non_passed", "enabled", "disabled"):
            if f[k]:
                d = copy.deepcopy(c)
                d["filter"][k] = False
                yield d
        if f["grep"] is not None:
            d = copy.deepcopy(c)
            d["filter"]["grep"] = None
            yield d

        def tree_cands(suites, setter):
            for i, s in enumerate(suites):
                yield setter(suites[:i] + suites[i + 1:])
                for j in range(len(s["tests"])):
                    s2 = dict(s, tests=s["tests"][:j] + s["tests"][j + 1:])
                    yield setter(suites[:i] + [s2] + suites[i + 1:])
                for key in ("tags", "props", "links"):
                    if s[key]:
                        yield setter(suites[:i] + [dict(s, **{key: []})] + suites[i + 1:])
                for j, t in enumerate(s["tests"]):
                    for key in ("tags", "props", "links"):
                        if t[key]:
                            s2 = dict(s, tests=s["tests"][:j] + [dict(t, **{key: []})] + s["tests"][j + 1:])
                            yield setter(suites[:i] + [s2] + suites[i + 1:])
                yield from tree_cands(s["suites"], lambda subs, i=i, s=s: setter(suites[:i] + [dict(s, suites=subs)] + suites[i + 1:]))
        for which in ("tree", "report"):
            if which == "report":
                if not c.get("report"):
                    continue
                yield from tree_cands(c["report"]["suites"], lambda l: dict(copy.deepcopy(c), report={"suites": copy.deepcopy(l)}))
            else:
                yield from tree_cands(c["tree"], lambda l: dict(copy.deepcopy(c), tree=copy.deepcopy(l)))

    budget = 400
    changed = True
    while changed and budget > 0:
        changed = False
        for d in candidates(case):
            budget -= 1
            if budget <= 0:
                break
            if still(d):
                case, changed = d, True
                break
    return case


# ============================================================================= pinned cases (F07 witnesses and corner cases)
def _n(name, desc=None, tags=(), props=(), links=(), disabled=False):
    return {"name": name, "desc": desc or name.upper(), "tags": list(tags), "props": [list(p) for p in props],
            "links": [list(l) for l in links], "disabled": disabled}


def _s(name, tests, suites=(), **kw):
    d = _n(name, **kw)
    d["tests"], d["suites"] = list(tests), list(suites)
    return d


def pinned_cases():
    tree = [_s("s", [_n("t1", props=[["k", "v"]]), _n("t2", props=[["k", "w"]]), _n("t3", tags=["x"])],
               [_s("sub", [_n("u1", desc=""), _n("u2", links=[["http://bug/1", None]])], tags=["slow"], props=[["k", "v"]])])]
    out = []

    def add(name, **kw):
        f = G.empty_filter()
        f.update(kw)
        out.append({"name": name, "tree": tree, "filter": f, "report": None, "via_argparse": G.argparse_ok(f)})
    add("F07-property-negation-absent-key", property=[[["k", "^v"]]])
    add("F07-property-negation-absent-key-or", property=[[["z", "~v"], ["k", "w"]]])
    add("F07-empty-path-pattern", path=[""])
    add("F07-empty-tag-pattern", tag=[["", "x"]])
    add("F07-empty-desc-pattern", desc=[[""]])
    add("F07-empty-property-value", property=[[["k", ""]]])
    add("negation-alone", tag=[["^"]])
    add("inherit-tag", tag=[["slow"]])
    add("link-without-name", link=[[""]])
    add("empty-filter")
    add("dash-negation", tag=[["-slow"]])
    # witness of C12_from_report_dotted_refuted: project a{"b.c"}, report "a.b"{c: failed}, --failed selects a."b.c"
    f = G.empty_filter()
    f["failed"] = True
    rt = dict(_n("c"), status="failed", steps=[])
    del rt["disabled"]
    rs = dict(_n("a.b"), tests=[rt], suites=[])
    del rs["disabled"]
    out.append({"name": "dotted-names-from-report", "tree": [_s("a", [_n("b.c")])], "filter": f, "report": {"suites": [rs]},
                "via_argparse": True})
    return out


# ============================================================================= the check
def check(run):
    run.trusted += [
        "modelled, not verified: CPython's re engine behind fnmatch (a bracket class is 'code point in the listed characters/ranges', "
        "(?>.*?fixed)+\\Z is ordinary wildcard matching); the scanning of fnmatch.translate is modelled (Glob.parse_glob) and compared "
        "with fnmatch.fnmatch on generated pairs on every run",
        "modelled, not verified: argparse (the parsed namespace is the model's input; the real parser definitions are used by the "
        "correspondence whenever the expression can be typed as is), load_report (a JSON report is really saved and loaded in the "
        "correspondence; the model receives the report normal form), re.search for --grep (parameter re_search of the model; the "
        "correspondence instantiates it with substring search on regex-inert caseless patterns)",
        "the model describes filter.py as fixed by /repo commit ce19080 (fixes/F07-property-negation-and-empty-pattern.patch); on the "
        "code before that commit the check reports select:property-negation-absent-key and exception:IndexError:empty-pattern",
    ]
    run.assume += [
        "POSIX (os.path.normcase is the identity)",
        "excluded bracket form: a non-negated [..] whose first item is a reversed range followed by '!' (e.g. [b-a!x]); CPython "
        "re-reads it as a negated set; excluded from the generators and from parse_glob's claimed fragment",
        "C12_from_report identifies project tests and report tests by their names along the hierarchy: requires dot-free names "
        "(names are Python identifiers in real projects)",
        "StepFilter and the setup/teardown/session branches of ResultFilter are not reachable from make_test_filter and are not modelled",
    ]
    run.prove(extra_targets=["theories/Base/Util.vo", "theories/Model/Report.vo", "theories/Model/Glob.vo", "theories/Model/Filter.vo"])
    quick = run.tier == "quick"
    n_cases = 2000 if quick else 80000
    n_glob = 10000 if quick else 300000
    rng = run.rng

    # ---- glob pairs through fnmatch.fnmatch itself
    import impl_filter
    pairs = []
    for i in range(n_glob):
        p, s = G.gen_glob_pair(rng, run.tier)
        if G.excluded_glob(p):
            run.count("glob_excluded_form")
            continue
        try:
            b = impl_filter.run_fnmatch(p, s)
        except Exception as e:
            run.tie_broken("fnmatch raised", case=[p, s], impl=repr(e))
            continue
        pairs.append((p, s, b))
        run.evaluations += 1
        run.count("glob_pairs")
        if "[" in p:
            run.count("glob_with_bracket")
        if b:
            run.count("glob_matching")
        if o_glob(p, s) != b:
            run.violation("glob:reference-differs", "fnmatch(%r, %r) = %r differs from documented wildcard semantics" % (s, p, b),
                          {"kind": "glob", "pattern": p, "string": s, "fnmatch": b})
    # ---- (tree, expression[, report]) triples
    cases = []
    todo = [dict(c) for c in pinned_cases()]
    for i in range(n_cases):
        tree = G.gen_tree(rng)
        report_mode = rng.random() < 0.35
        report = G.gen_report(rng, tree) if report_mode else None
        f = G.gen_filter(rng, tree, report_mode, report)
        if report_mode and rng.random() < 0.3:
            # family: report-based criteria alone (grep on a text of the report, status flags), no metadata option
            f = G.empty_filter()
            f["grep"] = G.gen_grep(rng, report) if rng.random() < 0.8 else None
            for k in ("passed", "failed", "skipped", "non_passed"):
                f[k] = rng.random() < 0.2
            f["from_report"] = rng.random() < 0.5 or not (f["grep"] or f["passed"] or f["failed"] or f["skipped"] or f["non_passed"])
            run.count("family_report_criteria_only")
        if any(G.excluded_glob(p) for p in all_patterns(f)):
            continue
        todo.append({"tree": tree, "filter": f, "report": report,
                     "via_argparse": G.argparse_ok(f) and rng.random() < 0.8})
    shrunk = 0
    for i, case in enumerate(todo):
        obs, paths = run_case(case)
        f = case["filter"]
        run.evaluations += 1
        run.count("cases")
        run.count("via_argparse" if case["via_argparse"] else "via_namespace")
        for k in ("path", "desc", "tag", "property", "link"):
            if f[k]:
                run.count("opt_" + k)
        for k in ("enabled", "disabled", "passed", "failed", "skipped", "non_passed", "grep", "from_report"):
            if f[k]:
                run.count("opt_" + k)
        pats = all_patterns(f)
        run.count("patterns", len(pats))
        run.count("patterns_negated", sum(1 for p in pats if p[:1] in FLAGS and p))
        run.count("patterns_wildcard", sum(1 for p in pats if any(c in p for c in "*?[")))
        run.count("patterns_empty", sum(1 for p in pats if p == ""))
        if case.get("report") is not None:
            run.count("with_report")
        run.count("outcome_" + ("ok" if "ok" in obs else obs.get("err", "exception")))
        ntests = sum(1 for _, _, t in G.walk(case["tree"]) if t)
        if "ok" in obs and 0 < len(paths) < ntests:
            run.nontrivial.add(json.dumps([case["tree"], f, case.get("report")], sort_keys=True))
            run.count("proper_nonempty_selection")
        hit = judge(case, obs, paths)
        if hit:
            run.count("oracle_failures")
            if shrunk < 8:       # the first failures are minimised and reported (distinct signatures); the others are counted
                shrunk += 1
                small = shrink(case, hit[0])
                so, sp = run_case(small)
                hit = judge(small, so, sp) or hit
                run.violation(hit[0], hit[1],
                              {"kind": "select", "tree": small["tree"], "filter": small["filter"], "report": small.get("report"),
                               "via_argparse": small.get("via_argparse", False), "observed": so})
        if "exc" in obs:
            run.tie_broken("lcc_select = observed selection", case={"filter": f, "tree": case["tree"]}, impl=obs,
                           detail="the implementation raised; the model (fixed code) is total")
        else:
            cases.append((f, case.get("report"), case["tree"], obs, case))
        if i in (len(pinned_cases()), len(pinned_cases()) + 1):
            run.sample({"filter_argv": G.to_argv(f) if case["via_argparse"] else "(namespace) " + json.dumps(f),
                        "tree_paths": [".".join(x["name"] for x in ch) for ch, _, t in G.walk(case["tree"]) if t],
                        "selected": paths, "outcome": obs if "ok" not in obs else "ok"})
    if getattr(run, "model_ok", False):
        files = []
        gsh = [pairs[i:i + 3000] for i in range(0, len(pairs), 3000)]
        csh = [cases[i:i + 250] for i in range(0, len(cases), 250)]
        files += [("g%d" % k, G.glob_cases_file(sh)) for k, sh in enumerate(gsh)]
        files += [("c%d" % k, G.cases_file([c[:4] for c in sh])) for k, sh in enumerate(csh)]
        outs = run.coq_eval_many(files)
        for k, (rc, out) in enumerate(outs):
            bad = lib.parse_nat_list(out) if rc == 0 else None
            if bad is None:
                run.tie_broken("case file %s did not evaluate" % files[k][0], detail=out[-1500:])
                continue
            if k < len(gsh):
                for idx in bad[:3]:
                    p, s, b = gsh[k][idx]
                    run.tie_broken("Glob.fnmatch = fnmatch.fnmatch", case={"pattern": p, "string": s}, impl=b, model=(not b))
            else:
                for idx in bad[:2]:
                    f, rep, tree, obs, case = csh[k - len(gsh)][idx]
                    run.tie_broken("Filter.lcc_select = make_test_filter + load_suites_from_project",
                                   case={"filter": f, "tree": tree, "report": rep, "via_argparse": case.get("via_argparse")},
                                   impl=obs, detail="the Coq model evaluates to a different selection")
    run.coverage["rule"] = (
        "seeded random suite trees (1-3 top suites, depth <= 3, tags/properties/links/disabled at every level, rare dotted names) x "
        "filter expressions (0-3 of path/desc/tag/property/link, 1-3 values per occurrence, 1-3 occurrences, patterns derived from the "
        "tree's own values by *, ?, [seq], [!seq], ranges, or random, or empty, 30% negated with ^ ~ -) x enabled/disabled; 35% with a "
        "report (statuses incl. none, missing/extra tests, steps with every log kind) and --passed/--failed/--skipped/--non-passed/"
        "--grep/--from-report; executed by the real argparse definitions (80% when typeable), make_test_filter, "
        "load_suites_from_project and by Filter.lcc_select inside Coq; plus (pattern, string) pairs through fnmatch.fnmatch. "
        "non-trivial = the selection is a proper non-empty subset of the project's tests")


def all_patterns(f):
    return list(f["path"]) + [p for k in ("desc", "tag", "link") for g in f[k] for p in g] + [v for g in f["property"] for _, v in g]


def replay(path):
    r = json.load(open(path))
    rp = r.get("replay") or {}
    if not rp:
        b = (r.get("broken") or [{}])[0]
        c = b.get("case") or {}
        if "pattern" in c:
            rp = {"kind": "glob", "pattern": c["pattern"], "string": c["string"]}
        elif "filter" in c:
            rp = {"kind": "select", "tree": c["tree"], "filter": c["filter"], "report": c.get("report"),
                  "via_argparse": c.get("via_argparse", False)}
    if rp.get("kind") == "glob":
        import impl_filter
        b = impl_filter.run_fnmatch(rp["pattern"], rp["string"])
        want = o_glob(rp["pattern"], rp["string"])
        print(json.dumps({"pattern": rp["pattern"], "string": rp["string"], "fnmatch": b, "reference": want}))
        return 1 if b != want else 0
    if rp.get("kind") == "select":
        case = {"tree": rp["tree"], "filter": rp["filter"], "report": rp.get("report"), "via_argparse": rp.get("via_argparse", False)}
        obs, paths = run_case(case)
        hit = judge(case, obs, paths)
        print(json.dumps({"filter": rp["filter"], "observed": obs, "expected": reference(case["tree"], case["filter"], case["report"]),
                          "oracle": hit}, indent=1))
        return 1 if hit else 0
    print("nothing to replay in", path)
    return 2
