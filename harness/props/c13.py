"""C13 — suite discovery finds exactly the declared tests at the declared paths.
Model: coq/theories/Model/Loader.v ; theorems: Props/C13.v ; generator / writer / oracle: harness/gen_layouts.py.

Correspondence: seeded abstract source trees are written as real files into a scratch directory and loaded by the real
load_suites_from_directory (Metadata._next_rank preset); the loaded tree (names, descriptions, ranks, disabled, tags,
properties (in dict order), links, of every test and every suite; parameters, order; or the error class) is compared with
Model.Loader.load evaluated inside Coq on the same tree.
Oracle: independent Python enumeration of the declared visible tests with their declared metadata, and of the metadata
every suite declares (gen_layouts.expected / oracle)."""
import json

import lib
from lib import c_nat, c_opt, c_list, c_bool
import gen_layouts as G

F16_SIG = "hidden-module-companion-dir-loaded"
# behaviours the oracle points at which are NOT violations of C13 as stated (counted, reported in the evidence):
#  - a duplicate inside a hidden class/module is rejected as well (suites are loaded before the hidden ones are dropped);
#  - the list of top-level suites is not "one suite": load_suites_from_directory does not check it for duplicates.
OUT_OF_SCOPE = {"spurious-error:hidden-suite": "duplicate inside a hidden suite is rejected too",
                "duplicate-accepted:root": "top-level suites are not checked for duplicates by the loader"}

F16_WITNESS = {"name": "", "dirs": [{"name": "foo", "dirs": [], "mods": [
    {"file": "bar", "suite": None, "items": [{"k": "test", "attr": "u", "name": None, "desc": None, "cond": None,
                                              "disabled": False, "tags": [], "params": None}]}]}],
    "mods": [{"file": "foo", "suite": {"name": None, "desc": None, "rank": None, "cond": False, "tags": []},
              "items": [{"k": "test", "attr": "t", "name": None, "desc": None, "cond": None, "disabled": False,
                         "tags": [], "params": None}]}]}


# ----------------------------------------------------------------------------- Gallina printers
def c_str(s):
    return "[" + "; ".join("%d" % ord(ch) for ch in s) + "]%N"


def c_ostr(s):
    return c_opt(s, c_str)


def c_obool(b):
    return c_opt(b, c_bool)


def c_kv(kv):
    return "(%s, %s)" % (c_str(kv[0]), c_str(kv[1]))


def c_link(l):
    return "(%s, %s)" % (c_str(l[0]), c_ostr(l[1]))


def c_slink(l):
    return "LStr %s" % c_str(l) if isinstance(l, str) else "LPair %s %s" % (c_str(l[0]), c_ostr(l[1]))


def c_item(it):
    if it["k"] == "test":
        p = it["params"]
        if p is None:
            ps = "None"
        else:
            nm = "NDefault" if p["naming"] is None else "(NTable %s)" % c_list(p["naming"], lambda nd: "(%s, %s)" % (c_str(nd[0]), c_str(nd[1])))
            ps = "(Some (%s, %s))" % (c_list(p["values"], c_nat), nm)
        return ("ITest 0 {| t_attr := %s; t_name := %s; t_desc := %s; t_cond := %s; t_disabled := %s; t_tags := %s; "
                "t_props := %s; t_links := %s; t_params := %s |}"
                % (c_str(it["attr"]), c_ostr(it["name"]), c_ostr(it["desc"]), c_obool(it["cond"]), c_bool(bool(it["disabled"])),
                   c_list(it["tags"], c_str), c_list(G.props_of(it), c_kv), c_list(G.links_of(it), c_link), ps))
    return ("IClass 0 {| c_attr := %s; c_name := %s; c_desc := %s; c_rank := %s; c_cond := %s; c_disabled := %s; c_tags := %s; "
            "c_props := %s; c_links := %s |} %s"
            % (c_str(it["attr"]), c_ostr(it["name"]), c_ostr(it["desc"]), c_opt(it["rank"], c_nat), c_obool(it["cond"]),
               c_bool(bool(it["disabled"])), c_list(it["tags"], c_str), c_list(G.props_of(it), c_kv), c_list(G.links_of(it), c_link),
               c_list(it["body"], lambda x: "(%s)" % c_item(x))))


def c_mod(m):
    s = m["suite"]
    sd = "None" if s is None else ("(Some {| s_name := %s; s_desc := %s; s_rank := %s; s_cond := %s; s_tags := %s; "
                                   "s_props := %s; s_links := %s |})"
                                   % (c_ostr(s["name"]), c_ostr(s["desc"]), c_opt(s["rank"], c_nat), c_obool(s["cond"]),
                                      c_list(s["tags"], c_str), c_list(G.props_of(s), c_kv), c_list(G.links_of(s), c_slink)))
    return "{| m_file := %s; m_suite := %s; m_rank := 0; m_items := %s |}" % (c_str(m["file"]), sd, c_list(m["items"], lambda x: "(%s)" % c_item(x)))


def c_dir(d):
    return "Dir %s %s %s" % (c_str(d["name"]), c_list(d["mods"], c_mod), c_list(d["dirs"], lambda x: "(%s)" % c_dir(x)))


def c_ltest(t):
    return ("{| lt_name := %s; lt_desc := %s; lt_rank := %d; lt_disabled := %s; lt_tags := %s; lt_props := %s; lt_links := %s; "
            "lt_param := %s |}"
            % (c_str(t["name"]), c_str(t["desc"]), t["rank"], c_bool(t["disabled"]), c_list(t["tags"], c_str),
               c_list(t.get("props", []), c_kv), c_list(t.get("links", []), c_link), c_opt(t["param"], c_nat)))


def c_lsuite(s):
    meta = "{| md_tags := %s; md_props := %s; md_links := %s |}" % (c_list(s["tags"], c_str), c_list(s.get("props", []), c_kv),
                                                                   c_list(s.get("links", []), c_link))
    return "LSuite %s %s %d %s false %s %s %s" % (c_str(s["name"]), c_str(s["desc"]), s["rank"], c_bool(s["disabled"]),
                                                 meta, c_list(s["tests"], c_ltest),
                                                 c_list(s["suites"], lambda x: "(%s)" % c_lsuite(x)))


ERR_NAMES = ["DupTestDesc", "DupTestName", "DupSuiteDesc", "DupSuiteName"]


def c_expected(obs):
    if "ok" in obs:
        return "Ok %s" % c_list(obs["ok"], lambda x: "(%s)" % c_lsuite(x))
    return "Err %s" % ERR_NAMES[obs["err"]]


HEADER = """From Coq Require Import List Arith Bool NArith.
Import ListNotations.
From LCC Require Import Base.Util Model.Loader.
Definition strs_eqb := list_eqb str_eqb.
Definition props_eqb := list_eqb (pair_eqb str_eqb str_eqb).
Definition links_eqb := list_eqb (pair_eqb str_eqb (option_eqb str_eqb)).
Definition meta_eqb (a b : meta) : bool :=
  strs_eqb (md_tags a) (md_tags b) && props_eqb (md_props a) (md_props b) && links_eqb (md_links a) (md_links b).
Definition ltest_eqb (a b : ltest) : bool :=
  str_eqb (lt_name a) (lt_name b) && str_eqb (lt_desc a) (lt_desc b) && Nat.eqb (lt_rank a) (lt_rank b) &&
  Bool.eqb (lt_disabled a) (lt_disabled b) && strs_eqb (lt_tags a) (lt_tags b) && props_eqb (lt_props a) (lt_props b) &&
  links_eqb (lt_links a) (lt_links b) && option_eqb Nat.eqb (lt_param a) (lt_param b).
Fixpoint lsuite_eqb (a b : lsuite) : bool :=
  match a, b with
  | LSuite n1 d1 r1 di1 _ tg1 t1 s1, LSuite n2 d2 r2 di2 _ tg2 t2 s2 =>
      str_eqb n1 n2 && str_eqb d1 d2 && Nat.eqb r1 r2 && Bool.eqb di1 di2 && meta_eqb tg1 tg2 && list_eqb ltest_eqb t1 t2 &&
      (fix go (l1 l2 : list lsuite) : bool :=
         match l1, l2 with [], [] => true | x :: r, y :: s => lsuite_eqb x y && go r s | _, _ => false end) s1 s2
  end.
Definition err_eqb (a b : err) : bool :=
  match a, b with DupTestDesc, DupTestDesc | DupTestName, DupTestName | DupSuiteDesc, DupSuiteDesc | DupSuiteName, DupSuiteName => true
  | _, _ => false end.
Definition res_eqb (a b : result (list lsuite)) : bool :=
  match a, b with Ok x, Ok y => list_eqb lsuite_eqb x y | Err x, Err y => err_eqb x y | _, _ => false end.
Record case := { c_fixed : bool; c_rank0 : nat; c_tree : dir; c_exp : result (list lsuite) }.
Definition agrees (c : case) : bool := res_eqb (load (c_fixed c) (c_rank0 c) (c_tree c)) (c_exp c).
"""


def representable(obs):
    def ok_suite(s):
        return 0 <= s["rank"] < 5000 and all(0 <= t["rank"] < 5000 and (t["param"] is None or 0 <= t["param"] < 5000) for t in s["tests"]) \
            and all(ok_suite(x) for x in s["suites"])
    if "exc" in obs:
        return False
    return "err" in obs or all(ok_suite(s) for s in obs["ok"])


def cases_file(cases, fixed):
    body = ";\n  ".join("{| c_fixed := %s; c_rank0 := %d; c_tree := %s;\n     c_exp := %s |}" % (c_bool(fixed), r0, c_dir(tree), c_expected(obs))
                        for tree, r0, obs in cases)
    return HEADER + "Definition cases : list case := [\n  %s\n].\n" % body + \
        "Eval vm_compute in (find_indexes (fun c => negb (agrees c)) cases).\n"


def leaks(rank0=1):
    """does the loader under test still load the companion directory of a hidden module (F16)?"""
    obs = G.load_real(F16_WITNESS, rank0)
    hits = G.oracle(F16_WITNESS, obs)
    return any(s == F16_SIG for s, _ in hits), obs, hits


# ----------------------------------------------------------------------------- the check
def check(run):
    run.trusted += [
        "modelled, not verified: importlib / module execution order (decorators run in source order, class bodies before the class "
        "decorator, one global rank counter), dir() and inspect predicates (alphabetical attribute order, last definition wins), "
        "glob/listdir + sorted (sorting file paths = sorting names), str.capitalize/replace/format on ASCII, naming schemes as tables",
        "modelled, not verified: Python dict semantics (insertion order, d[k]=v on an existing key keeps its place, repeated keys "
        "of a {...} literal), bottom-up application of decorators; only well-typed metadata (str keys/values/urls) is generated",
        "not modelled: hooks, injected fixtures, dependencies, generated tests, class inheritance, import errors, metadata type "
        "checks (_check_test_tree_node_types), the text of the disabled reason, the sharing of the tags/properties/links objects "
        "between the copies of a parametrized test (copy.copy)",
    ]
    run.assume += ["module file names and directory names are distinct within one directory (file system)",
                   "C13_exact / C13_hidden_omitted are theorems about the loader WITH fixes/F16-*.patch (model variant fixed=true); "
                   "for the loader before the fix C13_hidden_omitted_refuted is the witness, replayed on the real code on every run",
                   "C13_order: declaration order is proved for tests and for suite classes without rank=; classes with rank= and "
                   "module/directory suites are ordered by (rank, name) as written in the code"]
    run.prove(extra_targets=["theories/Base/Util.vo", "theories/Model/Loader.vo"])

    # ---- F16 (fixed in /repo): the code is compared with the FIXED variant of the model; the witness is replayed on every run
    # and a companion directory of a hidden module that is loaded again is a violation (it is no longer a known finding)
    leak, wobs, whits = leaks()
    fixed = True
    run.notes.append("F16 witness: companion directory of a hidden module is %s by the loader under test; model variant fixed=True"
                     % ("LOADED" if leak else "skipped"))
    for sig, text in whits:
        if sig not in OUT_OF_SCOPE:
            run.violation("oracle:" + sig, text, {"tree": F16_WITNESS, "rank0": 1, "observed": wobs})

    n = 700 if run.tier == "quick" else 20000
    cases = [(F16_WITNESS, 1, wobs)]
    for i in range(n):
        tree = G.gen_tree(run.rng, run.tier)
        rank0 = run.rng.choice([1, 1, run.rng.randint(0, 12), run.rng.randint(0, 12), 1000])
        # one layout in eight is loaded a second time after a first load that failed for a reason outside the suite files
        again = (i % 8 == 3)
        obs = G.load_real(tree, rank0, after_failed_load=again)
        if again:
            run.count("layouts_loaded_again_after_a_failed_first_load")
        if G.via_link(tree):
            run.count("layouts_loaded_through_a_symbolic_link_to_their_directory")
        run.evaluations += 1
        feats = G.features(tree)
        for f in feats:
            run.count("feature:" + f)
        kind = "ok" if "ok" in obs else ("err%d" % obs["err"] if "err" in obs else "exc")
        run.count("observation:" + kind)
        if "ok" in obs and obs["ok"] and (feats & {"companion-dir", "collapse", "nested-class", "parametrized", "dir-without-module"}):
            run.nontrivial.add(json.dumps(tree, sort_keys=True))
        for sig, text in G.oracle(tree, obs):
            if sig in OUT_OF_SCOPE:
                run.count("out-of-scope:" + sig)
                continue
            if any(h["signature"] == "oracle:" + sig for h in run.oracle_hits):
                continue
            small = G.shrink(tree, lambda t: any(s == sig for s, _ in G.oracle(t, G.load_real(t, rank0, after_failed_load=again))))
            run.violation("oracle:" + sig, text, {"tree": small, "rank0": rank0, "after_failed_load": again,
                                                  "observed": G.load_real(small, rank0, after_failed_load=again)})
        if representable(obs):
            cases.append((tree, rank0, obs))
        else:
            run.tie_broken("observation not representable", case={"tree": tree, "rank0": rank0}, impl=obs)
        if i < 2:
            run.sample({"tree": tree, "rank0": rank0, "observed": obs})

    if getattr(run, "model_ok", False):
        shards = [cases[i:i + 250] for i in range(0, len(cases), 250)]
        outs = run.coq_eval_many([("s%d" % k, cases_file(sh, fixed)) for k, sh in enumerate(shards)])
        for k, (rc, out) in enumerate(outs):
            bad = lib.parse_nat_list(out) if rc == 0 else None
            if bad is None:
                run.tie_broken("case file did not evaluate", detail=out[-1500:])
                continue
            for idx in bad[:2]:
                tree, rank0, obs = shards[k][idx]
                small = tree
                if not run.oracle_hits and len(run.broken) < 2:
                    small = G.shrink(tree, lambda t: model_disagrees(run, t, rank0, fixed), max_calls=25)
                run.tie_broken("Loader.load = tree loaded by load_suites_from_directory", case={"tree": small, "rank0": rank0},
                               impl=G.load_real(small, rank0))
    run.coverage["rule"] = ("seeded abstract source trees (gen_layouts.gen_tree: directories up to depth 3/4, modules with/without SUITE, "
                            "companion directories, directories without module, nested classes, single-class collapse and near misses, "
                            "hidden/visible_if/disabled/parametrized (0-3 values, default/table naming, csv form), explicit and colliding "
                            "ranks, shadowed attributes, @lcc.tags / @lcc.prop (repeated keys) / @lcc.link (named, unnamed, repeated) on "
                            "tests and classes, SUITE tags / properties / links (bare string and tuple entries), about 12% declared "
                            "duplicates) written as real files and loaded by the real loader "
                            "with Metadata._next_rank preset, compared with Model.Loader.load in Coq; non-trivial = loads at least one suite "
                            "and uses a companion directory, a collapse, nested classes, parametrized tests or a module-less directory")
    run.coverage["model_variant"] = "fixed=%s" % fixed
    run.coverage["out_of_scope_behaviours"] = OUT_OF_SCOPE


def model_disagrees(run, tree, rank0, fixed):
    obs = G.load_real(tree, rank0)
    if not representable(obs):
        return False
    rc, out = run.coq_eval("shrink", cases_file([(tree, rank0, obs)], fixed))
    bad = lib.parse_nat_list(out) if rc == 0 else None
    return bool(bad)


def replay(path):
    r = json.load(open(path))
    rp = r.get("replay") or (r.get("broken") or [{}])[0].get("case") or {}
    tree = rp.get("tree")
    if not tree:
        print("nothing to replay in", path)
        return 2
    rank0 = rp.get("rank0", 1)
    obs = G.load_real(tree, rank0, after_failed_load=bool(rp.get("after_failed_load")))
    hits = [h for h in G.oracle(tree, obs) if h[0] not in OUT_OF_SCOPE]
    print(json.dumps({"tree": tree, "rank0": rank0, "after_failed_load": bool(rp.get("after_failed_load")), "observed": obs,
                      "oracle": hits}, indent=1))
    sig = r.get("signature")
    return 1 if any("oracle:" + h[0] == sig for h in hits) or (hits and not sig) else 0
