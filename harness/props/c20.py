"""C20 — all views of a report agree on every test's outcome.
Models: coq/theories/Model/{Stats,Junit,Diff}.v ; proofs: Proofs/ViewsP.v ; theorems: Props/C20.v.

For seeded generated report descriptions (harness/gen_reports_views.py) the real lemoncheesecake objects are built and
  (a) the real JUnit backend writes a file which is parsed back (testcase children, suite counters, testsuites counters),
  (b) ReportStats.from_report,
  (c) Report.build_message with a template listing every variable,
  (d) the console summary printed by print_report_as_test_run (in process, and through `lcc report --short` on a saved report),
  (e) compute_diff on pairs (the second report is a mutation of the first),
are observed, printed as Gallina literals and compared inside Coq with the models.  The oracles (plain Python, independent of the
models) evaluate the property on the observations by enumerating the tests of the description.

The models and the translator (harness/tables_views.py) describe the code WITH the repairs F12, F13, F14, F18
(fixes/F12-*.patch ...): unfinished reports are judged like finished ones (every view returns, the counts agree, an in-progress
test has no JUnit child).  The witnesses of these four defects are kept under "fixed" in known_findings.d/C20.json and replayed on
every run: a fixed entry suppresses nothing, so a tree without a repair is reported with the concrete witness."""
import contextlib
import copy
import io
import json
import os
import random
import re
import shutil
import sys
import tempfile
import time
import xml.etree.ElementTree as ET

import lib
from lib import c_str, c_Z, c_opt, c_list, c_bool, c_nat
import gen_reports_views as G

STATUSES = ["passed", "failed", "skipped", "disabled"]
ALL_ST = [None] + STATUSES
ERRS = {"TypeError": "TypeError", "KeyError": "KeyError", "IndexError": "IndexError"}
MSG_VARS = ["total", "enabled", "passed", "passed_pct", "failed", "failed_pct", "skipped", "skipped_pct", "disabled",
            "disabled_pct"]
TEMPLATE = "{start_time}|{end_time}|{duration}|" + "|".join("{%s}" % v for v in MSG_VARS)
# (statuses, enabled, disabled) of a ResultFilter; the first one is the empty (falsy) filter
FILTERS = [([], False, False), (["passed"], False, False), (["failed", "skipped"], False, False), ([], True, False),
           ([], False, True), (["failed"], True, False)]
VIEWS = ["junit", "stats", "message", "console", "from_suites", "diff"]
ANSI = re.compile(r"\x1b\[[0-9;]*m")
KNOWN_FINDINGS = os.path.join(lib.ROOT, "known_findings.d", "C20.json")


# ----------------------------------------------------------------------------- running the implementation
def _exc(e):
    return ["err", type(e).__name__]


def obs_junit(report, tmp):
    from lemoncheesecake.reporting.backends import junit
    path = os.path.join(tmp, "report-junit.xml")
    try:
        junit.save_report_into_file(report, path)
    except Exception as e:
        return _exc(e)
    root = ET.parse(path).getroot()
    assert root.tag == "testsuites", root.tag
    extra = set(root.attrib) - {"tests", "failures", "time"}
    assert not extra, extra
    suites = []
    for s in root:
        assert s.tag == "testsuite" and set(s.attrib) == {"name", "tests", "failures", "skipped", "time", "timestamp"}, s.attrib
        cases = []
        for c in s:
            assert c.tag == "testcase", c.tag
            cases.append([c.attrib["name"], [k.tag for k in c]])
        suites.append([s.attrib["name"], int(s.attrib["tests"]), int(s.attrib["failures"]), int(s.attrib["skipped"]), cases])
    return ["ok", int(root.attrib["tests"]), int(root.attrib["failures"]), "time" in root.attrib, suites]


def _ms(x):
    return None if x is None else int(round(x * 1000))


def obs_stats(report):
    from lemoncheesecake.reporting import ReportStats
    try:
        st = ReportStats.from_report(report)
    except Exception as e:
        return _exc(e)
    assert list(st.tests_nb_by_status) == STATUSES
    return ["ok", st.tests_nb, [st.tests_nb_by_status[s] for s in STATUSES], _ms(st.duration), _ms(st.duration_cumulative),
            st.tests_enabled_nb]


def obs_message(report):
    try:
        text = report.build_message(TEMPLATE)
    except Exception as e:
        return _exc(e)
    parts = text.split("|")
    assert len(parts) == 3 + len(MSG_VARS), text
    vals = []
    for name, p in zip(MSG_VARS, parts[3:]):
        if name.endswith("_pct"):
            assert p.endswith("%"), p
            p = p[:-1]
        vals.append(int(p))
    # duration reads "n/a" when the report has no duration (F14 repaired); start_time / end_time are asctime(localtime(t)),
    # the current time when t is None: clock-dependent text without outcome, not compared
    return ["ok", vals, [int(parts[2] != "n/a")]]


def parse_console(out):
    """(labels per displayed suite, summary numbers) from the text printed by print_report_as_test_run."""
    out = ANSI.sub("", out)
    if "No test found or no matching test in the report" in out:
        return ["none"]
    groups = []
    summ = {}
    for line in out.split("\n"):
        m = re.match(r"^ (OK|KO|--) +(\d+) # ", line)
        if m:
            if int(m.group(2)) == 1:
                groups.append([])
            groups[-1].append({"OK": 0, "KO": 1, "--": 2}[m.group(1)])
            continue
        m = re.match(r"^ \* (Duration|Tests|Successes|Failures|Skipped|Disabled): (.*)$", line)
        if m:
            summ[m.group(1)] = m.group(2)
    if "Tests" not in summ:
        return ["nosummary", groups]
    ms = re.match(r"^(\d+) \((-?\d+)%\)$", summ["Successes"])
    return ["ok", groups, [0 if summ["Duration"] == "n/a" else 1, int(summ["Tests"]), int(ms.group(1)), int(ms.group(2)),
                           int(summ["Failures"]), int(summ.get("Skipped", -1)), int(summ.get("Disabled", -1))]]


def make_filter(f):
    from lemoncheesecake.filter import ResultFilter
    return ResultFilter(statuses=f[0] or None, enabled=f[1], disabled=f[2])


def obs_console(report, f):
    from lemoncheesecake.reporting.backends.console import print_report_as_test_run
    buf = io.StringIO()
    try:
        with contextlib.redirect_stdout(buf):
            print_report_as_test_run(report, make_filter(f))
    except Exception as e:
        return _exc(e)
    return parse_console(buf.getvalue())


def obs_from_suites(report, f):
    """ReportStats.from_suites on the filtered suites, called directly (also reaches the empty selection)."""
    from lemoncheesecake.reporting import ReportStats
    from lemoncheesecake.testtree import filter_suites
    try:
        st = ReportStats.from_suites(filter_suites(report.get_suites(), make_filter(f)), report.parallelized)
    except Exception as e:
        return _exc(e)
    return ["ok", st.tests_nb, [st.tests_nb_by_status[s] for s in STATUSES], _ms(st.duration), _ms(st.duration_cumulative),
            st.tests_enabled_nb]


def obs_console_cli(report, f, tmp):
    """The same through the command line on a report saved by the json backend."""
    from lemoncheesecake.reporting.backends.json_ import save_report_into_file
    from lemoncheesecake.cli import main
    d = tempfile.mkdtemp(dir=tmp)
    save_report_into_file(report, os.path.join(d, "report.js"))
    args = ["report", d, "--short"]
    for s in f[0]:
        args.append("--" + s)
    if f[1]:
        args.append("--enabled")
    if f[2]:
        args.append("--disabled")
    buf = io.StringIO()
    try:
        with contextlib.redirect_stdout(buf), contextlib.redirect_stderr(io.StringIO()):
            rc = main(args)
    except SystemExit as e:
        return ["exit", str(e.code)]
    except Exception as e:
        return _exc(e)
    if rc != 0:
        return ["rc", rc]
    return parse_console(buf.getvalue())


def obs_diff(rep1, rep2, f):
    from lemoncheesecake.cli.commands.diff import compute_diff
    flt = make_filter(f)
    t1 = [t for t in rep1.all_tests() if flt(t)]
    t2 = [t for t in rep2.all_tests() if flt(t)]
    d = compute_diff(t1, t2)
    changed = [[s1, s2, [t.path for t in ts]] for s1, by in d.status_changed.items() for s2, ts in by.items()]
    return {"added": [[t.path, t.status] for t in d.added], "removed": [[t.path, t.status] for t in d.removed],
            "changed": changed, "is_empty": d.is_empty(), "n1": len(t1), "n2": len(t2)}


def observe(desc, tmp, cli=False, warm=False):
    if (warm or desc.get("_live")) and len(desc["suites"]) >= 2:
        # a LIVE report: the views have already been asked for when the report only held its first suite (intermediate saves of
        # a run do that), then the report grew; what is observed below must describe the report as it is NOW
        d0 = dict(desc)
        d0["suites"] = desc["suites"][:1]
        rep = G.build_report(d0)
        obs_junit(rep, tmp), obs_stats(rep), obs_message(rep), [obs_console(rep, f) for f in FILTERS[:1]]
        for sd in desc["suites"][1:]:
            rep.add_suite(G._build_suite(sd))
    else:
        rep = G.build_report(desc)
    o = {"junit": obs_junit(rep, tmp), "stats": obs_stats(rep), "message": obs_message(rep),
         "console": [obs_console(rep, f) for f in FILTERS], "fsuites": [obs_from_suites(rep, f) for f in FILTERS]}
    if cli:
        o["cli"] = [obs_console_cli(rep, f, tmp) for f in FILTERS]
    return o


# ----------------------------------------------------------------------------- oracles (independent of the model)
def _unsuccessful(res):
    return any((l[0] == "log" and l[1] == "error") or (l[0] == "check" and l[2] is False)
               for s in res["steps"] for l in s["logs"])


def _verdict_consistent(res):
    """what the report writer guarantees for a finished result; None status = in progress (always producible)"""
    st = res["status"]
    if st is None:
        return True
    if st in ("skipped", "disabled"):
        return not res["steps"]
    return (st == "failed") == _unsuccessful(res)


def _suites_of(desc):
    out = []

    def rec(suites, prefix):
        for s in suites:
            p = prefix + [s["name"]]
            out.append((".".join(p), s))
            rec(s["suites"], p)
    rec(desc["suites"], [])
    return out


def _filter_match(f, status):
    return (not f[0] or status in f[0]) and (not f[1] or status != "disabled") and (not f[2] or status == "disabled")


def _pct(val, of):
    return val * 100 // of if of else 0


def _pct_signature(shown, val, of, what):
    """The known float-rounding symptom is narrow: the exact percentage is an integer and the display is one below it
    (29/50 -> 57%).  Anything else is a different violation."""
    if of and (val * 100) % of == 0 and shown == val * 100 // of - 1:
        return "pct:float-truncation"
    return "pct:wrong:" + what


def oracle(desc, o, producible):
    """Yields (signature, text).  `producible`: the description has the shape the report writer produces
    (gen_report wild=False), possibly unfinished; only then an exception of a view is a violation by itself."""
    tests = [t for _, t in G.all_tests(desc)]
    n = len(tests)
    by = {s: sum(1 for t in tests if t["result"]["status"] == s) for s in STATUSES}
    unfinished = desc["end"] is None
    tag = "unfinished" if unfinished else "finished"

    # ---- junit
    j = o["junit"]
    if j[0] == "err":
        if producible:
            yield ("junit:exception:%s:%s" % (j[1], tag), "the JUnit export raised %s" % j[1])
    else:
        shown = [(p, s) for p, s in _suites_of(desc) if s["tests"]]
        if [x[0] for x in j[4]] != [p for p, _ in shown]:
            yield ("junit:suites", "the JUnit file does not list exactly the suites that have tests")
        else:
            for (name, nt, nf, ns, cases), (p, s) in zip(j[4], shown):
                sts = [t["result"]["status"] for t in s["tests"]]
                if nt != len(sts) or nf != sts.count("failed") or ns != sts.count("skipped"):
                    yield ("junit:counters", "testsuite %r says tests=%d failures=%d skipped=%d, enumeration gives %d/%d/%d" %
                           (name, nt, nf, ns, len(sts), sts.count("failed"), sts.count("skipped")))
                if [c[0] for c in cases] != [t["name"] for t in s["tests"]]:
                    yield ("junit:testcases", "testsuite %r does not list exactly its tests" % name)
                    continue
                for (cname, children), t in zip(cases, s["tests"]):
                    res = t["result"]
                    if not _verdict_consistent(res):
                        continue   # not a report the writer can produce: no claim
                    has_fail = any(c in ("failure", "error") for c in children)
                    if has_fail != (res["status"] == "failed"):
                        yield ("junit:failure-child:status=%s" % res["status"],
                               "testcase %s.%s has %s failure/error child but its status is %r (suite failures=%d)" %
                               (name, cname, "a" if has_fail else "no", res["status"], nf))
                    if ("skipped" in children) != (res["status"] == "skipped"):
                        yield ("junit:skipped-child:status=%s" % res["status"], "testcase %s.%s skipped child vs status %r" %
                               (name, cname, res["status"]))
                nfail_children = sum(1 for c in cases if any(k in ("failure", "error") for k in c[1]))
                if all(_verdict_consistent(t["result"]) for t in s["tests"]) and nfail_children != nf:
                    yield ("junit:counter-vs-children", "testsuite %r failures=%d but %d testcases carry a failure" %
                           (name, nf, nfail_children))
        if j[2] != by["failed"]:
            yield ("junit:top-failures", "testsuites failures=%d, enumeration gives %d" % (j[2], by["failed"]))

    # ---- stats
    s = o["stats"]
    if s[0] == "err":
        if producible:
            yield ("stats:exception:%s:%s" % (s[1], tag), "ReportStats.from_report raised %s" % s[1])
    else:
        if s[1] != n or s[2] != [by[x] for x in STATUSES] or s[5] != by["passed"] + by["failed"] + by["skipped"]:
            yield ("stats:counts", "ReportStats says %r, enumeration gives %d %r" % (s[1:3], n, by))

    # ---- message variables
    m = o["message"]
    enabled = by["passed"] + by["failed"] + by["skipped"]
    if m[0] == "err":
        if producible:
            yield ("message:exception:%s:%s" % (m[1], tag), "Report.build_message raised %s on a%s report" %
                   (m[1], "n unfinished" if unfinished else " finished"))
    else:
        v = dict(zip(MSG_VARS, m[1]))
        want = {"total": n, "enabled": enabled, "passed": by["passed"], "failed": by["failed"], "skipped": by["skipped"],
                "disabled": by["disabled"]}
        if m[2][0] != int(desc["end"] is not None and desc["start"] is not None):
            yield ("message:duration-na", "duration variable %s although report start=%r end=%r" %
                   ("is a duration" if m[2][0] else "reads n/a", desc["start"], desc["end"]))
        if any(v[k] != want[k] for k in want):
            yield ("message:counts", "message variables %r, enumeration gives %r" % (v, want))
        else:
            wantp = {"passed_pct": _pct(by["passed"], enabled), "failed_pct": _pct(by["failed"], enabled),
                     "skipped_pct": _pct(by["skipped"], enabled), "disabled_pct": _pct(by["disabled"], n)}
            ofs = {"passed_pct": ("passed", enabled), "failed_pct": ("failed", enabled), "skipped_pct": ("skipped", enabled),
                   "disabled_pct": ("disabled", n)}
            for k in wantp:
                if v[k] != wantp[k]:
                    yield (_pct_signature(v[k], by[ofs[k][0]], ofs[k][1], k),
                           "%s shows %d%% where floor(100*count/of) is %d%% (counts %r)" % (k, v[k], wantp[k], want))

    # ---- console
    for key in ("console", "cli"):
        for f, c in zip(FILTERS, o.get(key, [])):
            sel = [t["result"]["status"] for t in tests if _filter_match(f, t["result"]["status"])]
            fname = "nofilter" if not any(f) else "filter"
            if c[0] == "err":
                if producible:
                    yield ("console-%s:exception:%s:%s" % (fname, c[1], tag),
                           "the console report (%s, filter %r) raised %s on a%s report" %
                           (key, f, c[1], "n unfinished" if unfinished else " finished"))
                continue
            if c[0] == "none":
                if sel:
                    yield ("console:no-test", "console says no test although %d tests match %r" % (len(sel), f))
                continue
            if c[0] != "ok":
                yield ("console:unparsed:" + c[0], "console output not understood: %r" % (c,))
                continue
            labels = [x for g in c[1] for x in g]
            want_labels = [0 if st == "passed" else 1 if st == "failed" else 2 for st in sel]
            if labels != want_labels:
                yield ("console:labels", "console OK/KO/-- lines %r, statuses %r (filter %r)" % (labels, sel, f))
            nums = c[2]
            wb = {x: sel.count(x) for x in STATUSES}
            want = [len(sel), wb["passed"], wb["failed"], wb["skipped"] or -1, wb["disabled"] or -1]
            got = [nums[1], nums[2], nums[4], nums[5], nums[6]]
            if got != want:
                yield ("console:counts", "console summary (tests, successes, failures, skipped, disabled)=%r, enumeration %r "
                                         "(filter %r)" % (got, want, f))
            elif nums[3] != _pct(wb["passed"], wb["passed"] + wb["failed"] + wb["skipped"]):
                yield (_pct_signature(nums[3], wb["passed"], wb["passed"] + wb["failed"] + wb["skipped"], "console-successes"),
                       "console successes %d%% where floor is %d%% (filter %r)" %
                       (nums[3], _pct(wb["passed"], wb["passed"] + wb["failed"] + wb["skipped"]), f))


def oracle_diff(desc1, desc2, f, d):
    """diff partition on what compute_diff returned (paths are unique in generated reports)"""
    l1 = [(".".join(p), t["result"]["status"]) for p, t in G.all_tests(desc1) if _filter_match(f, t["result"]["status"])]
    l2 = [(".".join(p), t["result"]["status"]) for p, t in G.all_tests(desc2) if _filter_match(f, t["result"]["status"])]
    d1, d2 = dict(l1), dict(l2)
    assert len(d1) == len(l1) and len(d2) == len(l2)
    added = [p for p, _ in d["added"]]
    removed = [p for p, _ in d["removed"]]
    changed = [(s1, s2, p) for s1, s2, ps in d["changed"] for p in ps]
    chp = [p for _, _, p in changed]
    everything = added + removed + chp
    if len(set(everything)) != len(everything):
        yield ("diff:classified-twice", "a test is reported twice by compute_diff")
    for p in set(d1) | set(d2):
        cls = []
        if p in added:
            cls.append("added")
        if p in removed:
            cls.append("removed")
        if p in chp:
            cls.append("changed")
        want = "added" if p not in d1 else "removed" if p not in d2 else "changed" if d1[p] != d2[p] else None
        if cls != ([want] if want else []):
            yield ("diff:misclassified:%s-as-%s" % (want or "unchanged", "+".join(cls) or "unchanged"),
                   "test %s is %s but reported as %r" % (p, want or "unchanged", cls))
            break
    for s1, s2, p in changed:
        if p in d1 and p in d2 and (d1[p], d2[p]) != (s1, s2):
            yield ("diff:wrong-statuses", "status change of %s reported as %r => %r, is %r => %r" % (p, s1, s2, d1[p], d2[p]))
    for p, s in d["added"]:
        if d2.get(p) != s:
            yield ("diff:wrong-status-added", "added test %s status" % p)
    if d["is_empty"] != (not everything):
        yield ("diff:is-empty", "Diff.is_empty() disagrees with its content")
    if (desc1 is desc2 or desc1 == desc2) and everything:
        yield ("diff:self-not-empty", "the diff of a report with itself is not empty")


# ----------------------------------------------------------------------------- smaller inputs (case-file size = Coq parsing time)
def _short(x):
    """Free texts (descriptions, messages, details, tags, ...) do not influence any view of the outcome: keep their
    None / empty / non-empty nature and their first characters only."""
    return x if x is None else x[:3]


def slim(desc, keep_steps=True):
    d = copy.deepcopy(desc)

    def meta(m):
        m["description"] = _short(m["description"])
        m["tags"] = [_short(t) for t in m["tags"][:1]]
        m["properties"] = [[_short(k), _short(v)] for k, v in m["properties"][:1]]
        m["links"] = [[_short(u), _short(n)] for u, n in m["links"][:1]]

    def result(r):
        if r is None:
            return
        r["status_details"] = _short(r["status_details"])
        if not keep_steps:
            r["steps"] = []
        for st in r["steps"]:
            st["description"] = _short(st["description"])
            for l in st["logs"]:
                if l[0] == "log":
                    l[2] = _short(l[2])
                elif l[0] == "check":
                    l[1], l[3] = _short(l[1]), _short(l[3])
                else:
                    l[1], l[2] = _short(l[1]), _short(l[2])

    def suites(ss):
        for s_ in ss:
            meta(s_)
            result(s_["setup"])
            result(s_["teardown"])
            for t in s_["tests"]:
                meta(t)
                result(t["result"])
            suites(s_["suites"])
    d["title"] = _short(d["title"])
    d["info"] = [[_short(k), _short(v)] for k, v in d["info"][:1]]
    result(d["setup"])
    result(d["teardown"])
    suites(d["suites"])
    return d


# ----------------------------------------------------------------------------- mutation of a description (second report of a diff)
def mutate(rng, desc):
    d = copy.deepcopy(desc)
    clock = G._Clock(rng)

    def rec(suites, depth):
        if suites and rng.random() < 0.15:
            suites.pop(rng.randrange(len(suites)))
        for s in suites:
            ts = s["tests"]
            for t in list(ts):
                x = rng.random()
                if x < 0.15:
                    ts.remove(t)
                elif x < 0.45:
                    t["result"]["status"] = rng.choice(ALL_ST)
            used = {t["name"] for t in ts}
            for _ in range(rng.choice([0, 0, 1, 2])):
                ts.insert(rng.randint(0, len(ts)), G._test(rng, clock, used, False))
            if rng.random() < 0.2:
                rng.shuffle(ts)
            rec(s["suites"], depth + 1)
        if rng.random() < 0.2:
            used = {s["name"] for s in suites}
            suites.insert(rng.randint(0, len(suites)), G._suite(rng, clock, G._SIZES["small"], used, 3, False))
        if rng.random() < 0.15:
            rng.shuffle(suites)
    rec(d["suites"], 1)
    return d


# ----------------------------------------------------------------------------- shrinking
def _shrink_candidates(desc):
    """Smaller descriptions (one deletion each)."""
    def paths(suites, prefix):
        for i, s in enumerate(suites):
            yield prefix + [i]
            yield from paths(s["suites"], prefix + [i])

    def get(d, path):
        suites = d["suites"]
        for i in path[:-1]:
            suites = suites[i]["suites"]
        return suites, path[-1]
    for p in list(paths(desc["suites"], [])):
        d = copy.deepcopy(desc)
        suites, i = get(d, p)
        del suites[i]
        yield d
    for p in list(paths(desc["suites"], [])):
        suites, i = get(desc, p)
        s = suites[i]
        for k in range(len(s["tests"])):
            d = copy.deepcopy(desc)
            ss, i2 = get(d, p)
            del ss[i2]["tests"][k]
            yield d
        for key in ("setup", "teardown"):
            if s[key] is not None:
                d = copy.deepcopy(desc)
                ss, i2 = get(d, p)
                ss[i2][key] = None
                yield d
        for k, t in enumerate(s["tests"]):
            for si in range(len(t["result"]["steps"])):
                d = copy.deepcopy(desc)
                ss, i2 = get(d, p)
                del ss[i2]["tests"][k]["result"]["steps"][si]
                yield d
    for key in ("setup", "teardown"):
        if desc[key] is not None:
            d = copy.deepcopy(desc)
            d[key] = None
            yield d


def shrink(desc, pred, budget=400):
    changed = True
    while changed and budget > 0:
        changed = False
        for cand in _shrink_candidates(desc):
            budget -= 1
            if budget <= 0:
                break
            try:
                if pred(cand):
                    desc, changed = cand, True
                    break
            except Exception:
                pass
    return desc


def signatures_of(desc, tmp, producible, cli=False):
    o = observe(desc, tmp, cli)
    return [sig for sig, _ in oracle(desc, o, producible)], o


# ----------------------------------------------------------------------------- Gallina
def c_verr(o, f):
    if o[0] == "err":
        return "VErr %s" % ERRS[o[1]]
    return "VOk %s" % f(o)


def c_junit(o):
    def cs(s):
        return "(%s, (%d, %d, %d), %s)" % (c_str(s[0]), s[1], s[2], s[3], c_list(s[4], lambda c: "(%s, %s)" % (
            c_str(c[0]), c_list(c[1], lambda k: str({"failure": 0, "error": 1, "skipped": 2}[k])))))
    return c_verr(o, lambda o: "(%d, %d, %s, %s)" % (o[1], o[2], c_bool(o[3]), c_list(o[4], cs)))


def c_stats(o):
    return c_verr(o, lambda o: "(%d, %s, %s, %s)" % (o[1], c_list(o[2], str), c_opt(o[3], c_Z), c_Z(o[4])))


def c_message(o):
    return c_verr(o, lambda o: c_list(o[1] + o[2], c_Z))


def c_console(o):
    if o[0] == "none":
        return "VOk None"
    if o[0] == "err":
        return "VErr %s" % ERRS[o[1]]
    return "VOk (Some (%s, %s))" % (c_list(o[1], lambda g: c_list(g, str)), c_list(o[2], c_Z))


def c_filter(f):
    return "mkFilter %s %s %s" % (c_list(f[0], c_str), c_bool(f[1]), c_bool(f[2]))


HEADER = """From Coq Require Import List NArith ZArith Bool Arith.
Import ListNotations.
From LCC Require Import Base.Util Model.Report Model.Stats Model.Junit Model.Diff.
Definition verr_eqb (a b : verr) : bool :=
  match a, b with TypeError, TypeError | KeyError, KeyError | IndexError, IndexError => true | _, _ => false end.
Definition vres_eqb {A} (eq : A -> A -> bool) (a b : vres A) : bool :=
  match a, b with VOk x, VOk y => eq x y | VErr e, VErr f => verr_eqb e f | _, _ => false end.
Definition vres_map {A B} (f : A -> B) (a : vres A) : vres B := match a with VOk x => VOk (f x) | VErr e => VErr e end.
Definition lnat_eqb := list_eqb Nat.eqb.
Definition lZ_eqb := list_eqb Z.eqb.
Definition child_code (c : jchild) : nat := match c with JFailure => 0 | JError => 1 | JSkipped => 2 end.
Definition label_code (l : label) : nat := match l with LOK => 0 | LKO => 1 | LDash => 2 end.
Definition Zn (n : nat) : Z := Z.of_nat n.
Definition onat (o : option nat) : Z := match o with Some n => Zn n | None => (-1)%Z end.

Definition jobs : Type := nat * nat * bool * list (str * (nat * nat * nat) * list (str * list nat)).
Definition model_junit (r : report) : vres jobs :=
  vres_map (fun j => (jr_tests j, jr_failures j, jr_has_time j,
                      map (fun s => (js_name s, (js_tests s, js_failures s, js_skipped s),
                                     map (fun c => (jc_name c, map child_code (jc_children c))) (js_cases s))) (jr_suites j)))
           (junit_report r).
Definition jobs_eqb : jobs -> jobs -> bool :=
  pair_eqb (pair_eqb (pair_eqb Nat.eqb Nat.eqb) Bool.eqb)
           (list_eqb (pair_eqb (pair_eqb str_eqb (pair_eqb (pair_eqb Nat.eqb Nat.eqb) Nat.eqb))
                               (list_eqb (pair_eqb str_eqb lnat_eqb)))).

Definition sobs : Type := nat * list nat * option Z * Z.
Definition model_stats (r : report) : vres sobs :=
  vres_map (fun s => let c := st_by s in
                     (st_tests_nb s, [n_passed c; n_failed c; n_skipped c; n_disabled c], st_duration s, st_duration_cumulative s))
           (from_report r).
Definition sobs_eqb : sobs -> sobs -> bool :=
  pair_eqb (pair_eqb (pair_eqb Nat.eqb lnat_eqb) (option_eqb Z.eqb)) Z.eqb.

Definition model_message (r : report) : vres (list Z) :=
  vres_map (fun m => let p := message_pcts m in
                     [Zn (mv_total m); Zn (mv_enabled m); Zn (mv_passed m); p_passed p; Zn (mv_failed m); p_failed p;
                      Zn (mv_skipped m); p_skipped p; Zn (mv_disabled m); p_disabled p;
                      match mv_duration m with Some _ => 1%Z | None => 0%Z end])
           (message_ints r).

Definition cobs : Type := option (list (list nat) * list Z).
Definition model_console (r : report) (f : rfilter) : vres cobs :=
  vres_map (fun c => match c with
                     | CNoTest => None
                     | COut lines s =>
                         let sm := summary_of s in
                         Some (map (map label_code) lines,
                               [match sm_duration sm with None => 0%Z | Some _ => 1%Z end; Zn (sm_tests sm); Zn (sm_passed sm);
                                summary_pct s; Zn (sm_failed sm); onat (sm_skipped sm); onat (sm_disabled sm)])
                     end)
           (console_short (rf_truthy f) (rf_apply f) r).
Definition cobs_eqb : cobs -> cobs -> bool := option_eqb (pair_eqb (list_eqb lnat_eqb) lZ_eqb).

Definition model_fsuites (r : report) (f : rfilter) : vres sobs :=
  vres_map (fun s => let c := st_by s in
                     (st_tests_nb s, [n_passed c; n_failed c; n_skipped c; n_disabled c], st_duration s, st_duration_cumulative s))
           (from_suites (filter_suites (rf_apply f) (rp_suites r)) (parallelized r)).
Record case := mkC { c_r : report; c_junit : vres jobs; c_stats : vres sobs; c_msg : vres (list Z);
                     c_cons : list (rfilter * vres cobs); c_fs : list (rfilter * vres sobs) }.
Definition ok_junit (c : case) := vres_eqb jobs_eqb (model_junit (c_r c)) (c_junit c).
Definition ok_stats (c : case) := vres_eqb sobs_eqb (model_stats (c_r c)) (c_stats c).
Definition ok_msg (c : case) := vres_eqb lZ_eqb (model_message (c_r c)) (c_msg c).
Definition ok_cons (c : case) := forallb (fun fo => vres_eqb cobs_eqb (model_console (c_r c) (fst fo)) (snd fo)) (c_cons c).
Definition ok_fs (c : case) := forallb (fun fo => vres_eqb sobs_eqb (model_fsuites (c_r c) (fst fo)) (snd fo)) (c_fs c).

Definition dt_eqb : dtest -> dtest -> bool := pair_eqb str_eqb status_eqb.
Record dcase := mkD { d_r1 : report; d_r2 : report; d_f : rfilter; d_add : list dtest; d_rem : list dtest;
                      d_groups : list (option str * option str * list str); d_empty : bool }.
Definition all_status : list (option str) := [None; Some s_passed; Some s_failed; Some s_skipped; Some s_disabled].
Definition ok_diff (c : dcase) : bool :=
  let d := diff_reports (rf_apply (d_f c)) (d_r1 c) (d_r2 c) in
  list_eqb dt_eqb (d_added d) (d_add c) && list_eqb dt_eqb (d_removed d) (d_rem c) &&
  Bool.eqb (diff_is_empty d) (d_empty c) &&
  (* every group of the implementation's nested dict is the model's group, and the sizes add up *)
  forallb (fun g => list_eqb str_eqb (changed_group d (fst (fst g)) (snd (fst g))) (snd g)) (d_groups c) &&
  Nat.eqb (length (d_changed d)) (fold_right (fun g acc => length (snd g) + acc) 0 (d_groups c)).
"""


def case_term(desc, o, with_cli):
    cons = list(zip(FILTERS, o["console"]))
    if with_cli and "cli" in o:
        cons += list(zip(FILTERS, o["cli"]))
    return "mkC (%s)\n (%s)\n (%s)\n (%s)\n %s\n %s" % (
        G.c_report(desc), c_junit(o["junit"]), c_stats(o["stats"]), c_message(o["message"]),
        c_list(cons, lambda fo: "(%s, %s)" % (c_filter(fo[0]), c_console(fo[1]))),
        c_list(list(zip(FILTERS, o["fsuites"])), lambda fo: "(%s, %s)" % (c_filter(fo[0]), c_stats(fo[1]))))


def dcase_term(d1, d2, f, d):
    cd = lambda t: "(%s, %s)" % (c_str(t[0]), c_opt(t[1], c_str))
    groups = c_list(d["changed"], lambda g: "(%s, %s, %s)" % (c_opt(g[0], c_str), c_opt(g[1], c_str), c_list(g[2], c_str)))
    return "mkD (%s)\n (%s)\n (%s) %s %s %s %s" % (G.c_report(d1), G.c_report(d2), c_filter(f), c_list(d["added"], cd),
                                                   c_list(d["removed"], cd), groups, c_bool(d["is_empty"]))


def cases_file(cases, dcases):
    t = HEADER
    t += "Definition cases : list case := [\n%s\n].\n" % ";\n".join(cases)
    t += "Definition dcases : list dcase := [\n%s\n].\n" % ";\n".join(dcases)
    for name in ("ok_junit", "ok_stats", "ok_msg", "ok_cons", "ok_fs"):
        t += "Eval vm_compute in (find_indexes (fun c => negb (%s c)) cases).\n" % name
    t += "Eval vm_compute in (find_indexes (fun c => negb (ok_diff c)) dcases).\n"
    return t


def parse_lists(out):
    res = []
    for m in re.finditer(r"=\s*(\[[^\]]*\]|nil)\s*:\s*list nat", out, re.S):
        body = m.group(1)
        if body == "nil":
            res.append([])
            continue
        body = body.strip()[1:-1].strip()
        res.append([int(x) for x in re.split(r"\s*;\s*", body)] if body else [])
    return res


def encodable(o):
    """Observations the case file can express (exceptions outside the enum are reported as a broken tie by the caller)."""
    for x in [o["junit"], o["stats"], o["message"]] + o["console"] + o.get("cli", []) + o["fsuites"]:
        if x[0] == "err" and x[1] not in ERRS:
            return "unexpected exception %s" % x[1]
        if x[0] not in ("ok", "err", "none"):
            return "unexpected observation %r" % (x[:2],)
    return None


# ----------------------------------------------------------------------------- known findings: witnesses replayed on every run
def load_known():
    """(entry, is_open) for the open findings and for the fixed ones: the witnesses of both are replayed on every run.
    lib.Run.finish only looks at "findings" to decide between KNOWN-FINDING and VIOLATION: a fixed entry suppresses nothing."""
    if not os.path.exists(KNOWN_FINDINGS):
        return []
    d = json.load(open(KNOWN_FINDINGS))
    return [(kf, True) for kf in d.get("findings", [])] + [(kf, False) for kf in d.get("fixed", [])]


def replay_witness(w, tmp):
    """Re-observe a witness {desc, producible}; returns the oracle signatures seen now."""
    sigs, o = signatures_of(w["desc"], tmp, w.get("producible", True), cli=w.get("cli", False))
    return sigs, o


# ----------------------------------------------------------------------------- the check
def check(run):
    run.trusted += [
        "modelled, not verified: xml.etree serialisation/parsing of the JUnit file (only tags, name/tests/failures/skipped "
        "attributes are compared), the time/timestamp/message attribute strings, humanize_duration, time.asctime",
        "modelled, not verified: Python int `*`, `//` on non-negative integers = Z multiplication / floor division "
        "(Model/Stats.v pct; compared with the implementation on every generated report and on the 29/50 witness)",
        "modelled, not verified: ResultFilter restricted to the status/enabled/disabled criteria (path, tag, property, link, "
        "grep criteria are not modelled; the theorems quantify over an arbitrary predicate on results)",
    ]
    run.assume += [
        "report timestamps are integer milliseconds in the range accepted by time.localtime",
        "the console summary is the text printed by print_report_as_test_run / `lcc report --short`; the live console of "
        "`lcc run` prints the same _print_summary(ReportStats.from_report(report))",
        "lcc top-* commands display durations, not outcomes: not part of C20",
    ]
    run.prove(extra_targets=["theories/Base/Util.vo", "theories/Model/Report.vo", "theories/Model/Stats.vo",
                             "theories/Model/Junit.vo", "theories/Model/Diff.vo"])
    tmp = tempfile.mkdtemp(prefix="lccverif_c20_")
    t_start = time.time()
    try:
        _check(run, tmp)
    finally:
        shutil.rmtree(tmp, ignore_errors=True)
    run.notes.append("correspondence + oracle in %.1fs" % (time.time() - t_start))


def _report_hit(run, sig, text, desc, tmp, producible, cli=False):
    if any(h["signature"] == sig for h in run.oracle_hits):
        return
    if cli and sig in signatures_of(desc, tmp, producible, False)[0]:
        cli = False                      # the in-process views show it: no need for the (slow) command line while shrinking
    small = shrink(desc, lambda c: sig in signatures_of(c, tmp, producible, cli)[0], budget=60 if cli else 200)
    sigs, o = signatures_of(small, tmp, producible, cli)
    texts = [t for s, t in oracle(small, o, producible) if s == sig]
    run.violation(sig, texts[0] if texts else text, {"desc": small, "producible": producible, "cli": cli,
                                                      "observed": {k: v for k, v in o.items() if k != "junit"},
                                                      "junit": o["junit"]})


def _check(run, tmp):
    rng = run.rng
    quick = run.tier == "quick"
    n = 240 if quick else 6000
    n_cli = 12 if quick else 300
    per_file = 20 if quick else 100
    # 1. witnesses of the known findings, open and fixed: re-observed now, on this tree
    wit_cases = []
    for kf, is_open in load_known():
        w = kf.get("witness") or {}
        if "desc" not in w:
            continue
        sigs, o = replay_witness(w, tmp)
        run.evaluations += 1
        # every oracle hit on a witness is a concrete failing input, first of all the entry's own signature
        for sig, txt in sorted(oracle(w["desc"], o, w.get("producible", True)), key=lambda st: st[0] != kf["signature"]):
            run.violation(sig, txt, {"desc": w["desc"], "producible": w.get("producible", True), "cli": w.get("cli", False)})
        if kf["signature"] in sigs:
            run.count("witness_still_failing")
        elif is_open:
            run.notes.append("known finding %s no longer observed on its witness" % kf["signature"])
        else:
            run.count("fixed_witness_passes")
        if not encodable(o):          # the witnesses are also correspondence cases (the 29/50 percentage case in particular)
            wit_cases.append((w["desc"], case_term(w["desc"], o, w.get("cli", False))))
    # 2. generated reports
    cases, dcases, descs, ddescs = [c for _, c in wit_cases], [], [d for d, _ in wit_cases], []
    for i in range(n):
        size = rng.choice(["small", "small", "medium", "medium", "large"] if not quick else
                          ["small"] * 11 + ["medium"] * 7 + ["large"] * 2)
        unfinished = rng.random() < 0.3
        wild = rng.random() < 0.3
        desc = G.gen_report(rng, size, unfinished=unfinished, wild=wild)
        if i % 10 != 9:
            desc = slim(desc)          # one report in ten keeps its full texts
        producible = not wild
        odd = False
        if wild and rng.random() < 0.25:
            ts = [t for _, t in G.all_tests(desc)]
            if ts:
                rng.choice(ts)["result"]["status"] = rng.choice(["", "bogus", "Passed"])
                odd = True
                run.count("reports_with_odd_status")
        with_cli = i < n_cli
        if len(desc["suites"]) >= 2 and rng.random() < 0.3:
            desc["_live"] = True          # observed as a live report that grew after its views had been computed once
            run.count("live_reports")
        o = observe(desc, tmp, cli=with_cli)
        run.evaluations += 1
        tests = [t for _, t in G.all_tests(desc)]
        run.count("reports")
        run.count("tests", len(tests))
        run.count("unfinished_reports", int(unfinished))
        run.count("wild_reports", int(wild))
        for t in tests:
            run.count("status_%s" % t["result"]["status"])
            if t["result"]["status"] is None and _unsuccessful(t["result"]):
                run.count("in_progress_tests_with_error")
        sts = {t["result"]["status"] for t in tests}
        if len(sts) >= 3 and len(tests) >= 4:
            run.nontrivial.add(i)
        for view in ("junit", "stats", "message"):
            if o[view][0] == "err":
                run.count("%s_raised_%s" % (view, o[view][1]))
        for c in o["console"]:
            if c[0] == "err":
                run.count("console_raised_%s" % c[1])
        for c in o["fsuites"]:
            if c[0] == "err":
                run.count("from_suites_raised_%s" % c[1])
        if not odd:          # a status outside Result.STATUSES is not a report: only the model correspondence is checked
            for sig, text in oracle(desc, o, producible):
                _report_hit(run, sig, text, desc, tmp, producible, with_cli)
        bad = encodable(o)
        if bad:
            run.tie_broken("views = model", case={"desc": desc}, detail=bad)
        else:
            cases.append(case_term(desc, o, with_cli))
            descs.append(desc)
        if i < 2:
            run.sample({"tests": [[".".join(p), t["result"]["status"]] for p, t in G.all_tests(desc)][:12],
                        "stats": o["stats"], "message": o["message"], "console_nofilter": o["console"][0],
                        "junit_top": o["junit"][:4]})
        # diff: against a mutation, against itself
        if i % 2 == 0:
            d1 = slim(desc, keep_steps=False)      # compute_diff only looks at paths and statuses
            d2 = d1 if i % 10 == 0 else slim(mutate(rng, d1), keep_steps=False)
            f = FILTERS[0] if rng.random() < 0.6 else rng.choice(FILTERS[1:])
            d = obs_diff(G.build_report(d1), G.build_report(d2), f)
            run.evaluations += 1
            run.count("diff_pairs")
            run.count("diff_added", len(d["added"]))
            run.count("diff_removed", len(d["removed"]))
            run.count("diff_changed", sum(len(g[2]) for g in d["changed"]))
            if d["added"] and d["removed"] and d["changed"]:
                run.nontrivial.add(("diff", i))
            for sig, text in oracle_diff(d1, d2, f, d):
                run.violation(sig, text, {"desc": d1, "desc2": d2, "filter": f, "diff": d})
            if all(g[0] in ALL_ST and g[1] in ALL_ST for g in d["changed"]):
                dcases.append(dcase_term(d1, d2, f, d))
                ddescs.append((d1, d2, f, d))
    # 3. the same inputs through the models, inside Coq
    run.notes.append("implementation runs + oracles done at +%.1fs" % (time.time() - run.t0))
    if getattr(run, "model_ok", False):
        files, index = [], []
        nd = max(1, per_file // 2)
        k = 0
        for a in range(0, max(len(cases), 1), per_file):
            b = (a // per_file) * nd
            files.append(("s%d" % k, cases_file(cases[a:a + per_file], dcases[b:b + nd])))
            index.append((a, b))
            k += 1
        rest = (len(cases) + per_file - 1) // per_file * nd
        for b in range(rest, len(dcases), nd * 2):
            files.append(("d%d" % k, cases_file([], dcases[b:b + nd * 2])))
            index.append((None, b))
            k += 1
        outs = run.coq_eval_many(files)
        names = VIEWS
        for (a, b), (rc, out) in zip(index, outs):
            lists = parse_lists(out) if rc == 0 else []
            if len(lists) != len(VIEWS):
                run.tie_broken("case file did not evaluate", detail=out[-2000:])
                continue
            for name, bad in zip(names, lists):
                for idx in bad[:1]:
                    if name == "diff":
                        d1, d2, f, d = ddescs[b + idx]
                        run.tie_broken("compute_diff = Model.Diff.compute_diff", case={"desc": d1, "desc2": d2, "filter": f},
                                       impl=d)
                    else:
                        desc = descs[a + idx]
                        # shrinking a model/implementation disagreement costs one coqc per candidate: only when no oracle
                        # hit already gives a concrete failing input, and only for the first two disagreements
                        n_corr = len([b for b in run.broken if b["kind"] == "correspondence"])
                        small = desc if (run.oracle_hits or n_corr >= 2) else \
                            shrink(desc, lambda c: _model_disagrees(run, c, tmp, name), budget=25)
                        o = observe(small, tmp)
                        run.tie_broken("%s view = model" % name, case={"desc": small, "view": name},
                                       impl=o[{"from_suites": "fsuites"}.get(name, name)])
    run.coverage["rule"] = (
        "the witnesses of the fixed findings F12, F13, F14, F18 (known_findings.d/C20.json) replayed first; then "
        "seeded report descriptions from harness/gen_reports_views.py (sizes small/medium/large, 30% unfinished runs judged "
        "like finished ones, 30% 'wild' inconsistent reports, all four statuses + in-progress, failures made of error logs only / failed checks only "
        "/ both, empty suites, setup-only suites, nested suites); every description is built as real Report objects and "
        "observed through the JUnit file, ReportStats, build_message, the console summary under 6 result filters (the first "
        "reports also through `lcc report --short` on a saved report) and, for every second one, compute_diff against a mutated "
        "copy or itself; non-trivial = a report with >= 4 tests and >= 3 distinct statuses, or a diff with added, removed and "
        "status-changed tests at once")


def _model_disagrees(run, desc, tmp, name=None):
    """name: one of VIEWS (not diff), or None for any view."""
    o = observe(desc, tmp)
    if encodable(o):
        return False
    rc, out = run.coq_eval("shrink", cases_file([case_term(desc, o, False)], []))
    lists = parse_lists(out) if rc == 0 else []
    if len(lists) != len(VIEWS):
        return False
    if name is None:
        return any(lists)
    return bool(lists[VIEWS.index(name)])


def replay(path):
    """Re-executes a replay file on the current tree: 1 if it still fails, 0 if not."""
    r = json.load(open(path))
    rp = r.get("replay") or {}
    tie = r.get("kind") == "no-failing-input-found"
    if "desc" not in rp:
        cands = [b.get("case") for b in (r.get("broken") or []) if isinstance(b.get("case"), dict) and "desc" in b["case"]]
        rp = cands[0] if cands else {}
    if "desc" not in rp:
        print("nothing to replay in", path, "(broken proof / translator: run ./check C20)")
        return 2
    tmp = tempfile.mkdtemp(prefix="lccverif_c20_")
    try:
        if "desc2" in rp:
            f = rp.get("filter", FILTERS[0])
            d = obs_diff(G.build_report(rp["desc"]), G.build_report(rp["desc2"]), f)
            hits = list(oracle_diff(rp["desc"], rp["desc2"], f, d))
            print(json.dumps({"diff": d, "oracle": hits}, indent=1))
            if tie:
                run = lib.Run("C20", "quick", 0)
                rc, out = run.coq_eval("replay", cases_file([], [dcase_term(rp["desc"], rp["desc2"], f, d)]))
                shutil.rmtree(run.scratch, ignore_errors=True)
                lists = parse_lists(out) if rc == 0 else []
                print("model/implementation disagreement:", lists)
                return 1 if len(lists) != len(VIEWS) or any(lists) else 0
        else:
            o = observe(rp["desc"], tmp, cli=rp.get("cli", False))
            hits = list(oracle(rp["desc"], o, rp.get("producible", True)))
            print(json.dumps({"observed": o, "oracle": hits}, indent=1, default=str))
            if tie:
                # no oracle signature to look for: the question is whether model and implementation still disagree
                run = lib.Run("C20", "quick", 0)
                bad = _model_disagrees(run, rp["desc"], tmp)
                shutil.rmtree(run.scratch, ignore_errors=True)
                print("model/implementation disagreement:", bad)
                return 1 if bad else 0
    finally:
        shutil.rmtree(tmp, ignore_errors=True)
    want = r.get("signature")
    if want:
        return 1 if any(s == want for s, _ in hits) else 0
    return 1 if hits else 0
