"""C09 — saved reports load back unchanged (JSON and XML).
Model: Model/{Json,Xml,Time,CodecFile}.v + gen/TablesCodec.v (translated from the backends by tables_codec.py);
theorems: Props/C09.v.  This module: correspondence (tree level, file level, text layer, time codec), independent
oracle, replay of the known XML findings."""
import copy
import decimal
import io
import json
import os
import re
import shutil
import sys
import tempfile
import types

import lib
from lib import c_str, c_Z, c_opt, c_list, c_bool
import gen_reports as G

# ----------------------------------------------------------------------------------------------- implementation drivers
_IMPL = {}


def impl():
    if not _IMPL:
        from lemoncheesecake.reporting.backends import json_ as J, xml as X
        from lemoncheesecake.reporting import loader, report as R
        from lemoncheesecake.exceptions import ReportLoadingError
        import xml.etree.ElementTree as ET
        _IMPL.update(J=J, X=X, loader=loader, R=R, RLE=ReportLoadingError, ET=ET)
    return types.SimpleNamespace(**_IMPL)


class FixedClock:
    """time.time() as seen by the two backend modules (module attribute `time` replaced by a shim, nothing else)."""
    def __init__(self, now_ms):
        self.now = now_ms / 1000.0

    def __enter__(self):
        m = impl()
        self.saved = (m.J.time, m.X.time)
        shim = types.SimpleNamespace(time=lambda: self.now)
        m.J.time = shim
        m.X.time = shim

    def __exit__(self, *a):
        m = impl()
        m.J.time, m.X.time = self.saved


def err_name(e):
    m = impl()
    if isinstance(e, m.RLE):
        return "ReportLoadingError"
    for cls in (UnicodeEncodeError, KeyError, TypeError, ValueError, AttributeError):
        if isinstance(e, cls):
            return cls.__name__
    return "Other:" + type(e).__name__


def outcome_of_report(rep):
    """a loaded Report -> ("ok", normal form) or ("err", "NotNormalForm")"""
    d = G.normal_form(rep)
    return ("ok", d) if G.in_normal_form(d) else ("err", "NotNormalForm", d)


class ImplementationRaised(Exception):
    pass


def attempt(f):
    try:
        return f()
    except Exception as e:       # noqa
        return ("err", err_name(e))


def file_roundtrip(desc, backend, now_ms, workdir):
    """save with the backend, load through reporting.loader (default backends)."""
    m = impl()
    rep = G.build_report(desc)
    if backend == "json":
        # the three shapes of a JSON report file: report.js (JavaScript prefix), bare JSON, indented bare JSON — chosen from the
        # report itself so that a case always replays the same way
        variant = sum(map(ord, desc.get("title") or "")) % 3
        b = m.J.JsonBackend() if variant == 0 else m.J.JsonBackend(javascript_compatibility=False, pretty_formatting=(variant == 2))
    else:
        b = m.X.XmlBackend()
    path = os.path.join(workdir, b.get_report_filename())
    if os.path.exists(path):
        os.unlink(path)
    with FixedClock(now_ms):
        try:
            b.save_report(path, rep)
        except Exception as e:      # noqa
            return ("err", err_name(e), "save")
    return attempt(lambda: outcome_of_report(m.loader.load_report_from_file(path)))


def _grow_finished_test(rep):
    """Append a log to the last step of the first FINISHED test that has a step (what a thread that outlives its test does)."""
    m = impl()
    for t in rep.all_tests():
        if t.end_time is not None and t.get_steps():
            t.get_steps()[-1].add_log(m.R.Log("info", "added after the first save", t.end_time))
            return True
    return False


def save_twice(desc, backend, now_ms, workdir):
    """The SAME report object saved, changed (a finished test gets one more log), saved again: the file must be what a single
    save of an identically changed fresh object gives.  Returns None when it agrees (or does not apply), else a detail."""
    m = impl()
    mk = (lambda: m.J.JsonBackend()) if backend == "json" else (lambda: m.X.XmlBackend())
    rep = G.build_report(desc)
    b = mk()
    path = os.path.join(workdir, "twice_" + b.get_report_filename())
    with FixedClock(now_ms):
        try:
            b.save_report(path, rep)
            if not _grow_finished_test(rep):
                return None
            b.save_report(path, rep)
        except Exception:      # noqa   (unsavable strings: C09's other business)
            return None
        fresh = G.build_report(desc)
        _grow_finished_test(fresh)
        path2 = os.path.join(workdir, "once_" + b.get_report_filename())
        try:
            mk().save_report(path2, fresh)
        except Exception:      # noqa
            return None
    a = attempt(lambda: outcome_of_report(m.loader.load_report_from_file(path)))
    c = attempt(lambda: outcome_of_report(m.loader.load_report_from_file(path2)))
    if a != c:
        return "after save / change / save the %s file loads as %s, a single save of the changed report loads as %s" % (
            backend, _brief(a), _brief(c))
    return None


def tree_level(desc, now_ms):
    """serialize_report_into_json / serialize_report_as_xml_tree and their inverses, without any text layer."""
    m = impl()
    rep = G.build_report(desc)
    with FixedClock(now_ms):
        jt = attempt(lambda: ("ok", copy.deepcopy(m.J.serialize_report_into_json(rep))))   # detached from the report objects
        xt = attempt(lambda: ("ok", m.X.serialize_report_as_xml_tree(G.build_report(desc))))
    if jt[0] != "ok":
        raise ImplementationRaised("serialize_report_into_json raises %s" % jt[1])
    jt = jt[1]
    jl = attempt(lambda: outcome_of_report(m.J._unserialize_report(copy.deepcopy(jt))))
    xl = attempt(lambda: outcome_of_report(m.X._unserialize_report(xt[1]))) if xt[0] == "ok" else None
    return jt, xt, jl, xl


# ----------------------------------------------------------------------------------------------- Gallina printers
def g_json(v):
    if v is None:
        return "JNull"
    if v is True or v is False:
        return "(JBool %s)" % c_bool(v)
    if isinstance(v, int):
        return "(JNum %s)" % c_Z(v)
    if isinstance(v, float):
        t = decimal.Decimal(repr(v)).as_tuple()
        return "(JFloat %s %s)" % (c_Z(int("".join(map(str, t.digits))) * (-1 if t.sign else 1)), c_Z(t.exponent))
    if isinstance(v, str):
        return "(JStr %s)" % c_str(v)
    if isinstance(v, list):
        return "(JArr %s)" % c_list(v, g_json)
    if isinstance(v, dict):
        return "(JObj %s)" % c_list(list(v.items()), lambda kv: "(%s, %s)" % (c_str(kv[0]), g_json(kv[1])))
    raise TypeError(v)


def canon_json_tree(jt):
    jt = dict(jt)
    if "lemoncheesecake_version" in jt:
        jt["lemoncheesecake_version"] = "VERSION"
    return jt


def g_xml(e, parsed=False, root=True):
    """Element -> Gallina. For parsed trees, the text of an element that has children is indentation: printed as None."""
    attrs = list(e.attrib.items())
    if root:
        attrs = [(k, "VERSION" if k == "lemoncheesecake-version" else v) for k, v in attrs]
    text = e.text
    if parsed and len(e):
        text = None
    return "(Elem %s %s %s %s)" % (c_str(e.tag), c_list(attrs, lambda kv: "(%s, %s)" % (c_str(kv[0]), c_str(kv[1]))),
                                  c_opt(text, c_str), c_list(list(e), lambda c: g_xml(c, parsed, False)))


def g_res(o, printer, same=None):
    """("ok", x) / ("err", name) -> Gallina `expect` value"""
    if o[0] == "ok":
        if same is not None and o[1] == same:
            return "ExpSame"
        return "(ExpOk %s)" % printer(o[1])
    name = o[1]
    if name.startswith("Other:"):
        return "ExpOther"
    return "(ExpErr %s)" % name


HEADER = """From Coq Require Import List NArith ZArith Bool.
Import ListNotations.
From LCC Require Import Base.Util Model.Report Model.Time Model.Json Model.Xml gen.TablesCodec Model.CodecFile.
Inductive expect (A : Type) := ExpSame | ExpOk (a : A) | ExpErr (e : err) | ExpOther.
Arguments ExpSame {A}. Arguments ExpOk {A} a. Arguments ExpErr {A} e. Arguments ExpOther {A}.
Definition meets {A} (eqb : A -> A -> bool) (same : A) (got : res A) (want : expect A) : bool :=
  match want with
  | ExpSame => res_eqb eqb got (Ok same)
  | ExpOk a => res_eqb eqb got (Ok a)
  | ExpErr e => res_eqb eqb got (Err e)
  | ExpOther => false
  end.
Definition tc := iso_codec.
Definition bit (b : bool) (n : nat) : nat := if b then 0 else n.
Definition nonzero (l : list nat) : list (nat * nat) := filter (fun p => negb (Nat.eqb (snd p) 0)) (combine (seq 0 (length l)) l).
(* the XML text layer as the file-level functions use it *)
Definition xml_text_layer (t : xml) : res xml := if xml_has_surrogate t then Err UnicodeEncodeError else xml_norm t.
"""

TREE_DEFS = """
Record tcase := mkT { t_r : report; t_now : Z; t_jt : json; t_xt : expect xml; t_jl : expect report; t_xl : option (expect report) }.
Definition tcode (c : tcase) : nat :=
  let same := with_saving (Some (t_now c)) (t_r c) in
  bit (json_eqb (json_save_report tc (t_now c) (t_r c)) (t_jt c)) 1 +
  bit (meets xml_eqb (Elem [] [] None []) (xml_tree_result (xml_save_report tc (t_now c) (t_r c))) (t_xt c)) 2 +
  bit (meets report_eqb same (json_load_report tc (t_jt c)) (t_jl c)) 4 +
  bit (match t_xt c, t_xl c with
       | ExpOk t, Some want => meets report_eqb same (xml_load_report tc t) want
       | _, _ => true
       end) 8.
"""

FILE_DEFS = """
Record fcase := mkF { f_r : report; f_now : Z; f_j : expect report; f_x : expect report }.
Definition fcode (c : fcase) : nat :=
  let same := with_saving (Some (f_now c)) (f_r c) in
  bit (meets report_eqb same (save_then_load tc BJson (f_now c) (f_r c)) (f_j c)) 1 +
  bit (meets report_eqb same (save_then_load tc BXml (f_now c) (f_r c)) (f_x c)) 2.
Definition fsafe (c : fcase) : bool := xml_safeb (f_r c) && unique_keysb (f_r c).
"""


def parse_pairs(out, which=0):
    """the `= [(i, code); ...] : list (nat * nat)` blocks printed by Eval vm_compute"""
    blocks = re.findall(r"=\s*(\[.*?\]|nil)\s*:\s*list \(nat \* nat\)", out, re.S)
    if len(blocks) <= which:
        return None
    return [(int(a), int(b)) for a, b in re.findall(r"\((\d+),\s*(\d+)\)", blocks[which])]


def parse_nats(out, which=0):
    blocks = re.findall(r"=\s*(\[[^\]]*\]|nil)\s*:\s*list nat", out, re.S)
    if len(blocks) <= which:
        return None
    return [int(x) for x in re.findall(r"\d+", blocks[which])]


# ----------------------------------------------------------------------------------------------- string fields
TEXT_FIELDS = ["report.title", "info.value", "node.tag", "property.value", "link.url", "log.message", "attachment.filename",
               "url.url", "check.details"]
ATTR_FIELDS = ["info.name", "property.key", "link.name", "node.name", "node.description", "result.status",
               "result.status_details", "step.description", "log.level", "check.description", "attachment.description",
               "url.description"]
# fields in which "" does not survive the XML backend: check.details (None and "" are the same empty element) and result.status
# (written under `if result.status:`).  Since fix F04 the other text fields are restored by `text or ""` and
# status_details / link name are written under `is not None`.
EMPTY_LOST = ["check.details", "result.status"]
ALL_FIELDS = TEXT_FIELDS + ATTR_FIELDS


def fields(desc):
    """yields (kind, container, key) for every string slot of a description (None-valued optionals included)"""
    yield ("report.title", desc, "title")
    for p in desc["info"]:
        yield ("info.name", p, 0)
        yield ("info.value", p, 1)

    def of_result(r):
        if r is None:
            return
        yield ("result.status", r, "status")
        yield ("result.status_details", r, "status_details")
        for st in r["steps"]:
            yield ("step.description", st, "description")
            for l in st["logs"]:
                k = l["kind"]
                if k == "log":
                    yield ("log.level", l, "level")
                    yield ("log.message", l, "message")
                elif k == "check":
                    yield ("check.description", l, "description")
                    yield ("check.details", l, "details")
                elif k == "attachment":
                    yield ("attachment.description", l, "description")
                    yield ("attachment.filename", l, "filename")
                elif k == "url":
                    yield ("url.description", l, "description")
                    yield ("url.url", l, "url")

    def of_meta(m):
        yield ("node.name", m, "name")
        yield ("node.description", m, "description")
        for i in range(len(m["tags"])):
            yield ("node.tag", m["tags"], i)
        for p in m["properties"]:
            yield ("property.key", p, 0)
            yield ("property.value", p, 1)
        for p in m["links"]:
            yield ("link.url", p, 0)
            yield ("link.name", p, 1)

    def of_suite(s):
        yield from of_meta(s["meta"])
        yield from of_result(s["setup"])
        for t in s["tests"]:
            yield from of_meta(t["meta"])
            yield from of_result(t["result"])
        yield from of_result(s["teardown"])
        for x in s["suites"]:
            yield from of_suite(x)
    yield from of_result(desc["session_setup"])
    for s in desc["suites"]:
        yield from of_suite(s)
    yield from of_result(desc["session_teardown"])


def is_xml_char(ch):
    o = ord(ch)
    return o in (0x9, 0xA, 0xD) or 0x20 <= o <= 0xD7FF or 0xE000 <= o <= 0xFFFD or 0x10000 <= o <= 0x10FFFF


def xml_causes(desc):
    """Oracle-side explanation of an XML failure, from the strings of the ORIGINAL report only (independent of the model):
    -> list of (signature class, field kind, container, key). Priority: surrogate (save raises) > non-XML character
    (file unloadable) > value changes (empty -> None, CR -> LF)."""
    sur, bad, chg = [], [], []
    for kind, c, k in fields(desc):
        v = c[k]
        if not isinstance(v, str):
            continue
        if any(0xD800 <= ord(ch) <= 0xDFFF for ch in v):
            sur.append(("surrogate", kind, c, k))
        elif any(not is_xml_char(ch) for ch in v):
            bad.append(("nonxmlchar", kind, c, k))
        else:
            if v == "" and kind in EMPTY_LOST:
                chg.append(("empty", kind, c, k))
            if "\r" in v and kind in TEXT_FIELDS:
                chg.append(("cr", kind, c, k))
    return sur, bad, chg


def json_causes(desc):
    """strings holding a high surrogate immediately followed by a low surrogate (json.loads joins them)"""
    res = []
    for kind, c, k in fields(desc):
        v = c[k]
        if isinstance(v, str) and any(0xD800 <= ord(a) <= 0xDBFF and 0xDC00 <= ord(b) <= 0xDFFF for a, b in zip(v, v[1:])):
            res.append(("surrogate-pair", kind, c, k))
    return res


def enc_desc(x):
    """descriptions inside replay files: a str with surrogates would not survive the JSON encoding of the replay file itself"""
    if isinstance(x, str):
        return {"__codepoints__": [ord(c) for c in x]} if any(0xD800 <= ord(c) <= 0xDFFF for c in x) else x
    if isinstance(x, list):
        return [enc_desc(y) for y in x]
    if isinstance(x, dict):
        return {k: enc_desc(v) for k, v in x.items()}
    return x


def dec_desc(x):
    if isinstance(x, dict):
        if set(x) == {"__codepoints__"}:
            return "".join(chr(c) for c in x["__codepoints__"])
        return {k: dec_desc(v) for k, v in x.items()}
    if isinstance(x, list):
        return [dec_desc(y) for y in x]
    return x


def base_desc():
    """one suite, one test, one step with one log of each kind; every string field occurs once (mirrors `wit` of Props/C09.v)"""
    return {"title": "a", "info": [["a", "a"]], "start": 1, "end": 5, "saving": None, "nb_threads": 1,
            "session_setup": None, "session_teardown": None,
            "suites": [{"meta": {"name": "a", "description": "a", "tags": ["a"], "properties": [["a", "a"]], "links": [["a", "a"]]},
                        "start": 1, "end": 5, "setup": None, "teardown": None, "suites": [],
                        "tests": [{"meta": {"name": "a", "description": "a", "tags": [], "properties": [], "links": []},
                                   "result": {"start": 2, "end": 4, "status": "passed", "status_details": "a",
                                              "steps": [{"description": "a", "start": 2, "end": 3, "logs": [
                                                  {"kind": "log", "level": "info", "message": "a", "time": 2},
                                                  {"kind": "check", "description": "a", "is_successful": True, "details": "a", "time": 2},
                                                  {"kind": "attachment", "description": "a", "filename": "a", "as_image": False, "time": 3},
                                                  {"kind": "url", "description": "a", "url": "a", "time": 3}]}]}}]}]}


CLASS_SAMPLE = {"empty": "", "cr": "a\rb", "nonxmlchar": "\x01", "surrogate": "\ud800", "surrogate-pair": "\ud83d\ude00"}
WHAT = {"empty": 'XML backend: "" in %s is loaded back as None', "cr": "XML backend: a carriage return in %s is loaded back as a line feed",
        "nonxmlchar": "XML backend: a character outside the XML Char production (e.g. U+0001) in %s makes the saved report unloadable "
                      "(ReportLoadingError)",
        "surrogate": "XML backend: a lone surrogate in %s makes save_report raise UnicodeEncodeError",
        "surrogate-pair": "JSON backend: a high surrogate followed by a low surrogate (two code points) in %s is loaded back as one "
                          "astral character"}


def witness_for(kind, cls, which=0, value=None):
    """the base report with the `which`-th slot of that kind set to the sample of the class (or to `value`)"""
    d = base_desc()
    slots = [(c, k) for kd, c, k in fields(d) if kd == kind]
    c, k = slots[min(which, len(slots) - 1)]
    c[k] = CLASS_SAMPLE[cls] if value is None else value
    return d


def distinct_base_desc():
    """the base report with pairwise distinct strings (so that a swap of two fields is visible)"""
    d = base_desc()
    for i, (kind, c, k) in enumerate(fields(d)):
        if kind != "result.status" and kind != "log.level":
            c[k] = "s%d" % i
    return d


# one sample per string class of the property's quantifier (plus the classes found while building the model)
GRID_SAMPLES = [("empty", ""), ("blank", " "), ("edge-space", " a "), ("tab", "\t"), ("lf", "a\nb"), ("cr", "a\rb"), ("crlf", "a\r\nb"),
                ("markup", '<&>"\'</x>]]>'), ("nonascii", "\xe9\u65e5"), ("astral", "\U0001F600"), ("c0", "\x01"), ("nul", "x\x00y"),
                ("c1", "\x85"), ("del", "\x7f"), ("nonchar", "\ufffe"), ("bom", "\ufeff"), ("surrogate", "\ud800"),
                ("low-surrogate", "\udfff"), ("surrogate-pair", "\ud83d\ude00")]


def finding_table():
    rows = []
    for f in EMPTY_LOST:
        rows.append(("empty", f))
    for f in TEXT_FIELDS:
        rows.append(("cr", f))
    for f in ALL_FIELDS:
        rows.append(("nonxmlchar", f))
    for f in ALL_FIELDS:
        rows.append(("surrogate", f))
    for f in ALL_FIELDS:
        rows.append(("surrogate-pair", f))
    return rows


def backend_of(cls):
    return "json" if cls == "surrogate-pair" else "xml"


def write_known_findings(path):
    out = {"findings": [], "fixed": [
        {"property": "C09", "signature": "xml:empty:%s" % f, "fix": "fixes/F04-xml-empty-text.patch",
         "what": 'XML backend: "" in %s was loaded back as None' % f}
        for f in ["report.title", "info.value", "node.tag", "property.value", "link.url", "log.message", "attachment.filename",
                  "url.url", "link.name", "result.status_details"]]}
    for cls, f in finding_table():
        out["findings"].append({"property": "C09", "signature": "%s:%s:%s" % (backend_of(cls), cls, f), "what": WHAT[cls] % f,
                                "witness": {"backend": backend_of(cls), "field": f, "class": cls, "string": enc_desc(CLASS_SAMPLE[cls]),
                                            "report": "base_desc() of harness/props/c09.py with that field replaced"}})
    with open(path, "w") as fh:
        json.dump(out, fh, indent=1)


# ----------------------------------------------------------------------------------------------- oracle
def expected_after(desc, now_ms):
    d = copy.deepcopy(desc)
    d["saving"] = now_ms
    return d


def oracle_one(desc, backend, now_ms, workdir):
    """None when the round trip is exact, else a short description of what happened"""
    o = file_roundtrip(desc, backend, now_ms, workdir)
    if o[0] == "ok" and o[1] == expected_after(desc, now_ms):
        return None, o
    return o, o


def _repair(desc, causes):
    fixed = copy.deepcopy(desc)
    idx = {(id(c), k) for _, _, c, k in causes}
    for (kind, c, k), (_, c2, k2) in zip(list(fields(desc)), list(fields(fixed))):
        if (id(c), k) in idx:
            c2[k2] = "a"
    _dedupe(fixed)      # replacing names by "a" can make test names / property keys collide
    return fixed


def classify_failure(run, backend, desc, now_ms, workdir, o):
    """Explains a round-trip failure by the strings of the ORIGINAL report (nothing of the model is used): the strings named by
    the explanation are repaired and the round trip must then be exact; whatever stays unexplained is shrunk and reported
    under its own signature."""
    cur, found = desc, []
    for _ in range(5):
        if backend == "json":
            causes = json_causes(cur) if o[0] == "ok" else []
        else:
            sur, bad, chg = xml_causes(cur)
            if o[0] == "err" and o[1] == "UnicodeEncodeError":
                causes = sur
            elif o[0] == "err" and o[1] == "ReportLoadingError" and not sur:
                causes = bad
            elif (o[0] == "ok" or o[1] == "NotNormalForm") and not sur and not bad:
                causes = chg
            else:
                causes = []
        if not causes:
            break
        found += [(cls, kind) for cls, kind, _, _ in causes]
        cur = _repair(cur, causes)
        bad_, o = oracle_one(cur, backend, now_ms, workdir)
        if bad_ is None:
            for cls, kind in found:
                run.violation("%s:%s:%s" % (backend, cls, kind), WHAT[cls] % kind,
                              {"backend": backend, "class": cls, "field": kind, "now_ms": now_ms,
                               "report": enc_desc(witness_for(kind, cls))})
            return
    small = G.shrink(cur, lambda d: _same_failure(d, backend, now_ms, workdir, o), max_calls=300)
    run.violation("%s:unexplained:%s" % (backend, o[1] if o[0] == "err" else "differs"),
                  "%s round trip fails for a reason the known classes do not explain: %s" % (backend.upper(), _brief(o)),
                  {"backend": backend, "now_ms": now_ms, "report": enc_desc(small),
                   "observed": _brief(oracle_one(small, backend, now_ms, workdir)[1])})


def _dedupe(d):
    def suite(s):
        seen = set()
        for i, t in enumerate(s["tests"]):
            if t["meta"]["name"] in seen:
                t["meta"]["name"] = "a%d" % i
            seen.add(t["meta"]["name"])
        for node in [s] + s["tests"]:
            ks = set()
            for i, p in enumerate(node["meta"]["properties"]):
                if p[0] in ks:
                    p[0] = "a%d" % i
                ks.add(p[0])
        for x in s["suites"]:
            suite(x)
    for s in d["suites"]:
        suite(s)


def _same_failure(d, backend, now_ms, workdir, o):
    bad, o2 = oracle_one(d, backend, now_ms, workdir)
    return bad is not None and o2[0] == o[0] and (o[0] == "ok" or o2[1] == o[1])


def _brief(o):
    if o[0] == "err":
        return "raises %s%s" % (o[1], " (while saving)" if len(o) > 2 and o[2] == "save" else "")
    return "loads a different report"


# ----------------------------------------------------------------------------------------------- tree mutations (load side)
def mutate_json(rng, jt):
    """one small change of a serialized tree -> (description of the change, tree)"""
    jt = copy.deepcopy(jt)
    objs = []

    def walk(v):
        if isinstance(v, dict):
            objs.append(v)
            for x in v.values():
                walk(x)
        elif isinstance(v, list):
            for x in v:
                walk(x)
    walk(jt)
    objs = [o for o in objs if o]
    o = rng.choice(objs)
    k = rng.choice(sorted(o.keys()))
    kind = rng.choice(["drop", "drop", "null", "badtime", "badtype"])
    if kind == "drop":
        del o[k]
    elif kind == "null" and not isinstance(o[k], (list, dict)):
        o[k] = None
    elif kind == "badtime" and k in ("time", "start_time", "end_time", "generation_time"):
        o[k] = "yesterday"
    elif kind == "badtype" and k == "type":
        o[k] = "unknown"
    else:
        del o[k]
        kind = "drop"
    return "%s %s" % (kind, k), jt


def mutate_xml(rng, root):
    root = copy.deepcopy(root)
    elems = list(root.iter())
    e = rng.choice(elems)
    kind = rng.choice(["dropattr", "dropattr", "dropchild", "badtag", "badvalue", "notext"])
    if kind == "dropattr" and e.attrib:
        k = rng.choice(sorted(e.attrib))
        del e.attrib[k]
        return "dropattr %s/%s" % (e.tag, k), root
    if kind == "dropchild" and len(e):
        c = rng.choice(list(e))
        e.remove(c)
        return "dropchild %s/%s" % (e.tag, c.tag), root
    if kind == "badtag" and e.tag in ("log", "check", "url", "attachment"):
        e.tag = "unknown"
        return "badtag", root
    if kind == "badvalue" and e.attrib:
        k = rng.choice(sorted(e.attrib))
        if k in ("time", "start-time", "end-time", "generation-time", "as-image", "is-successful", "nb-threads"):
            e.attrib[k] = "maybe"
            return "badvalue %s/%s" % (e.tag, k), root
    if e.text is not None and not len(e):
        e.text = None
        return "notext %s" % e.tag, root
    if e.attrib:
        k = sorted(e.attrib)[0]
        del e.attrib[k]
        return "dropattr %s/%s" % (e.tag, k), root
    return "none", root


# ----------------------------------------------------------------------------------------------- text layer and codec checks
def text_layer_cases(rng, n):
    """small element trees with corpus strings in text / attribute position, pushed through the real indent_xml +
    ET.tostring + file + ET.parse"""
    m = impl()
    ET = m.ET
    corpus = list(G.ADVERSARIAL_STRINGS) + ["plain", "x y"]
    cases = []
    d = tempfile.mkdtemp(prefix="lccverif_c09t_")
    try:
        for i in range(n):
            root = ET.Element("r")
            root.attrib["k"] = rng.choice(corpus) if rng.random() < 0.5 else "v"
            for j in range(rng.randint(1, 3)):
                c = ET.SubElement(root, rng.choice(["c", "d"]))
                if rng.random() < 0.8:
                    c.text = corpus[(i * 3 + j) % len(corpus)] if rng.random() < 0.7 else rng.choice(corpus)
                if rng.random() < 0.6:
                    c.attrib["a"] = corpus[(i * 5 + j) % len(corpus)] if rng.random() < 0.7 else rng.choice(corpus)
                if rng.random() < 0.2:
                    g = ET.SubElement(c, "g")
                    g.text = rng.choice(corpus)
                    c.text = None              # the serializers never give text to an element with children
            src = g_xml(root, parsed=False, root=False)
            work = copy.deepcopy(root)
            m.X.indent_xml(work)
            path = os.path.join(d, "t.xml")
            try:
                content = ET.tostring(work, encoding="unicode", xml_declaration=True)
                with open(path, "w") as fh:
                    fh.write(content)
            except Exception as e:      # noqa
                cases.append((src, "(ExpErr %s)" % err_name(e), None))
                continue
            try:
                with open(path, "r") as fh:
                    got = ET.parse(fh).getroot()
                cases.append((src, "(ExpOk %s)" % g_xml(got, parsed=True, root=False), None))
            except ET.ParseError:
                cases.append((src, "(ExpErr ReportLoadingError)", None))
    finally:
        shutil.rmtree(d, ignore_errors=True)
    return cases


def time_cases(run, rng, n):
    """format_time_as_iso8601 / parse_iso8601_time on integer milliseconds (the model's domain) -> cases for iso_codec;
    and directly (Python only) the modelling assumption `parse (format t) = t rounded to the millisecond`."""
    m = impl()
    R = m.R
    cases = []
    limit = 2 ** 33 * 1000       # above 2**33 s the float spacing exceeds 1 us and whole milliseconds are no longer preserved
    mss = list(G.TIME_BOUNDARIES_MS) + [rng.randrange(0, limit) for _ in range(n)] + \
        [rng.randrange(1500000000000, 1800000000000) for _ in range(n)]
    for ms in mss:
        s = R.format_time_as_iso8601(ms / 1000.0)
        back = R.parse_iso8601_time(s)
        if int(round(back * 1000)) != ms:
            run.violation("time:ms-roundtrip", "parse_iso8601_time(format_time_as_iso8601(t)) differs from t on a whole millisecond",
                          {"ms": ms, "formatted": s, "parsed": back})
        cases.append((ms, s))
    for t in G.gen_time_floats(rng, n * 4):
        if t >= 2 ** 33:
            continue
        s = R.format_time_as_iso8601(t)
        back = R.parse_iso8601_time(s)
        if abs(back - t) > 0.0005 + 1e-6 or R.format_time_as_iso8601(back) != s:
            run.violation("time:float-roundtrip", "formatting a float timestamp and parsing it back is off by more than half a millisecond",
                          {"t": repr(t), "formatted": s, "parsed": repr(back)})
        run.evaluations += 1
    ints = [0, 1, 8, 9, 10, 99, 100, 12345, 2 ** 31, 10 ** 18] + [rng.randrange(0, 10 ** 6) for _ in range(20)]
    return cases, [(i, str(i), int(str(i))) for i in ints]


# ----------------------------------------------------------------------------------------------- Props witnesses
def props_witnesses():
    """(the `wit ...` term used by a theorem of Props/C09.v, the same report as a description, expected outcome on XML)"""
    sa = "sa"
    args = dict(title=sa, info_v=sa, tag=sa, prop_v=sa, link_url=sa, link_name="(Some sa)", status="(Some s_passed)",
                sdet="(Some sa)", msg=sa, fname=sa, url=sa, cdet="(Some sa)", start="(Some 2%Z)")
    order = ["title", "info_v", "tag", "prop_v", "link_url", "link_name", "status", "sdet", "msg", "fname", "url", "cdet", "start"]
    table = [
        ("C09_xml_refuted_empty_check_details", {"cdet": "(Some [])"}, ("check.details", ""), "differs"),
        ("C09_xml_refuted_empty_status", {"status": "(Some [])"}, ("result.status", ""), "differs"),
        ("C09_xml_refuted_cr", {"msg": "[97; 13; 98]%N"}, ("log.message", "a\rb"), "differs"),
        ("C09_xml_refuted_control_char", {"sdet": "(Some [1%N])"}, ("result.status_details", "\x01"), "ReportLoadingError"),
        ("C09_xml_refuted_lone_surrogate", {"msg": "[55296%N]"}, ("log.message", "\ud800"), "UnicodeEncodeError"),
        ("C09_xml_refuted_missing_start_time", {"start": "None"}, ("start", None), "TypeError"),
        ("C09_json_refuted_surrogate_pair", {"msg": "[55357; 56832]%N"}, ("log.message", "\ud83d\ude00"), "differs"),
    ]
    res = []
    for name, change, (kind, value), want in table:
        a = dict(args)
        a.update(change)
        term = "(wit %s)" % " ".join(a[k] for k in order)
        d = base_desc()
        if kind == "start":
            d["suites"][0]["tests"][0]["result"]["start"] = None
        else:
            c, k = [(c, k) for kd, c, k in fields(d) if kd == kind][-1 if kind in ("node.name", "node.description") else 0]
            c[k] = value
        res.append((name, term, d, want))
    return res


# ----------------------------------------------------------------------------------------------- the check
def gen_case(rng, tier, i):
    mode = rng.choices(["xmlsafe", "plain", "mixed", "adversarial"], [40, 15, 30, 15])[0]
    size = rng.choices(["tiny", "small", "medium"], [45, 45, 10] if tier == "quick" else [30, 50, 20])[0]
    missing = rng.random() < 0.04
    d = G.gen_report(rng, size=size, strings=mode, unfinished=rng.choice([0.0, 0.25, 0.5]), allow_missing_start=missing)
    now = rng.choice([rng.randrange(1500000000000, 1800000000000), rng.choice(G.TIME_BOUNDARIES_MS)])
    return d, now, mode


def has_missing_start(d):
    if d["start"] is None:
        return True
    for kind, r in G.iter_results(d):
        if r["start"] is None or any(s["start"] is None for s in r["steps"]):
            return True
    return any(s["start"] is None for s, _ in G.iter_suites(d))


def check(run):
    run.trusted += [
        "modelled, not verified: json.dumps / json.loads = identity on JSON values with pairwise distinct string keys "
        "(checked in Python on every generated tree)",
        "modelled, not verified: indent_xml + ET.tostring + file write + ET.parse = Model/Xml.v xml_norm (\"\" -> None and CR/CRLF -> LF in "
        "element text, ParseError on characters outside the XML Char production, UnicodeEncodeError on lone surrogates, attribute "
        "values preserved); validated on every run against the real library with the adversarial string corpus",
        "modelled, not verified: the float time pipeline round(ts,3) -> utcfromtimestamp -> isoformat -> fromisoformat -> timestamp "
        "and str()/int() are the identity on integer milliseconds / integers: hypothesis `codec_ok tc` of the theorems; "
        "validated on random and boundary values, and Model/Time.v iso_codec is compared with the real functions",
        "hand-written schema of harness/tables_codec.py (which Python attribute is which field of Model/Report.v) and the hand-written "
        "glue model Model/CodecFile.v of save_report_into_file / load_report_from_file / reporting.loader (their AST is pinned by hash)",
    ]
    run.assume += ["report times are whole milliseconds in [0, 2**33 s) i.e. 1970..2242 (above, float spacing exceeds one microsecond and "
                   "isoformat(timespec='milliseconds') truncates: a whole millisecond can come back one lower -- observed, outside the domain)",
                   "the locale encoding is UTF-8 (open(filename, 'w') of the XML backend)",
                   "every report, suite, result and step has a start time (always true of reports written by the framework)"]
    run.prove(extra_targets=["theories/Base/Util.vo", "theories/Model/Report.vo", "theories/Model/Time.vo", "theories/Model/Json.vo",
                             "theories/Model/Xml.vo", "theories/gen/TablesCodec.vo", "theories/Model/CodecFile.vo"])
    quick = run.tier == "quick"
    n_reports = 260 if quick else 6000
    n_tree = 120 if quick else 1500
    n_mut = 150 if quick else 2000
    workdir = tempfile.mkdtemp(prefix="lccverif_c09_")
    feats = {}
    tree_cases, file_cases, mut_cases = [], [], []
    descs, xml_exact = [], []
    try:
        # ---------------- 1. systematic single-cause search: every string field x one sample of every string class, on both
        # backends (this is what replays each listed known finding; any other failure is reported under its own signature)
        t0 = 1700000000000
        base_ok = {}
        for backend in ("xml", "json"):
            bad, o = oracle_one(distinct_base_desc(), backend, t0, workdir)
            base_ok[backend] = bad is None
            run.evaluations += 1
            if bad is not None:
                run.violation("%s:base-report" % backend,
                              "%s backend: a small report made of plain ASCII words does not load back unchanged (%s)" % (backend.upper(), _brief(o)),
                              {"backend": backend, "now_ms": t0, "report": distinct_base_desc()})
        for f in ALL_FIELDS:
            for sname, sample in GRID_SAMPLES:
                d = witness_for(f, None, value=sample)
                for backend in ("xml", "json"):
                    if not base_ok[backend]:
                        continue      # the witnesses are variations of the base report: nothing to learn from them
                    bad, o = oracle_one(d, backend, t0, workdir)
                    run.evaluations += 1
                    run.count("grid_cases")
                    if bad is not None:
                        run.count("grid_failures_%s" % backend)
                        run.nontrivial.add("grid:%s:%s:%s" % (backend, f, sname))
                        classify_failure(run, backend, d, t0, workdir, o)
        seen = {h["signature"] for h in run.oracle_hits}
        for cls, f in finding_table():
            if base_ok[backend_of(cls)] and "%s:%s:%s" % (backend_of(cls), cls, f) not in seen:
                run.notes.append("listed finding %s:%s:%s no longer reproduces (fixed?)" % (backend_of(cls), cls, f))
        # ---------------- 2. generated reports: oracle on both backends (file level), correspondence cases
        for i in range(n_reports):
            d, now, mode = gen_case(run.rng, run.tier, i)
            descs.append((d, now))
            if i % 5 == 0:
                # a report is saved several times during a run (intermediate saves): the second save of a changed object
                for backend in ("json", "xml"):
                    run.evaluations += 1
                    run.count("save_change_save_cases")
                    try:
                        stale = save_twice(d, backend, now, workdir)
                    except Exception as e:      # noqa: BLE001
                        stale = None
                        run.count("save_change_save_not_applicable")
                    if stale:
                        run.violation("%s:second-save-stale" % backend, stale, {"backend": backend, "now_ms": now, "report": d,
                                                                                "scenario": "save, add a log to a finished test, save again"})
            G.merge_features(feats, G.features(d))
            run.count("strings=" + mode)
            missing = has_missing_start(d)
            xml_exact.append(False)
            jb, jo = oracle_one(d, "json", now, workdir)
            xb, xo = oracle_one(d, "xml", now, workdir)
            run.evaluations += 2
            if jb is not None:
                run.count("json_roundtrip_fails")
                classify_failure(run, "json", d, now, workdir, jo)
            if missing:
                run.count("reports_with_missing_start_time(outside the property)")
            elif xb is not None:
                run.count("xml_roundtrip_fails")
                classify_failure(run, "xml", d, now, workdir, xo)
            else:
                run.count("xml_roundtrip_exact")
                xml_exact[-1] = True
                if jb is None:
                    run.nontrivial.add("rt:%d" % i)
            if jb is None and xb is None:
                run.count("backends_agree")
            same = expected_after(d, now)
            file_cases.append("(mkF %s %s %s %s)" % (G.to_gallina(d), c_Z(now), g_res(jo, G.to_gallina, same), g_res(xo, G.to_gallina, same)))
            if i < n_tree:
                try:
                    jt, xt, jl, xl = tree_level(d, now)
                except ImplementationRaised as e:
                    run.tie_broken("json_save_report = serialize_report_into_json", case={"report": enc_desc(d), "now_ms": now},
                                   detail="%s; the model never fails" % e)
                    continue
                if json.loads(json.dumps(jt)) != jt:
                    pass
                cj = canon_json_tree(jt)
                tree_cases.append("(mkT %s %s %s %s %s %s)" % (
                    G.to_gallina(d), c_Z(now), g_json(cj),
                    "(ExpOk %s)" % g_xml(xt[1]) if xt[0] == "ok" else g_res(xt, None),
                    g_res(jl, G.to_gallina, same), "None" if xl is None else "(Some %s)" % g_res(xl, G.to_gallina, same)))
                run.evaluations += 2
            if i < 2:
                run.sample({"report": enc_desc(d), "now_ms": now, "json": _brief(jo) if jb else "exact", "xml": _brief(xo) if xb else "exact"})
        # ---------------- 3. mutated trees (load side only: error branches of the unserializers)
        m = impl()
        for i in range(n_mut):
            d, now = descs[i % len(descs)]
            if has_missing_start(d):
                continue
            try:
                jt, xt, _, _ = tree_level(d, now)
            except ImplementationRaised:
                continue
            what, jm = mutate_json(run.rng, canon_json_tree(jt))
            jl = attempt(lambda: outcome_of_report(m.J._unserialize_report(copy.deepcopy(jm))))
            run.count("json_mutation_outcome=" + (jl[1] if jl[0] == "err" else "ok"))
            mut_cases.append(("j", what, "(%s, %s)" % (g_json(jm), g_res(jl, G.to_gallina))))
            if xt[0] == "ok":
                what, xm = mutate_xml(run.rng, xt[1])
                xl = attempt(lambda: outcome_of_report(m.X._unserialize_report(xm)))
                run.count("xml_mutation_outcome=" + (xl[1] if xl[0] == "err" else "ok"))
                mut_cases.append(("x", what, "(%s, %s)" % (g_xml(xm), g_res(xl, G.to_gallina))))
            run.evaluations += 2
        # ---------------- 4. text layer and codecs
        tl = text_layer_cases(run.rng, 300 if quick else 3000)
        tcs, ints = time_cases(run, run.rng, 60 if quick else 2000)
        run.evaluations += len(tl) + len(tcs)
        run.count("text_layer_cases", len(tl))
        run.count("time_codec_cases", len(tcs))
    finally:
        shutil.rmtree(workdir, ignore_errors=True)
    for k, v in feats.items():
        if isinstance(v, (int, float)):
            run.count("feature:" + k, v)
        elif isinstance(v, dict):
            for k2, v2 in v.items():
                if isinstance(v2, (int, float)):
                    run.count("feature:%s=%s" % (k, k2), v2)
    # ---------------- 5. evaluation of the model inside Coq
    if getattr(run, "model_ok", False):
        files = []
        shard = 40
        for s in range(0, len(tree_cases), shard):
            files.append(("tree%d" % (s // shard), HEADER + TREE_DEFS + "Definition cases : list tcase := [\n%s\n].\n"
                          "Eval vm_compute in (nonzero (map tcode cases)).\n" % ";\n".join(tree_cases[s:s + shard]), ("tree", s)))
        shard = 80
        for s in range(0, len(file_cases), shard):
            files.append(("file%d" % (s // shard), HEADER + FILE_DEFS + "Definition cases : list fcase := [\n%s\n].\n"
                          "Eval vm_compute in (nonzero (map fcode cases)).\n"
                          "Eval vm_compute in (find_indexes fsafe cases).\n" % ";\n".join(file_cases[s:s + shard]), ("file", s)))
        shard = 100
        for s in range(0, len(mut_cases), shard):
            part = mut_cases[s:s + shard]
            js = [c for k, _, c in part if k == "j"]
            xs = [c for k, _, c in part if k == "x"]
            files.append(("mut%d" % (s // shard), HEADER +
                          "Definition jcases : list (json * expect report) := [\n%s\n].\n" % ";\n".join(js) +
                          "Definition xcases : list (xml * expect report) := [\n%s\n].\n" % ";\n".join(xs) +
                          "Definition none := mkReport [] [] None None None 0%Z None None [].\n"
                          "Eval vm_compute in (nonzero (map (fun c => bit (meets report_eqb none (json_load_report tc (fst c)) (snd c)) 1) jcases)).\n"
                          "Eval vm_compute in (nonzero (map (fun c => bit (meets report_eqb none (xml_load_report tc (fst c)) (snd c)) 1) xcases)).\n",
                          ("mut", s)))
        files.append(("text", HEADER + "Definition cases : list (xml * expect xml) := [\n%s\n].\n" % ";\n".join("(%s, %s)" % (a, b) for a, b, _ in tl) +
                      "Eval vm_compute in (nonzero (map (fun c => bit (meets xml_eqb (Elem [] [] None []) (xml_text_layer (fst c)) (snd c)) 1) cases)).\n",
                      ("text", 0)))
        files.append(("time", HEADER + "Local Open Scope Z_scope.\nDefinition cases : list (Z * str) := [\n%s\n].\n" % ";\n".join("(%d, %s)" % (ms, c_str(s)) for ms, s in tcs) +
                      "Definition icases : list (Z * str) := [\n%s\n].\n" % ";\n".join("(%d, %s)" % (i, c_str(s)) for i, s, _ in ints) +
                      "Eval vm_compute in (nonzero (map (fun c => bit (str_eqb (iso_fmt (fst c)) (snd c) && option_eqb Z.eqb (iso_parse (snd c)) (Some (fst c))) 1) cases)).\n"
                      "Eval vm_compute in (nonzero (map (fun c => bit (str_eqb (dec_fmt (fst c)) (snd c) && option_eqb Z.eqb (dec_parse (snd c)) (Some (fst c))) 1) icases)).\n",
                      ("time", 0)))
        pw = props_witnesses()
        if not any(b["kind"] in ("proof", "translator") for b in run.broken):
            files.append(("wit", HEADER + "From LCC Require Import Props.C09.\nDefinition cases : list (report * report) := [\n%s\n].\n" %
                          ";\n".join("(%s, %s)" % (t, G.to_gallina(d)) for _, t, d, _ in pw) +
                          "Eval vm_compute in (nonzero (map (fun c => bit (report_eqb (fst c) (snd c)) 1) cases)).\n", ("wit", 0)))
        outs = run.coq_eval_many([(n, t) for n, t, _ in files], timeout=1500)
        safe_total = 0
        for (name, text, (kind, base)), (rc, out) in zip(files, outs):
            pairs = parse_pairs(out, 0) if rc == 0 else None
            if pairs is None:
                run.tie_broken("case file %s did not evaluate" % name, detail=out[-1500:])
                continue
            if kind == "file":
                safe = parse_nats(out, 0) or []
                safe_total += len(safe)
                for idx in safe:
                    run.nontrivial.add("safe:%d" % (base + idx))
                for idx, code in pairs[:2]:
                    d, now = descs[base + idx]
                    rel = [r for b, r in ((1, "save_then_load BJson = impl JSON file round trip"), (2, "save_then_load BXml = impl XML file round trip")) if code & b]
                    small = shrink_tie(run, d, now, "file", code)
                    run.tie_broken("; ".join(rel), case={"report": enc_desc(small), "now_ms": now}, detail="code %d" % code)
            elif kind == "tree":
                rels = ((1, "json_save_report = serialize_report_into_json"), (2, "xml_save_report = serialize_report_as_xml_tree"),
                        (4, "json_load_report = json_._unserialize_report"), (8, "xml_load_report = xml._unserialize_report"))
                for idx, code in pairs[:2]:
                    d, now = descs[base + idx]
                    small = shrink_tie(run, d, now, "tree", code)
                    run.tie_broken("; ".join(r for b, r in rels if code & b), case={"report": enc_desc(small), "now_ms": now}, detail="code %d" % code)
            elif kind == "mut":
                part = mut_cases[base:base + 100]
                js = [c for c in part if c[0] == "j"]
                xs = [c for c in part if c[0] == "x"]
                for idx, _ in pairs[:2]:
                    run.tie_broken("json_load_report = json_._unserialize_report on a mutated tree", case=js[idx][1], detail=js[idx][2][-600:])
                for idx, _ in (parse_pairs(out, 1) or [])[:2]:
                    run.tie_broken("xml_load_report = xml._unserialize_report on a mutated tree", case=xs[idx][1], detail=xs[idx][2][-600:])
            elif kind == "text":
                for idx, _ in pairs[:3]:
                    run.tie_broken("xml_norm = indent_xml + ET.tostring + ET.parse", case=tl[idx][0], impl=tl[idx][1])
            elif kind == "time":
                for idx, _ in pairs[:3]:
                    run.tie_broken("iso_codec = format_time_as_iso8601 / parse_iso8601_time", case=tcs[idx])
                for idx, _ in (parse_pairs(out, 1) or [])[:3]:
                    run.tie_broken("dec_fmt / dec_parse = str / int", case=ints[idx])
            elif kind == "wit":
                for idx, _ in pairs[:3]:
                    run.tie_broken("the witness of %s in Props/C09.v is the report replayed by the harness" % pw[idx][0])
        run.count("xml_safe_reports(model)", safe_total)
        exact = {i for i, ok in enumerate(xml_exact) if ok}
        safe_set = {int(k[5:]) for k in run.nontrivial if k.startswith("safe:")}
        run.coverage["xml_safe_tightness"] = ("reports the model classifies xml_safe: %d; reports whose XML round trip is exact on the "
                                              "implementation: %d; exact but not xml_safe: %d (0 = the precondition is not stronger than "
                                              "needed on this sample)" % (len(safe_set), len(exact), len(exact - safe_set)))
        # the witnesses of the refutation theorems, replayed on the implementation
        wd = tempfile.mkdtemp(prefix="lccverif_c09w_")
        try:
            for name, _, d, want in props_witnesses():
                bad, o = oracle_one(d, "json" if "_json_" in name else "xml", 0, wd)
                got = "exact" if bad is None else (o[1] if o[0] == "err" else "differs")
                if got != want:
                    run.tie_broken("%s: the implementation does not show the outcome stated by the theorem" % name,
                                   case=enc_desc(d), model=want, impl=got)
        finally:
            shutil.rmtree(wd, ignore_errors=True)
    run.coverage["rule"] = (
        "seeded reports from harness/gen_reports.py (string modes xmlsafe/plain/mixed/adversarial, sizes tiny..medium, unfinished "
        "parts, every log kind, nested suites, setups/teardowns); each is saved and loaded back through reporting.loader with both "
        "backends (oracle: normal form equal to the original, JSON-loaded = XML-loaded) and compared with save_then_load of the "
        "model inside Coq; a subset also at tree level (serializer output and unserializer result, plus randomly mutated trees for "
        "the error branches); text layer and time codec cases; plus a systematic grid: every string field x one sample of every "
        "string class (19 samples) on both backends, each failure explained by a known (backend, class, field) finding or reported. "
        "Non-trivial = a report that round-trips exactly through BOTH backends on the implementation, a report the model "
        "classifies xml_safe, or a grid case that fails (replayed known finding)")
    run.coverage["known_finding_table"] = "%d (class, field) pairs replayed" % len(finding_table())


def shrink_tie(run, d, now, level, code):
    """minimise a report on which model and implementation disagree (re-evaluating the model on each candidate)"""
    if getattr(run, "_shrunk_ties", 0) >= 1 or run.oracle_hits:
        return d          # one minimised disagreement per run is enough (each candidate costs a coqc call)
    run._shrunk_ties = getattr(run, "_shrunk_ties", 0) + 1
    wd = tempfile.mkdtemp(prefix="lccverif_c09s_")

    def disagrees(c):
        if level == "file":
            same = expected_after(c, now)
            jo = file_roundtrip(c, "json", now, wd)
            xo = file_roundtrip(c, "xml", now, wd)
            text = HEADER + FILE_DEFS + "Definition cases : list fcase := [(mkF %s %s %s %s)].\nEval vm_compute in (nonzero (map fcode cases)).\n" % (
                G.to_gallina(c), c_Z(now), g_res(jo, G.to_gallina, same), g_res(xo, G.to_gallina, same))
        else:
            same = expected_after(c, now)
            jt, xt, jl, xl = tree_level(c, now)
            text = HEADER + TREE_DEFS + "Definition cases : list tcase := [(mkT %s %s %s %s %s %s)].\nEval vm_compute in (nonzero (map tcode cases)).\n" % (
                G.to_gallina(c), c_Z(now), g_json(canon_json_tree(jt)),
                "(ExpOk %s)" % g_xml(xt[1]) if xt[0] == "ok" else g_res(xt, None),
                g_res(jl, G.to_gallina, same), "None" if xl is None else "(Some %s)" % g_res(xl, G.to_gallina, same))
        rc, out = run.coq_eval("shrink", text, timeout=300)
        p = parse_pairs(out, 0) if rc == 0 else None
        return bool(p) and bool(p[0][1] & code)
    try:
        return G.shrink(d, disagrees, max_calls=30)
    except Exception:      # noqa
        return d
    finally:
        shutil.rmtree(wd, ignore_errors=True)


def replay(path):
    r = json.load(open(path))
    rp = r.get("replay") or {}
    d = rp.get("report")
    if d is None:
        for b in r.get("broken") or []:
            c = b.get("case")
            if isinstance(c, dict) and "report" in c:
                d, rp = c["report"], c
                break
    if d is None:
        print("nothing to replay in", path)
        return 2
    d = dec_desc(d)
    now = rp.get("now_ms", 1700000000000)
    wd = tempfile.mkdtemp(prefix="lccverif_c09r_")
    try:
        res = {}
        for b in ("json", "xml"):
            bad, o = oracle_one(d, b, now, wd)
            res[b] = "exact" if bad is None else _brief(o)
        print(json.dumps({"report": enc_desc(d), "now_ms": now, "round_trip": res}, indent=1))
        want = rp.get("backend")
        failing = [b for b, v in res.items() if v != "exact" and (want is None or b == want)]
        return 1 if failing else 0
    finally:
        shutil.rmtree(wd, ignore_errors=True)
