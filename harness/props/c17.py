"""C17 — a check's description says what was actually verified.
Model: coq/theories/Model/Describe.v (over Model/Matcher.v) ; theorems: Props/C17.v ; wording: gen/TablesMatchers.v."""
import itertools
import json
import os

import gen_matchers as G
import impl_matchers as I
import lib
from lib import c_bool, c_opt, c_str

FRAGMENT = {"wrappers": True, "override": False}      # the expressions C17 quantifies over (hide_result_details() in scope: F23)
TRANSPARENT = ("is_", "hide")


# ----------------------------------------------------------------------------- implementation helpers
def transformer(c, n):
    from lemoncheesecake.matching.matcher import MatcherDescriptionTransformer
    return MatcherDescriptionTransformer(conjugate=c, negative=n)


def describe_full(expr, c, n):
    """(description, transformer settings afterwards) of the real matcher."""
    t = transformer(c, n)
    s = G.build(expr).build_description(t)
    return s, bool(t.conjugate), bool(t.negative)


def raises_on(expr, v):
    try:
        G.build(expr).matches(v)
        return False
    except Exception:
        return True


def accepted(expr, dom):
    m = G.build(expr)
    res = []
    for v in dom:
        try:
            res.append(bool(m.matches(v)))
        except Exception:
            res.append(False)
    return tuple(res)


# ----------------------------------------------------------------------------- oracle: transformer / siblings / negation
def make_probe_class():
    from lemoncheesecake.matching.matcher import Matcher

    class Probe(Matcher):
        """Delegates to the operand and records how it was called and what it answered."""
        def __init__(self, inner):
            self.inner, self.calls = inner, []

        def build_description(self, transformation):
            before = (bool(transformation.conjugate), bool(transformation.negative))
            s = self.inner.build_description(transformation)
            self.calls.append((before, s))
            return s

        def matches(self, actual):
            return self.inner.matches(actual)
    return Probe


def sibling_oracle(expr, c, n):
    """For a composite: every operand must be described, inside the composite, exactly as it is described alone under the
    settings the composite was called with.  Returns (index, inside, alone) or None."""
    import lemoncheesecake.matching as M
    from lemoncheesecake.matching.matchers.composites import AllOf, AnyOf
    if expr[0] not in ("all_of", "any_of") or len(expr[1]) < 2:
        return None
    Probe = make_probe_class()
    operands = [M.is_(G.build_arg(a)) for a in expr[1]]
    probes = [Probe(o) for o in operands]
    (AllOf if expr[0] == "all_of" else AnyOf)(probes).build_description(transformer(c, n))
    for i, p in enumerate(probes):
        alone = M.is_(G.build_arg(expr[1][i])).build_description(transformer(c, n))
        for before, inside in p.calls:
            if inside != alone:
                return (i, inside, alone)
    return None


def nodes(e):
    if G.is_value_arg(e):
        return
    yield e
    for s in G.sub_args(e):
        yield from nodes(s)


# ----------------------------------------------------------------------------- oracle: faithfulness
def strip_transparent(e):
    while not G.is_value_arg(e) and e[0] in TRANSPARENT:
        e = e[1]
    return e


def is_composite_arg(a):
    a = strip_transparent(a)
    return (not G.is_value_arg(a)) and a[0] in ("all_of", "any_of")


def map_args(e, f):
    """Rebuild e with f applied to its constructor arguments."""
    if G.is_value_arg(e):
        return e
    op = e[0]
    if op in ("all_of", "any_of"):
        return (op, [f(a) for a in e[1]])
    if op in G.UNARY or op in ("hide",):
        return (op, f(e[1]))
    if op == "override":
        return (op, f(e[1]), e[2])
    if op == "has_entry":
        return (op, e[1], None if e[2] is None else f(e[2]))
    if op in G.TYPES:
        return (op, None if e[1] is None else f(e[1]))
    return e


def rw_negated_composite(e):
    """F9b, repaired by fixes/F09b-*.patch.  The expression whose logic is what the PRE-FIX wording of e says: not_(composite)
    read as the composite of the negations.  It preserves the wording only on a tree without the repair: `explain` checks
    that, so on the repaired tree this cause explains nothing (negated composites are in scope of the oracle)."""
    if G.is_value_arg(e):
        return e
    if e[0] == "not_":
        inner = strip_transparent(e[1])
        if not G.is_value_arg(inner):
            if inner[0] in ("all_of", "any_of") and inner[1]:       # (an empty one is the empty-composite cause)
                return rw_negated_composite((inner[0], [("not_", a) for a in inner[1]]))
            if inner[0] == "not_":
                return rw_negated_composite(("is_", inner[1]))
            if inner[0] == "is_not_none":
                return ("is_none",)
    return map_args(e, rw_negated_composite)


DUAL = {"all_of": "any_of", "any_of": "all_of"}


def hidden_composite_under(a, through=("not_", "is_", "hide")):
    """a = a chain of not_ / hide_result_details() (is_ is transparent) over a composite, with at least one not_ or hide:
    (number of not_ is odd, the chain contains a hide, the composite); else None."""
    k, wrapped, hidden = 0, False, False
    while not G.is_value_arg(a) and a[0] in through:
        k += a[0] == "not_"
        wrapped = wrapped or a[0] == "hide"
        hidden = hidden or a[0] in ("not_", "hide")
        a = a[1]
    if hidden and not G.is_value_arg(a) and a[0] in ("all_of", "any_of"):
        return k % 2 == 1, wrapped, a
    return None


def negated_composite_under(a):
    """a = not_^k(composite), k >= 1, no wrapper in between: (k odd, the composite); else None."""
    h = None if G.is_value_arg(a) else hidden_composite_under(a, ("not_", "is_"))
    return (h[0], h[2]) if h else None


def visible_form(odd, comp):
    return (DUAL[comp[0]], [("not_", x) for x in comp[1]]) if odd else comp


def rw_hidden_operand(e, wrapped_only):
    if G.is_value_arg(e):
        return e
    if e[0] in ("all_of", "any_of"):
        args = []
        for a in e[1]:
            h = None if G.is_value_arg(a) else hidden_composite_under(a)
            if h and h[1] == wrapped_only:
                a = visible_form(h[0], h[2])
            args.append(rw_hidden_operand(a, wrapped_only))
        return (e[0], args)
    return map_args(e, lambda a: rw_hidden_operand(a, wrapped_only))


def rw_negated_operand(e):
    """Repaired by fixes/F23-*.patch.  The same logic and, up to the layout, the same wording as e, with every composite that
    sits behind not_() as an operand of another composite made visible to its parent: not_(all_of(b, c)) becomes
    any_of(not_(b), not_(c)).  On a tree without the repair the parent then itemises instead of joining the operand on its own
    line without grouping; on a repaired tree nothing changes (so the cause explains nothing there)."""
    return rw_hidden_operand(e, False)


def rw_wrapped_operand(e):
    """Repaired by fixes/F23-*.patch.  As rw_negated_operand for a composite behind hide_result_details() (possibly with not_
    around or inside the wrappers)."""
    return rw_hidden_operand(e, True)


def rw_empty_composite(e, parity=0):
    """all_of(), any_of() and their negations are all worded ':' (no operand shows the negation, no word the connective).
    The rewrite reads every ':' as a condition that holds: the empty composite (possibly behind not_) is replaced by one that
    accepts everything when it stands under an even number of negations (parity: the not_ above it up to the enclosing
    sub-description) and nothing under an odd number.  Behind not_ it stays a Not object and bare it stays a composite (its
    parent lays the two out differently)."""
    if G.is_value_arg(e):
        return e
    x, k, w = e, 0, False
    while not G.is_value_arg(x) and x[0] in ("not_", "is_", "hide"):
        k += x[0] == "not_"
        w = w or x[0] in ("not_", "hide")
        x = x[1]
    if not G.is_value_arg(x) and x[0] in ("all_of", "any_of") and not x[1]:
        if parity % 2 == 0:
            return ("not_", ("not_", ("all_of", []))) if w else ("all_of", [])
        return ("not_", ("all_of", [])) if w else ("any_of", [])
    if e[0] == "not_":
        return ("not_", rw_empty_composite(e[1], parity + 1))
    if e[0] in ("all_of", "any_of", "is_", "hide"):
        return map_args(e, lambda a: rw_empty_composite(a, parity))
    return map_args(e, rw_empty_composite)


def _str_keys(v):
    if isinstance(v, dict):
        return {json.dumps(k) if not isinstance(k, str) else k: _str_keys(x) for k, x in v.items()}
    if isinstance(v, list):
        return [_str_keys(x) for x in v]
    return v


def rw_dict_key(e):
    if G.is_value_arg(e):
        return ("$", _str_keys(e[1]))
    op = e[0]
    if op in G.VALUE_LEAVES:
        return (op, _str_keys(e[1]))
    if op in G.LIST_LEAVES:
        return (op, [_str_keys(x) for x in e[1]])
    return map_args(e, rw_dict_key)


# (cause, rewrite, mode).  mode "wording": the rewrite must leave the description as it is (checked on the tree under test) and
# may change the logic -- it yields the expression that the wording reads as;  mode "layout": the rewrite must leave the logic
# as it is (checked over the value domain) and the description up to its layout (same words in the same order).
def _positions(e, path=(), inside=False):
    """every sub-expression of e with the path (indexes in sub_args order) leading to it and whether it lies inside a container
    that conjugates the description of what it holds"""
    yield path, e, inside
    if not G.is_value_arg(e):
        for i, sub in enumerate(G.sub_args(e)):
            if not G.is_value_arg(sub):
                yield from _positions(sub, path + (i,), inside or e[0] in CONTAINERS or e[0] == "has_length")


def _replace_at(e, path, new):
    if not path:
        return new
    sub = G.sub_args(e)[path[0]]
    return G._replace_arg(e, path[0], _replace_at(sub, path[1:], new))


def rw_container_scope(e):
    """Open cause F25: once a sentence is conjugated, `C(x rel y)` and `C(x) rel y` read alike (C a container: has_item,
    has_all_items, has_entry k, a type matcher).  Canonical form: every trailing operand is pulled INTO the leading container
    as long as the description of the whole expression stays word for word the same -- inside a conjugating container only."""
    cur = e
    for _ in range(40):
        d0 = describe_full(cur, False, False)[0]
        for path, sub, inside in _positions(cur):
            moved = None
            # (only INSIDE a conjugating container: at the outer level the operands after the first keep their infinitive --
            #  `... whose value is 1 or to be an integer` -- and the scope is readable)
            if inside and sub[0] in ("all_of", "any_of") and len(sub[1]) >= 2:
                first = sub[1][0]
                if not G.is_value_arg(first) and first[0] in CONTAINERS and len(G.sub_args(first)) == 1:
                    x = G.sub_args(first)[0]
                    inner = list(x[1]) if (not G.is_value_arg(x) and x[0] == sub[0]) else [x]
                    moved = G._replace_arg(first, 0, (sub[0], inner + sub[1][1:]))
            if moved is not None:
                cand = _replace_at(cur, path, moved)
                try:
                    same = describe_full(cand, False, False)[0] == d0
                except Exception:
                    same = False
                if same:
                    cur = cand
                    break
        else:
            return cur
    return cur


REWRITES = [("container-scope", rw_container_scope, "wording"), ("negated-composite", rw_negated_composite, "wording"), ("empty-composite", rw_empty_composite, "wording"),
            ("dict-key", rw_dict_key, "wording"), ("negated-operand", rw_negated_operand, "layout"),
            ("wrapped-composite", rw_wrapped_operand, "layout")]


def words_of(description):
    """The words of a description without its layout (line breaks, indentation, the ':' head and the '-' bullets)."""
    return [w for w in description.split() if w not in ("-", ":")]


def apply_cause(e, rw, mode, dom):
    """rw(e) when the rewrite is what its cause says on the tree under test, else None."""
    x = rw(e)
    if x == e:
        return e
    d0, d1 = describe_full(e, False, False)[0], describe_full(x, False, False)[0]
    if mode == "wording":
        return x if d0 == d1 else None
    return x if words_of(d0) == words_of(d1) and accepted(e, dom) == accepted(x, dom) else None


def explain(e1, e2, dom):
    """Smallest set of known causes that account for the collision: after their rewrites the two expressions either accept the
    same values or are no longer described alike.  Returns the list of tags, or None when no combination explains it."""
    for k in range(1, len(REWRITES) + 1):
        for combo in itertools.combinations(REWRITES, k):
            a, b = e1, e2
            try:
                for _, rw, mode in combo:
                    a = None if a is None else apply_cause(a, rw, mode, dom)
                    b = None if b is None else apply_cause(b, rw, mode, dom)
                if a is None or b is None or (a, b) == (e1, e2):
                    continue
                if accepted(a, dom) == accepted(b, dom) or describe_full(a, False, False)[0] != describe_full(b, False, False)[0]:
                    return [t for t, _, _ in combo]
            except Exception:
                pass
    return None


def first_difference(e1, e2, dom):
    a, b = accepted(e1, dom), accepted(e2, dom)
    for v, x, y in zip(dom, a, b):
        if x != y:
            return v, x, y
    return None


# ----------------------------------------------------------------------------- semantic neighbours of an expression
SWAPS = [G.VALUE_LEAVES, G.STRING_LEAVES, G.LIST_LEAVES, G.TYPES, ["has_item", "has_all_items"], ["is_none", "is_not_none"],
         ["is_true", "is_false"], ["all_of", "any_of"]]


def root_variants(e):
    """Expressions that differ from e by one logical edit at the root: another connective, one more / one less negation,
    a sibling constructor on the same arguments, a re-association of nested connectives."""
    op = e[0]
    for fam in SWAPS:
        if op in fam:
            for other in fam:
                if other != op:
                    yield (other,) + tuple(e[1:])
    yield ("not_", e)
    if op == "not_" and not G.is_value_arg(e[1]):
        yield e[1]
    if op in ("all_of", "any_of"):
        yield ("hide", e)
    if op == "hide":
        yield e[1]
    if op in ("all_of", "any_of") and len(e[1]) >= 2 and not G.is_value_arg(e[1][0]) and e[1][0][0] in ("all_of", "any_of") \
            and e[1][0][0] != op and len(e[1][0][1]) >= 2:
        inner = e[1][0]
        # rel1[rel2[a, b..], c..]  ->  rel2[a, rel1[b.., c..]]
        yield (inner[0], [inner[1][0], (op, inner[1][1:] + e[1][1:])])


def multiplicity_variants_at_root(e):
    """The same expected items with another multiplicity (one more occurrence of the first item; every item once): always tried."""
    if e[0] in G.LIST_LEAVES and e[1]:
        yield (e[0], list(e[1]) + [e[1][0]])
        once = [x for i, x in enumerate(e[1]) if not any(type(y) is type(x) and y == x for y in e[1][:i])]
        if len(once) < len(e[1]):
            yield (e[0], once)


CONTAINERS = ("has_item", "has_all_items", "has_entry") + tuple(G.TYPES)


def scope_variants_at_root(e):
    """The scope of a container (has_item, has_all_items, has_entry k, a type matcher) moved by one operand: the last operand of
    the composite inside the container is taken out of it, and back.   C(rel[a.., z])  <->  rel[C(rel[a..]) , z]"""
    op = e[0]
    if op in CONTAINERS:
        args = G.sub_args(e)
        if len(args) == 1 and not G.is_value_arg(args[0]) and args[0][0] in ("all_of", "any_of") and len(args[0][1]) >= 2:
            rel, ops = args[0][0], args[0][1]
            inner = ops[0] if len(ops) == 2 else (rel, ops[:-1])
            yield (rel, [G._replace_arg(e, 0, inner), ops[-1]])
    if op in ("all_of", "any_of") and len(e[1]) >= 2:
        first = e[1][0]
        if not G.is_value_arg(first) and first[0] in CONTAINERS and len(G.sub_args(first)) == 1:
            x = G.sub_args(first)[0]
            yield G._replace_arg(first, 0, (op, [x] + e[1][1:]))


def key_variants_at_root(e):
    """has_entry with an int key (or list index) read as the string of its digits, and back: other entries, so another wording."""
    if e[0] != "has_entry":
        return

    def flip(k):
        if isinstance(k, bool):
            return None
        if isinstance(k, int):
            return str(k)
        if isinstance(k, str) and k.lstrip("-").isdigit():
            return int(k)
        return None
    k = e[1]
    if isinstance(k, list):
        for i, x in enumerate(k):
            if not isinstance(x, list) and flip(x) is not None:
                yield ("has_entry", k[:i] + [flip(x)] + k[i + 1:]) + tuple(e[2:])
    elif flip(k) is not None:
        yield ("has_entry", flip(k)) + tuple(e[2:])


def negate(a):
    return a[1] if not G.is_value_arg(a) and a[0] == "not_" else ("not_", a)


def variants(e, root=root_variants):
    if G.is_value_arg(e):
        return
    yield from root(e)
    for i, sub in enumerate(G.sub_args(e)):
        if not G.is_value_arg(sub):
            for v in variants(sub, root):
                yield G._replace_arg(e, i, v)


def negation_variants_at_root(e):
    """The neighbours of root_variants that concern a negated or wrapped composite (always tried, the others are sampled)."""
    op = e[0]
    if op == "not_" and not G.is_value_arg(e[1]):
        inner = strip_transparent(e[1])
        if not G.is_value_arg(inner) and inner[0] in ("all_of", "any_of"):
            # not_(rel[a, b..]): the composite of the negations with the same connective (what the pre-F9b wording said) and
            # with the dual one (De Morgan: the same logic)
            yield (inner[0], [("not_", a) for a in inner[1]])
            yield (DUAL[inner[0]], [("not_", a) for a in inner[1]])
    if op in ("all_of", "any_of") and len(e[1]) >= 2:
        # a negated composite as first / last operand: the other grouping of the same line
        #   rel1[a.., not_(rel1[b, c..])]  reads  a.. rel1 not-b rel2 not-c..  like  rel2[not_(rel2[not-a.., b]), not-c..]   (rel2 = dual of rel1)
        last, first = e[1][-1], e[1][0]
        nc = None if G.is_value_arg(last) else negated_composite_under(last)
        if nc and nc[0] and nc[1][0] == op and len(nc[1][1]) >= 2:
            inner = nc[1][1]
            yield (DUAL[op], [("not_", (DUAL[op], [negate(a) for a in e[1][:-1]] + [inner[0]]))] + [negate(c) for c in inner[1:]])
        nc = None if G.is_value_arg(first) else negated_composite_under(first)
        if nc and nc[0] and nc[1][0] == op and len(nc[1][1]) >= 2:
            inner = nc[1][1]
            yield (DUAL[op], [negate(b) for b in inner[:-1]] + [("not_", (DUAL[op], [inner[-1]] + [negate(a) for a in e[1][1:]]))])
        # a composite hidden behind not_ / hide_result_details() as first / last operand, read with the other connective:
        #   rel1[H(rel2[x0.., xk]), c..]  reads  x0 rel2 .. xk rel1 c..  like  rel2[x0.., hide(rel1[xk, c..])]
        for at_end in (False, True):
            a = e[1][-1] if at_end else e[1][0]
            h = None if G.is_value_arg(a) else hidden_composite_under(a)
            if h:
                rel2, xs = visible_form(h[0], h[2])
                if rel2 != op and len(xs) >= 2:
                    if at_end:
                        yield (rel2, [("hide", (op, e[1][:-1] + [xs[0]]))] + xs[1:])
                    else:
                        yield (rel2, xs[:-1] + [("hide", (op, [xs[-1]] + e[1][1:]))])


def gen_negated_composite(rng):
    """Fragment expressions built around not_(composite) / hide_result_details() on a composite: alone, as an operand of a
    composite, over a nested composite."""
    def leaves(k):
        return [G.gen_leaf(rng, True) if rng.random() < 0.8 else ("not_", G.gen_leaf(rng, True)) for _ in range(k)]
    rel1, rel2 = rng.choice(["all_of", "any_of"]), rng.choice(["all_of", "any_of"])
    shape = rng.choice([0, 1, 1, 2, 3, 4, 4])
    if shape == 0:
        return ("not_", (rel1, leaves(rng.choice([1, 2, 2, 3]))))
    if shape == 1:
        ops = leaves(rng.choice([1, 1, 2]))
        ops.insert(rng.choice([0, len(ops), len(ops), rng.randrange(len(ops) + 1)]), ("not_", (rel2, leaves(rng.choice([2, 2, 3])))))
        return (rel1, ops)
    if shape == 2:
        return ("not_", (rel1, leaves(rng.choice([1, 2])) + [(rel2, leaves(2))]))
    if shape == 3:
        return (rng.choice(["has_item", "has_all_items", "has_length", "not_"]), ("not_", (rel1, leaves(2))))
    # a composite behind hide_result_details() (and not_) as an operand of a composite
    inner = ("hide", (rel2, leaves(rng.choice([2, 2, 3]))))
    inner = rng.choice([inner, inner, ("not_", inner), ("hide", ("not_", inner[1]))])
    ops = leaves(rng.choice([1, 1, 2]))
    ops.insert(rng.choice([0, len(ops)]), inner)
    return (rel1, ops)


# witnesses of the recorded findings (same as the Coq `..._refuted` theorems), replayed on every run
GT0, LT10, EQ5 = ("greater_than", 0), ("less_than", 10), ("equal_to", 5)
WITNESSES = {
    # repaired (fixes/F09b-*.patch, "fixed" in known_findings.d/C17.json): kept as a regression witness, reported as a violation
    "negated-composite": (("not_", ("all_of", [GT0, LT10])), ("all_of", [("not_", GT0), ("not_", LT10)]), 20),
    # repaired (fixes/F23-*.patch, "fixed"): regression witnesses, reported as violations
    "negated-operand": (("any_of", [("not_", ("any_of", [("not_", GT0), LT10])), ("not_", EQ5)]),
                        ("all_of", [GT0, ("not_", ("all_of", [LT10, EQ5]))]), 0),
    "empty-composite": (("all_of", []), ("any_of", []), None),
    "container-scope": (("has_item", ("any_of", [("has_entry", "a", ("equal_to", 1)), ("is_integer", None)])),
                        ("has_item", ("has_entry", "a", ("any_of", [("equal_to", 1), ("is_integer", None)]))), [5]),
    "dict-key": (("equal_to", {1: 2}), ("equal_to", {"1": 2}), {1: 2}),
    "wrapped-composite": (("all_of", [("hide", ("any_of", [("$", 1), ("$", 2)])), ("$", 3)]),
                          ("any_of", [("$", 1), ("hide", ("all_of", [("$", 2), ("$", 3)]))]), 1),
}


# ----------------------------------------------------------------------------- Gallina
HEADER = """From Coq Require Import List Bool NArith ZArith.
Import ListNotations.
From LCC Require Import Base.Util Model.PyVal Model.Matcher gen.TablesMatchers Model.Describe.
Definition agrees_d (c : matcher * transf * str * transf) : bool :=
  let '(m, t, s, t') := c in
  let '(ms, mt) := describe_st not_of_source comp_of_source m t in str_eqb ms s && transf_eqb mt t'.
Definition agrees_l (c : option str * matcher * str) : bool :=
  let '(h, m, s) := c in str_eqb (log_description not_of_source comp_of_source h m) s.
"""


def c_transf(c, n):
    return "{| t_conj := %s; t_neg := %s |}" % (c_bool(c), c_bool(n))


def describe_file(cases):
    body = ";\n".join("(%s, %s, %s, %s)" % (G.c_expr(e), c_transf(c, n), c_str(s), c_transf(c2, n2))
                      for e, c, n, s, c2, n2 in cases)
    return HEADER + "Definition cases : list (matcher * transf * str * transf) := [\n%s\n].\n" % body + \
        "Eval vm_compute in (find_indexes (fun c => negb (agrees_d c)) cases).\n"


def log_file(cases):
    body = ";\n".join("(%s, %s, %s)" % (c_opt(h, c_str), G.c_expr(e), c_str(s)) for h, e, s in cases)
    return HEADER + "Definition cases : list (option str * matcher * str) := [\n%s\n].\n" % body + \
        "Eval vm_compute in (find_indexes (fun c => negb (agrees_l c)) cases).\n"


# ----------------------------------------------------------------------------- the check
def smallest(exprs):
    return min(exprs, key=lambda e: (G.size_of(e), repr(e)))


# ----------------------------------------------------------------------------- the wording of the dict operations' checks
IN_DESC_HEADER = """From Coq Require Import List Bool NArith ZArith.
Import ListNotations.
From LCC Require Import Base.Util Model.PyVal Model.Matcher gen.TablesMatchers Model.Describe Model.OpsIn Model.OpsInDescribe.
Definition agrees (c : eargs * pyval * list str) : bool :=
  let '(a, b, descs) := c in
  let ys := fst (from_args a b) in
  list_eqb str_eqb (map (in_log_description not_of_source comp_of_source) (firstn (length descs) ys)) descs.
"""


def check_in_descriptions(run):
    """the sentences recorded by check_that_in / require_that_in in a real test against OpsInDescribe.in_log_description"""
    from props import c16 as C16
    n = 300 if run.tier == "quick" else 8000
    cases = []
    while len(cases) < n:
        c = C16.gen_in_case(run.rng)
        if c["op"] != "assert_that_in":
            cases.append(c)
    obs = []
    for k in range(0, len(cases), 500):
        obs += I.run_operations_in([(c["op"], c["actual"], c["py_args"], c["base"], c["quiet"]) for c in cases[k:k + 500]])
    rows = []
    for c, o in zip(cases, obs):
        run.evaluations += 1
        run.count("in_descriptions_cases")
        descs = [ck[0] for ck in o["checks"]]
        if len(descs) >= 2:
            run.count("in_descriptions_cases_with_two_sentences_or_more")
        if len(set(descs)) != len(descs):
            run.count("in_descriptions_cases_with_a_repeated_sentence")
        try:
            base = c["base"]
            c_base = "(VList [])" if base is None else G.c_val(list(base) if isinstance(base, (list, tuple)) else base)
            rows.append(("(%s, %s, %s)" % (C16.c_eargs(c["args"]), c_base, lib.c_list(descs, c_str)),
                         {"op": c["op"], "args": repr(c["args"]), "base": repr(c["base"]), "recorded": descs}))
        except ValueError:
            run.count("in_descriptions_not_representable")
    if not getattr(run, "model_ok", False) or not rows:
        return
    relation = "OpsInDescribe.in_log_description = the sentences recorded by check_that_in / require_that_in"
    shards = [rows[i:i + 300] for i in range(0, len(rows), 300)]
    files = [("indesc%d" % k, IN_DESC_HEADER + "Definition cases : list (eargs * pyval * list str) := [\n%s\n].\n"
              % ";\n".join(r[0] for r in sh) + "Eval vm_compute in (find_indexes (fun c => negb (agrees c)) cases).\n")
             for k, sh in enumerate(shards)]
    reported = 0
    for k, (rc, out) in enumerate(run.coq_eval_many(files)):
        bad = lib.parse_nat_list(out) if rc == 0 else None
        if bad is None:
            run.tie_broken(relation, detail="case file did not evaluate: " + out[-1500:])
            continue
        for idx in bad:
            if reported < 2:
                run.tie_broken(relation, case=shards[k][idx][1])
                reported += 1


def check_value_clause_context(run):
    """The clause that words the value matcher of a has_entry does not depend on where the has_entry sits: under not_, inside
    has_item / has_all_items / another has_entry, it is " that " + the value matcher's own (conjugated, positive) wording."""
    n = 150 if run.tier == "quick" else 4000
    for i in range(n):
        vm = G.gen_leaf(run.rng)
        if run.rng.random() < 0.3:
            vm = ("not_", vm)
        k = run.rng.choice(["a", "b", 0, ["a", 0]])
        inner = ("has_entry", k, vm)
        ctx = run.rng.choice(["plain", "not", "item_not", "all_not", "entry_not", "item_not_not"])
        e = {"plain": inner, "not": ("not_", inner), "item_not": ("has_item", ("not_", inner)),
             "all_not": ("has_all_items", ("not_", inner)), "entry_not": ("has_entry", "z", ("not_", inner)),
             "item_not_not": ("has_item", ("not_", ("not_", inner)))}[ctx]
        try:
            whole = I.describe(G.build(e))
            clause = " that " + I.describe(G.build(vm), conjugate=True)
        except Exception as ex:      # noqa
            run.tie_broken("build_description of a generated expression", detail="%r: %s" % (e, ex))
            continue
        run.evaluations += 1
        run.count("value_clause_context:" + ctx)
        if "\n" in whole or "\n" in clause:
            continue
        if not whole.endswith(clause):
            run.violation("oracle:value-clause-depends-on-context",
                          "the value matcher of %r is worded %r on its own (conjugated) but the sentence of %r is %r" % (
                              inner, clause[6:], e, whole),
                          {"kind": "value-clause", "expr": repr(e), "value_matcher": repr(vm), "description": whole,
                           "expected_suffix": clause})


def check(run):
    run.trusted += [
        "harness/tables_matchers.py: the wording tables and the recognised shapes of every build_description, of "
        "MatcherDescriptionTransformer.__call__, of the composite rendering helpers, of Not.build_description and of "
        "AllOf / AnyOf.build_description (the relationship word under a positive / negative transformer) are read off "
        "the source (AST shape hash + constants); the rendering logic itself is modelled by hand in Model/Describe.v and "
        "compared with the implementation string by string on every run",
        "modelled, not verified: json.dumps(ensure_ascii=False) on the value domain, str.split/join, re prefix matching with "
        "\\w restricted to ASCII word characters",
    ]
    run.assume += [
        "values are None, bool, int, str, list, dict (no float); override_description receives ASCII text; is_between bounds are ints",
        "faithfulness is evaluated on the fragment named by the property (leaf matchers, not_, all_of, any_of, has_entry, has_item, "
        "has_all_items, has_length, type matchers, hide_result_details; no override_description), negated and wrapped "
        "composites included (F9b, F23 repaired), over a fixed separating value domain; user strings containing ' and ' / ' or ' as token boundaries are "
        "not claimed",
        "match_pattern, is_text, is_json, is_float are not modelled",
    ]
    run.prove(extra_targets=["theories/Base/Util.vo", "theories/Model/PyVal.vo", "theories/Model/Matcher.vo",
                             "theories/gen/TablesMatchers.vo", "theories/Model/Describe.vo", "theories/Model/OpsIn.vo",
                             "theories/Model/OpsInDescribe.vo"])
    quick = run.tier == "quick"
    n_corr = 900 if quick else 60000
    n_frag = 1500 if quick else 150000
    dom = G.value_domain(run.rng, 29)
    verbs = [x for x in G.STRS if x.startswith(("to ", "is", "has", "can"))]
    dom = dom + verbs + [[x] for x in verbs] + [{"a": x} for x in verbs]
    # lists that differ by the multiplicity of an item only (has_only_items compares multisets)
    # entries reachable by an int key / index only, or by the string of the same digits only
    dom = dom + [{"0": "a"}, {0: "a"}, {"1": 1}, {"-1": 1}, {-1: 1}, {"a": {"0": 1}}, {"a": [1]}, {"0": {"a": 1}}, [{"a": 1}]]
    dom = dom + [["ab"], ["ab", "a"], ["abc", 1], {"a": "ab"}, {"a": ["ab"]}]      # an item / entry whose own length differs from its container's
    dom = dom + [[1, 1], [1, 1, 2], [2, 2, 1], [None, None], ["a", "a"], [True, True, False], [0, 0], [None, 2, 2], [10, 10, 1]]

    # ---- known findings: replay every recorded witness on the implementation
    for tag, (e1, e2, v) in WITNESSES.items():
        d1, d2 = describe_full(e1, False, False)[0], describe_full(e2, False, False)[0]
        a1, a2 = accepted(e1, [v])[0], accepted(e2, [v])[0]
        run.evaluations += 1
        if d1 == d2 and a1 != a2:
            run.violation("faithful:" + tag, "same description, different verdicts",
                          {"kind": "faithful", "expr1": repr(e1), "expr2": repr(e2), "description": d1, "value": repr(v),
                           "verdict1": a1, "verdict2": a2})

    # ---- correspondence cases (all constructors incl. wrappers, all transformer settings) + transformer oracles
    dcases = []
    for i in range(n_corr):
        e = G.gen_expr(run.rng, run.rng.choice([0, 1, 2, 2, 3, 3, 4]), {"wrappers": True, "override": True})
        c, n = run.rng.random() < 0.3, run.rng.random() < 0.3
        s, c2, n2 = describe_full(e, c, n)
        dcases.append((e, c, n, s, c2, n2))
        run.evaluations += 1
        run.count("described")
        run.count("depth_%d" % G.depth_of(e))
        run.count("multi_line" if "\n" in s else "single_line")
        for k in G.constructors_of(e):
            run.count("uses_" + k)
        if i < 2:
            run.sample({"expr": repr(e), "conjugate": c, "negative": n, "description": s})
        transformer_oracles(run, e, c, n, (s, c2, n2))

    # ---- the property's fragment: transformer oracles + faithfulness by grouping
    groups = {}
    # expected strings that ARE verb phrases of the description language, under every wrapper that conjugates or negates the
    # sentence: the quoted value must come out untouched (two different expected values may never share a description)
    for x in G.STRS:
        for leaf in ("equal_to", "starts_with", "ends_with", "contains_string"):
            base = (leaf, x)
            for e in (base, ("not_", base), ("has_item", base), ("not_", ("has_item", base)), ("has_entry", "a", base),
                      ("not_", ("has_entry", "a", base)), ("has_all_items", base), ("is_str", base), ("not_", ("is_str", base)),
                      ("all_of", [base, ("is_str", None)]), ("not_", ("any_of", [base, ("equal_to", 1)]))):
                run.evaluations += 1
                run.count("fragment_expected_verb_phrase_family")
                groups.setdefault(describe_full(e, False, False)[0], {}).setdefault(accepted(e, dom), []).append(e)
    # the scope of a container at the OUTER level: C(rel[x, z]) against rel[C(x), z] for every container, both connectives and
    # every kind of operand z (negated ones included): never the same description
    tails = [("equal_to", 1), ("is_none",), ("is_integer", None), ("has_length", ("equal_to", 2)), ("has_item", ("equal_to", 1)),
             ("starts_with", "a"), ("is_between", 0, 2), ("has_entry", "a", None), ("has_items", [1]), ("is_in", [1, 2]),
             ("greater_than", 0), ("has_all_items", ("equal_to", 1)), ("has_only_items", [1])]
    tails = tails + [("not_", t) for t in tails]
    for cont in (("has_item",), ("has_all_items",), ("has_entry", "a"), ("is_list",), ("is_str",), ("is_dict",)):
        for rel in ("all_of", "any_of"):
            for z in tails:
                x = ("starts_with", "a") if cont[0] != "is_dict" else ("has_entry", "b", None)
                for e in (cont + ((rel, [x, z]),), (rel, [cont + (x,), z])):
                    run.evaluations += 1
                    run.count("fragment_outer_scope_family")
                    groups.setdefault(describe_full(e, False, False)[0], {}).setdefault(accepted(e, dom), []).append(e)
    # deep nesting: chains of alternating all_of / any_of, 4 to 6 levels deep (every level but the innermost is itemised), with a
    # trailing operand attached to level j, or to level j + 2 (the same connective, two levels further in): the indentation of the
    # nested lists is all that tells them apart
    pool = [(op, k) for op in ("equal_to", "greater_than", "less_than", "not_equal_to") for k in (-1, 0, 1, 2, 3, 10)] + \
        [("is_bool", None), ("is_none",), ("is_str", None), ("not_", ("equal_to", 0)), ("has_length", ("equal_to", 2)), ("starts_with", "a")]

    def chain(rels, leaves, j, tail):
        def level(k):
            if k == len(rels) - 1:
                ops = [leaves[k], leaves[k + 1]]
            else:
                ops = [leaves[k], level(k + 1)]
            return (rels[k], ops + ([tail] if k == j else []))
        return level(0)
    for i in range(200 if quick else 5000):
        depth = run.rng.choice([4, 5, 5, 6])
        r0 = run.rng.choice(["all_of", "any_of"])
        rels = [r0 if k % 2 == 0 else DUAL[r0] for k in range(depth)]
        leaves = [run.rng.choice(pool) for _ in range(depth + 1)]
        tail = run.rng.choice(pool)
        j = run.rng.randint(0, depth - 3)
        pair = [chain(rels, leaves, j, tail), chain(rels, leaves, j + 2, tail)]
        tables = set()
        for e in pair:
            run.evaluations += 1
            run.count("fragment_deep_nesting_family")
            acc = accepted(e, dom)
            tables.add(acc)
            groups.setdefault(describe_full(e, False, False)[0], {}).setdefault(acc, []).append(e)
        if len(tables) == 2:
            run.count("deep_nesting_pairs_with_different_accepted_sets")
    for i in range(n_frag):
        if i % 8 == 7:
            e = gen_negated_composite(run.rng)
            run.count("fragment_built_around_a_negated_composite")
        else:
            e = G.gen_expr(run.rng, run.rng.choice([0, 1, 1, 2, 2, 3, 4]), FRAGMENT)
        s, c2, n2 = describe_full(e, False, False)
        run.evaluations += 1
        run.count("fragment_expressions")
        if i % 3 == 0:
            transformer_oracles(run, e, False, False, (s, c2, n2))
            dcases.append((e, False, False, s, c2, n2))
        acc = accepted(e, dom)
        groups.setdefault(s, {}).setdefault(acc, []).append(e)
        # the sentence describes ONE set of accepted values: the same matcher objects asked again (and a freshly built one) answer
        # the same, and the negated sentence accepts exactly the other values
        again = accepted(e, dom)
        neg = accepted(("not_", e), dom)
        run.count("fragment_expressions_evaluated_twice")
        bad = [v for v, a, b in zip(dom, acc, again) if a != b]
        if bad:
            run.violation("faithful:verdict-changes-between-evaluations", "the same check on the same value gives different verdicts when evaluated again",
                          {"kind": "unstable", "expr": repr(e), "value": repr(bad[0])})
        elif any(a == b for a, b in zip(acc, neg)):
            k = next(i for i, (a, b) in enumerate(zip(acc, neg)) if a == b)
            if not raises_on(e, dom[k]):
                run.violation("faithful:negation-does-not-negate", "not_(m) and m give the same verdict on a value m evaluates without error",
                              {"kind": "negation-verdict", "expr": repr(e), "value": repr(dom[k])})
        # its semantic neighbours: if one accepts other values it must be described differently
        vs = list(variants(e))
        must = list(variants(e, negation_variants_at_root))
        mult = list(variants(e, multiplicity_variants_at_root))
        run.count("fragment_multiplicity_neighbours", len(mult))
        keyv = list(variants(e, key_variants_at_root))
        run.count("fragment_key_type_neighbours", len(keyv))
        scopev = list(variants(e, scope_variants_at_root))
        run.count("fragment_scope_neighbours", len(scopev))
        must = mult[:3] + keyv[:3] + scopev[:3] + must
        run.count("fragment_negation_neighbours", len(must))
        for v in must[:13] + (vs if len(vs) <= 8 else run.rng.sample(vs, 8)):
            run.count("fragment_neighbours")
            run.evaluations += 1
            groups.setdefault(describe_full(v, False, False)[0], {}).setdefault(accepted(v, dom), []).append(v)
    run.count("distinct_descriptions", len(groups))
    for s, tables in groups.items():
        if sum(len(x) for x in tables.values()) > 1:
            run.count("descriptions_shared_by_several_expressions")
        if len(tables) < 2:
            continue
        run.count("descriptions_with_different_accepted_sets")
        reps = [smallest(es) for es in tables.values()]
        for e1, e2 in itertools.combinations(reps[:4], 2):
            tags = explain(e1, e2, dom)
            diff = first_difference(e1, e2, dom)
            rp = {"kind": "faithful", "expr1": repr(e1), "expr2": repr(e2), "description": s,
                  "value": repr(diff[0]), "verdict1": diff[1], "verdict2": diff[2]}
            if tags is None:
                run.violation("faithful:unexplained", "two expressions with the same description accept different values", rp)
            else:
                run.nontrivial.add(s)
                for t in tags:
                    run.count("collisions_explained_by_" + t)
                    run.violation("faithful:" + t, "same description, different verdicts", rp)

    # ---- the sentence recorded by a real check_that (quiet, so that result details play no role)
    lcases = []
    ops = []
    for i in range(150 if quick else 3000):
        e = G.gen_expr(run.rng, run.rng.choice([0, 1, 2, 3]), {"wrappers": True, "override": True})
        ops.append(("check_that", e, run.rng.choice(dom), True, run.rng.choice([None, "value", "the thing", ""])))
    for k in range(0, len(ops), 500):
        for (op, e, v, q, h), o in zip(ops[k:k + 500], I.run_operations(ops[k:k + 500])):
            run.evaluations += 1
            if len(o["checks"]) == 1:
                lcases.append((h, e, o["checks"][0][0]))
                want = "Expect %s %s" % (h, describe_full(e, False, False)[0]) if h is not None else \
                    "Expect %s" % describe_full(e, False, False)[0]
                if o["checks"][0][0] != want:
                    run.violation("sentence:differs-from-description", "the recorded sentence is not Expect <hint> <description>",
                                  {"kind": "sentence", "expr": repr(e), "hint": h, "recorded": o["checks"][0][0], "expected": want})
            elif o["outcome"][0] != "exc":
                run.tie_broken("check_that recorded %d checks" % len(o["checks"]), case=repr(e))
    run.count("sentences", len(lcases))

    # ---- correspondence inside Coq
    if getattr(run, "model_ok", False):
        files = [("d%d" % k, describe_file(dcases[k:k + 450])) for k in range(0, len(dcases), 450)]
        nd = len(files)
        files += [("l%d" % k, log_file(lcases[k:k + 450])) for k in range(0, len(lcases), 450)]
        outs = run.coq_eval_many(files)
        for k, (rc, out) in enumerate(outs):
            bad = lib.parse_nat_list(out) if rc == 0 else None
            if bad is None:
                run.tie_broken("case file %s did not evaluate" % files[k][0], detail=out[-1500:])
                continue
            for idx in bad[:2]:
                if k < nd:
                    e, c, n, s, c2, n2 = dcases[k * 450 + idx]
                    run.tie_broken("describe_st (model) = build_description (implementation), string and transformer afterwards",
                                   case={"expr": repr(e), "conjugate": c, "negative": n}, impl=[s, c2, n2])
                else:
                    h, e, s = lcases[(k - nd) * 450 + idx]
                    run.tie_broken("log_description (model) = sentence recorded by check_that", case={"expr": repr(e), "hint": h}, impl=s)
    check_in_descriptions(run)
    check_value_clause_context(run)
    run.coverage["rule"] = (
        "correspondence: seeded random expressions over all modelled constructors incl. wrappers (depth 0..4) x random transformer "
        "settings, description string and transformer state afterwards compared with Model.Describe inside Coq; sentences "
        "recorded by real check_that calls; oracles on every expression: transformer unchanged after build_description, "
        "operands of a composite described as alone (probe matchers), not_(not_ m) worded as m, not_ m worded as m under the "
        "flipped transformer, not_(composite) worded exactly as the dual composite of the negations (De Morgan), a composite "
        "with a composite operand -- bare, behind not_ or behind hide_result_details() -- itemised; faithfulness: "
        "expressions of the property's fragment -- negated composites and hide_result_details() included -- and up to 8 "
        "semantic neighbours of each (one connective swapped, one negation added or removed, hide_result_details() added or "
        "removed, a negation distributed with the same / the dual connective, a sibling constructor, a re-association, the "
        "other grouping of a line holding a negated or wrapped composite) grouped by "
        "description, accepted sets over a 29-value separating domain compared within a group, every collision must be "
        "explained by a recorded open cause whose rewrite is checked on the tree under test (wording-preserving, or "
        "logic-preserving and layout-only); "
        "non-trivial = a description shared by expressions with different accepted sets (explained collision), or a composite "
        "with a negated operand whose siblings were probed")


def transformer_oracles(run, e, c, n, observed):
    s, c2, n2 = observed
    if (c2, n2) != (c, n):
        culprit = G.shrink(e, lambda x: describe_full(x, c, n)[1:] != (c, n))
        run.violation("transformer:modified-by-build_description",
                      "build_description leaves the transformer it received modified",
                      {"kind": "transformer", "expr": repr(culprit), "conjugate": c, "negative": n,
                       "after": list(describe_full(culprit, c, n)[1:])})
    for x in nodes(e):
        hit = sibling_oracle(x, c, n)
        if x[0] in ("all_of", "any_of") and any(not G.is_value_arg(a) and strip_transparent(a)[0] in ("not_", "is_not_none") for a in x[1]) \
                and len(x[1]) >= 2:
            run.nontrivial.add(repr(x))
        if hit:
            small = G.shrink(x, lambda y: y[0] in ("all_of", "any_of") and bool(sibling_oracle(y, c, n)))
            h2 = sibling_oracle(small, c, n)
            run.violation("sibling:wording-depends-on-siblings",
                          "an operand is worded differently inside the composite than alone",
                          {"kind": "sibling", "expr": repr(small), "conjugate": c, "negative": n, "operand": h2[0],
                           "inside": h2[1], "alone": h2[2]})
            break
    for x in nodes(e):
        if x[0] in ("all_of", "any_of") and len(x[1]) >= 2:
            run.count("de_morgan_checked")
            if de_morgan_oracle(x, c, n):
                small = G.shrink(x, lambda y: y[0] in ("all_of", "any_of") and bool(de_morgan_oracle(y, c, n)))
                d1, d2 = de_morgan_oracle(small, c, n)
                run.violation("negation:composite-not-worded-by-de-morgan",
                              "not_(all_of(a, b)) is not described like any_of(not_(a), not_(b)) (or dually)",
                              {"kind": "de-morgan", "expr": repr(small), "conjugate": c, "negative": n,
                               "negated": d1, "dual_of_negations": d2})
                break
    for x in nodes(e):
        if x[0] in ("all_of", "any_of") and len(x[1]) >= 2:
            if grouping_oracle(x, c, n):
                small = G.shrink(x, lambda y: y[0] in ("all_of", "any_of") and bool(grouping_oracle(y, c, n)))
                run.violation("grouping:composite-operand-joined-on-one-line",
                              "a composite with an operand that is a composite (behind not_ / hide_result_details()) is described on one line",
                              {"kind": "grouping", "expr": repr(small), "conjugate": c, "negative": n,
                               "description": grouping_oracle(small, c, n)})
                break
    dn = describe_full(("not_", ("not_", e)), c, n)[0]
    if dn != s:
        run.violation("negation:double-negation-worded-differently", "not_(not_(m)) is not described like m",
                      {"kind": "double-negation", "expr": repr(G.shrink(e, lambda x: describe_full(("not_", ("not_", x)), c, n)[0] != describe_full(x, c, n)[0])),
                       "conjugate": c, "negative": n})
    d1 = describe_full(("not_", e), c, n)[0]
    d2 = describe_full(e, c, not n)[0]
    if d1 != d2:
        run.violation("negation:wording-does-not-follow-logic", "not_(m) is not described as m under the flipped transformer",
                      {"kind": "negation", "expr": repr(G.shrink(e, lambda x: describe_full(("not_", x), c, n)[0] != describe_full(x, c, not n)[0])),
                       "conjugate": c, "negative": n})


def de_morgan_oracle(x, c, n):
    """For a composite x = rel[a, b..]: None when not_(x) is described exactly like dual_rel[not_(a), not_(b)..] (also when an
    operand is itself a composite: both sides are then itemised), else the two descriptions."""
    d1 = describe_full(("not_", x), c, n)[0]
    d2 = describe_full((DUAL[x[0]], [("not_", a) for a in x[1]]), c, n)[0]
    return None if d1 == d2 else (d1, d2)


def grouping_oracle(x, c, n):
    """For a composite x: when one of its operands is a composite -- bare, behind not_ or behind hide_result_details() -- the
    description must be itemised (one item per operand), never one line.  Returns the description when it is not."""
    if any(not G.is_value_arg(a) and (strip_transparent(a)[0] in ("all_of", "any_of") or hidden_composite_under(a)) for a in x[1]):
        d = describe_full(x, c, n)[0]
        if not d.startswith(":\n"):
            return d
    return None


def replay(path):
    r = json.load(open(path))
    rp = r.get("replay") or {}
    kind = rp.get("kind")
    if kind == "faithful":
        e1, e2, v = G.parse(rp["expr1"]), G.parse(rp["expr2"]), G.parse(rp["value"])
        d1, d2 = describe_full(e1, False, False)[0], describe_full(e2, False, False)[0]
        a1, a2 = accepted(e1, [v])[0], accepted(e2, [v])[0]
        print(json.dumps({"description1": d1, "description2": d2, "verdict1": a1, "verdict2": a2}))
        return 1 if d1 == d2 and a1 != a2 else 0
    if kind in ("unstable", "negation-verdict"):
        e, v = G.parse(rp["expr"]), G.parse(rp["value"])
        first, again, neg = accepted(e, [v, v]), accepted(e, [v, v]), accepted(("not_", e), [v])
        print(json.dumps({"expr": rp["expr"], "value": rp["value"], "verdicts": list(first) + list(again), "negated": neg[0]}))
        return 1 if len(set(first + again)) > 1 or (neg[0] == first[0] and not raises_on(e, v)) else 0
    if kind == "transformer":
        e = G.parse(rp["expr"])
        after = describe_full(e, rp["conjugate"], rp["negative"])[1:]
        print(json.dumps({"expr": rp["expr"], "before": [rp["conjugate"], rp["negative"]], "after": list(after)}))
        return 1 if after != (rp["conjugate"], rp["negative"]) else 0
    if kind == "sibling":
        hit = sibling_oracle(G.parse(rp["expr"]), rp["conjugate"], rp["negative"])
        print(json.dumps({"expr": rp["expr"], "oracle": hit}))
        return 1 if hit else 0
    if kind == "double-negation":
        e = G.parse(rp["expr"])
        a, b = describe_full(("not_", ("not_", e)), rp["conjugate"], rp["negative"])[0], describe_full(e, rp["conjugate"], rp["negative"])[0]
        print(json.dumps({"not_not": a, "plain": b}))
        return 1 if a != b else 0
    if kind == "negation":
        e = G.parse(rp["expr"])
        a, b = describe_full(("not_", e), rp["conjugate"], rp["negative"])[0], describe_full(e, rp["conjugate"], not rp["negative"])[0]
        print(json.dumps({"not_": a, "flipped": b}))
        return 1 if a != b else 0
    if kind == "grouping":
        d = grouping_oracle(G.parse(rp["expr"]), rp["conjugate"], rp["negative"])
        print(json.dumps({"expr": rp["expr"], "description": d}))
        return 1 if d else 0
    if kind == "de-morgan":
        hit = de_morgan_oracle(G.parse(rp["expr"]), rp["conjugate"], rp["negative"])
        print(json.dumps({"expr": rp["expr"], "negated": hit and hit[0], "dual_of_negations": hit and hit[1]}))
        return 1 if hit else 0
    if kind == "sentence":
        e = G.parse(rp["expr"])
        o = I.run_operations([("check_that", e, None, True, rp["hint"])])[0]
        print(json.dumps(o, default=str))
        return 1 if not o["checks"] or o["checks"][0][0] != rp["expected"] else 0
    if r.get("kind") == "no-failing-input-found" or rp.get("kind") in ("in-operation", "value-clause"):
        # a broken proof / translator / correspondence without a failing input: re-run the whole check on the current tree
        import subprocess
        rc = subprocess.call([os.path.join(lib.ROOT, "check"), "C17", "--tier", "quick"])
        return 1 if rc else 0
    print("nothing to replay in", path)
    return 2
