"""C04 — test dependencies: ordering, skip propagation, early rejection of bad graphs.
Props/C04.v; SchedP.v (order, skip decisions), DepsP.v (resolution), Graph.v (edges)."""
import copy

import engine
import projgen
import propcommon
import runoracle

PROFILE = {"p_dep": 0.6, "max_tests": 5, "p_fail": 0.25, "max_fixtures": 2, "p_hook": 0.15, "script_len": 3, "p_spawn": 0.0, "p_dup_name": 0.5,
           "p_disabled_test": 0.15, "raise_kinds": ["Exception", "AbortTest"]}


def break_graph(rng, pd):
    """Turns a valid project into one with an invalid dependency graph. Returns (project, kind, exclude list)."""
    pd = copy.deepcopy(pd)
    tests = projgen.all_test_paths(pd)
    index = {}
    for path, s, dis in runoracle.walk_suites(pd):
        for t in s["tests"]:
            index[path + "." + t["name"]] = t
    kind = rng.choice(["unknown", "self-cycle", "cycle", "long-cycle", "filtered-out"])
    if kind == "unknown":
        index[rng.choice(tests)]["deps"].append("s9999.t9998")
        return pd, "unknown", []
    if kind == "self-cycle":
        t = rng.choice(tests)
        index[t]["deps"].append(t)
        return pd, "cyclic", []
    if kind in ("cycle", "long-cycle") and len(tests) >= 2:
        k = min(len(tests), 2 if kind == "cycle" else rng.randint(3, 6))
        ring = rng.sample(tests, k)
        for a, b in zip(ring, ring[1:] + ring[:1]):
            if b not in index[a]["deps"]:
                index[a]["deps"].append(b)
        return pd, "cyclic", []
    # a dependency on a test that the filter excludes from the run
    cands = [t for t in tests if index[t]["deps"]]
    if cands:
        t = rng.choice(cands)
        return pd, "filtered-out", [rng.choice(index[t]["deps"])]
    t = rng.choice(tests)
    index[t]["deps"].append(t)
    return pd, "cyclic", []


DEPS_HEADER = """From Coq Require Import List Arith Bool.
Import ListNotations.
From LCC Require Import Base.Util Model.Proj Model.Fixture Model.Deps.
Definition accepted (c : list suite * list suite) : bool :=
  match resolve_tests_dependencies (fst c) (snd c) with Ok _ => true | Err _ => false end.
"""


def check_resolution(run, cases, results, relation="Deps.resolve_tests_dependencies accepts exactly the graphs the implementation accepts"):
    """The dependency-resolution model against PreparedProject.create on valid and invalid graphs."""
    import lib
    import projcoq
    terms, want = [], []
    for c in cases:
        r = results.get(c["id"]) or {}
        oc = r.get("outcome") or ["?"]
        if oc[0] not in ("returned", "rejected", "raised"):
            continue
        if oc[0] == "rejected" and "ependenc" not in (oc[2] if len(oc) > 2 else "") and "ircular" not in (oc[2] if len(oc) > 2 else ""):
            continue        # rejected for another reason than the dependency graph
        sched = c.get("scheduled_project") or (projgen.filter_project(c["project"], set(c["exclude_tests"])) if c.get("exclude_tests") else c["project"])
        terms.append("(%s, %s)" % (lib.c_list(sched["suites"], projcoq.c_suite), lib.c_list(c["project"]["suites"], projcoq.c_suite)))
        want.append(oc[0] != "rejected")
    if not run.model_ok or not terms:
        return
    text = DEPS_HEADER + "Definition cases : list (list suite * list suite * bool) := [\n%s ].\n" % ";\n".join(
        "(%s, %s)" % (t, lib.c_bool(w)) for t, w in zip(terms, want)) + \
        "Eval vm_compute in (find_indexes (fun c => negb (Bool.eqb (accepted (fst c)) (snd c))) cases).\n"
    rc, out = run.coq_eval("deps", text)
    bad = lib.parse_nat_list(out) if rc == 0 else None
    if bad is None:
        run.tie_broken(relation, detail="case file did not evaluate: " + out[-1200:])
    elif bad:
        run.tie_broken(relation, detail="%d of %d cases differ (first: case %d)" % (len(bad), len(terms), bad[0]))


# ----------------------------------------------------------------------------- declared dependencies (paths and predicates)
NORM_HEADER = """From Coq Require Import List Arith Bool.
Import ListNotations.
From LCC Require Import Base.Util Model.Proj Model.Fixture Model.Deps Model.DepsPred.
Definition lp_eqb (a b : list path) : bool := list_eqb path_eqb a b.
Definition agrees (c : path * list path * list ddep * (list path * bool)) : bool :=
  let '(self, keys, decl, (want, err)) := c in
  let '(got, e) := walk self keys decl in lp_eqb got want && Bool.eqb e err.
"""


def gen_forest(rng):
    """A small forest of real Suite / Test objects with unique test paths; returns (suites, [tests in declaration order])."""
    from lemoncheesecake.suite import Suite, Test
    counter = [10]

    def fresh(prefix):
        counter[0] += 1
        return "%s%d" % (prefix, counter[0])

    def suite(depth):
        n = fresh("s")
        s = Suite(None, n, "desc " + n)
        for _ in range(rng.randint(0 if depth else 1, 3)):
            n = fresh("t")
            s.add_test(Test(n, "desc " + n, lambda: None))
        if depth < 2:
            for _ in range(rng.choice([0, 0, 1, 2])):
                s.add_suite(suite(depth + 1))
        return s
    return [suite(0) for _ in range(rng.randint(1, 3))]


def check_normalize(run):
    """suite/core.py:_normalize_test_dependencies run on random declared dependencies (paths, unknown paths, predicates true of
    several tests, of the depending test, of no test) against Model.DepsPred.walk."""
    import lib
    import projcoq
    from lemoncheesecake.suite import core
    from lemoncheesecake.testtree import flatten_tests_as_dict
    from lemoncheesecake.exceptions import ValidationError
    n = 250 if run.tier == "quick" else 6000
    rows = []
    for i in range(n):
        suites = gen_forest(run.rng)
        all_tests = flatten_tests_as_dict(suites)
        keys = list(all_tests.keys())
        if not keys:
            continue
        self_path = run.rng.choice(keys)
        test = all_tests[self_path]
        decl, real = [], []
        for _ in range(run.rng.randint(0, 4)):
            k = run.rng.random()
            if k < 0.35:
                p = run.rng.choice(keys)
                decl.append(("path", p)); real.append(p)
            elif k < 0.45:
                p = run.rng.choice(["s1.t1", "t999", self_path + "9", keys[0].split(".")[0]])
                decl.append(("path", p)); real.append(p)
            else:
                ext = [p for p in keys if run.rng.random() < 0.4]
                if run.rng.random() < 0.5:
                    ext.append(self_path)
                if run.rng.random() < 0.2:
                    ext.append("s1.t1")
                run.rng.shuffle(ext)
                decl.append(("pred", ext))
                style = run.rng.randint(0, 2)
                if style == 0:
                    real.append(lambda t, ext=tuple(ext): t.path in ext)
                elif style == 1:                      # a predicate over the object identity of the designated tests
                    objs = [all_tests[p] for p in ext if p in all_tests]
                    real.append(lambda t, objs=objs: any(t is o for o in objs))
                else:                                 # a callable object
                    class P(object):
                        def __init__(self, ext):
                            self.ext = set(ext)

                        def __call__(self, t):
                            return t.path in self.ext
                    real.append(P(ext))
        test.dependencies = real
        got, err = [], False
        try:
            gen = core._normalize_test_dependencies(test, all_tests)
        except TypeError as e:
            # the private generator has another signature: this differential cannot be run; the composition differential
            # (check_expand_project, through the public resolve_tests_dependencies) still is
            run.tie_broken("DepsPred.walk = what _normalize_test_dependencies yields (paths and predicates)",
                           detail="the generator could not be called as _normalize_test_dependencies(test, all_tests): %s" % e)
            return
        try:
            for d in gen:
                got.append(d.path)
        except ValidationError as e:
            err = True
            if "Cannot find dependency test" not in str(e):
                run.violation("oracle:normalize-error-text", "unexpected error %r" % str(e), {"decl": decl, "self": self_path})
        run.evaluations += 1
        run.count("normalize_cases")
        run.count("normalize:%s" % ("error" if err else "ok"))
        preds = [d for d in decl if d[0] == "pred"]
        if any(len([p for p in d[1] if p in all_tests and p != self_path]) >= 2 for d in preds):
            run.count("normalize_predicate_designating_several_tests")
            run.nontrivial.add("norm%d" % i)
        if any(self_path in d[1] for d in preds):
            run.count("normalize_predicate_true_of_the_depending_test")
        # the property itself, evaluated on what the implementation yielded
        if self_path in got and ("path", self_path) not in decl:
            run.violation("oracle:predicate-self-dependency", "%s depends on itself through a predicate" % self_path,
                          {"decl": decl, "self": self_path, "keys": keys, "yielded": got})
        for d in preds:
            want = [p for p in keys if p != self_path and p in d[1]]
            if not err and not _is_subsequence(want, got):
                run.violation("oracle:predicate-designation", "predicate over %r of %s: the tests %r are not yielded in project order (%r)"
                              % (d[1], self_path, want, got), {"decl": decl, "self": self_path, "keys": keys, "yielded": got})
        c_decl = lib.c_list(decl, lambda d: "DPath %s" % projcoq.c_pathstr(d[1]) if d[0] == "path"
                            else "DPred %s" % lib.c_list(d[1], projcoq.c_pathstr))
        rows.append(("(%s, %s, %s, (%s, %s))" % (projcoq.c_pathstr(self_path), lib.c_list(keys, projcoq.c_pathstr), c_decl,
                                                 lib.c_list(got, projcoq.c_pathstr), lib.c_bool(err)),
                     {"self": self_path, "keys": keys, "decl": decl, "yielded": got, "raised": err}))
    if not run.model_ok or not rows:
        return
    relation = "DepsPred.walk = what _normalize_test_dependencies yields (paths and predicates)"
    _eval_sharded(run, "normalize", NORM_HEADER, "list (path * list path * list ddep * (list path * bool))", rows, relation)


RESOLVE_HEADER = """From Coq Require Import List Arith Bool.
Import ListNotations.
From LCC Require Import Base.Util Model.Proj Model.Fixture Model.Deps Model.DepsPred.
Definition hk0 := mkHooks None None None None.
Definition row_eqb (a b : path * list path) : bool := path_eqb (fst a) (fst b) && list_eqb path_eqb (snd a) (snd b).
(* observation: 0 = accepted with these resolved dependencies; 1 = unknown; 2 = circular; 3 = not going to be run *)
Definition agrees (c : list suite * list (path * list ddep) * (nat * list (path * list path))) : bool :=
  let '(suites, table, (code, rows)) := c in
  let decl := fun p => match dict_find table p with Some l => l | None => [] end in
  let P := expand_project decl suites in
  match resolve_tests_dependencies P P with
  | Ok l => Nat.eqb code 0 && list_eqb row_eqb l rows
  | Err (ValidationError RDepUnknown) => Nat.eqb code 1
  | Err (ValidationError RDepCircular) => Nat.eqb code 2
  | Err (ValidationError RDepNotScheduled) => Nat.eqb code 3
  | Err _ => false
  end.
"""


def check_expand_project(run):
    """Whole forests whose tests declare their dependencies by paths and predicates: the real resolve_tests_dependencies against
    Deps.resolve_tests_dependencies of DepsPred.expand_project (the composition the theorems C04_unknown_dependency_comes_from_a_path
    and C04_self_edge_comes_from_a_path are about)."""
    import lib
    import projcoq
    from lemoncheesecake.suite import core
    from lemoncheesecake.testtree import flatten_tests_as_dict
    from lemoncheesecake.exceptions import ValidationError
    n = 150 if run.tier == "quick" else 4000
    rows = []

    def c_suite(s):
        return "Suite %s false hk0 [] %s %s" % (projcoq.c_name(s.name),
                                                  lib.c_list(s.get_tests(), lambda t: "mkTest %s false [] [] [] []" % projcoq.c_name(t.name)),
                                                  lib.c_list(s.get_suites(), c_suite))
    for i in range(n):
        suites = gen_forest(run.rng)
        all_tests = flatten_tests_as_dict(suites)
        keys = list(all_tests.keys())
        table = []
        shared = []                                       # predicate objects used by several tests (needs_init = lcc.depends_on(pred))
        mostly_backward = run.rng.random() < 0.6          # acyclic most of the time: dependencies on earlier tests
        for k, p in enumerate(keys):
            decl, real = [], []
            for _ in range(run.rng.choice([0, 0, 1, 1, 2])):
                pool = keys[:k] if (mostly_backward and k) else keys
                r = run.rng.random()
                if r < 0.35:
                    q = run.rng.choice(pool)
                    decl.append(("path", q)); real.append(q)
                elif r < 0.40:
                    decl.append(("path", "s1.t1")); real.append("s1.t1")
                elif shared and run.rng.random() < 0.35:
                    ext, obj = run.rng.choice(shared)     # the very same predicate object as another test
                    decl.append(("pred", list(ext))); real.append(obj)
                    run.count("expand_project_shared_predicate_objects")
                else:
                    ext = [q for q in pool if run.rng.random() < 0.35]
                    if run.rng.random() < 0.5:
                        ext.append(p)
                    if run.rng.random() < 0.3 and k + 1 < len(keys):
                        ext.append(keys[k + 1])           # ... true of a later test too (which may use the same object)
                    run.rng.shuffle(ext)
                    obj = (lambda t, ext=frozenset(ext): t.path in ext)
                    shared.append((ext, obj))
                    decl.append(("pred", ext)); real.append(obj)
            all_tests[p].dependencies = real
            if decl:
                table.append((p, decl))
        try:
            core.resolve_tests_dependencies(suites, suites)
            code, res = 0, [(p, [d.path for d in t.resolved_dependencies]) for p, t in all_tests.items()]
        except ValidationError as e:
            msg = str(e)
            code, res = (1 if "Cannot find dependency test" in msg else 2 if "circular" in msg else 3 if "not going to be run" in msg else 9), []
        run.evaluations += 1
        run.count("expand_project_cases")
        run.count("expand_project_outcome:%d" % code)
        if code == 0 and sum(1 for _, d in table for x in d if x[0] == "pred") >= 2:
            run.nontrivial.add("exp%d" % i)
        # what each test resolved to, against the meaning of its declarations (independent of the model): a path is itself, a
        # predicate the tests of the project it holds for, the depending test excepted, in project order
        if code == 0:
            decl_of = dict(table)
            for p, got in res:
                want = []
                for d in decl_of.get(p, []):
                    want += [d[1]] if d[0] == "path" else [q for q in keys if q != p and q in d[1]]
                if got != want:
                    run.violation("oracle:resolved-dependencies-differ-from-the-declarations",
                                  "test %s declares %r and resolves to %r instead of %r" % (p, decl_of.get(p, []), got, want),
                                  {"keys": keys, "declared": table, "test": p, "resolved": got, "expected": want})
                    break
        # the composition theorem, on what the implementation did: an unknown dependency needs an unknown path in some declaration
        if code == 1 and not any(x[0] == "path" and x[1] not in all_tests for _, d in table for x in d):
            run.violation("oracle:unknown-dependency-without-an-unknown-path", "rejected for an unknown dependency although every "
                          "declared path is a test of the project", {"keys": keys, "declared": table})
        c_table = lib.c_list(table, lambda r: "(%s, %s)" % (projcoq.c_pathstr(r[0]), lib.c_list(
            r[1], lambda d: "DPath %s" % projcoq.c_pathstr(d[1]) if d[0] == "path" else "DPred %s" % lib.c_list(d[1], projcoq.c_pathstr))))
        c_rows = lib.c_list(res, lambda r: "(%s, %s)" % (projcoq.c_pathstr(r[0]), lib.c_list(r[1], projcoq.c_pathstr)))
        rows.append(("(%s, %s, (%d, %s))" % (lib.c_list(suites, c_suite), c_table, code, c_rows),
                     {"keys": keys, "declared": table, "code": code, "resolved": res}))
    if not run.model_ok or not rows:
        return
    relation = "Deps.resolve_tests_dependencies (DepsPred.expand_project decl suites) = the real resolve_tests_dependencies on declared paths and predicates"
    _eval_sharded(run, "expandproject", RESOLVE_HEADER, "list (list suite * list (path * list ddep) * (nat * list (path * list path)))",
                  rows, relation)


def _eval_sharded(run, name, header, ty, rows, relation, size=400):
    """rows = [(Gallina term, replay description)]: case files of at most `size` rows, compiled in parallel."""
    import lib
    shards = [rows[i:i + size] for i in range(0, len(rows), size)]
    files = [("%s%d" % (name, k), header + "Definition cases : %s := [\n%s ].\n" % (ty, ";\n".join(r[0] for r in sh))
              + "Eval vm_compute in (find_indexes (fun c => negb (agrees c)) cases).\n") for k, sh in enumerate(shards)]
    reported = 0
    for k, (rc, out) in enumerate(run.coq_eval_many(files)):
        bad = lib.parse_nat_list(out) if rc == 0 else None
        if bad is None:
            run.tie_broken(relation, detail="case file did not evaluate: " + out[-1200:])
            continue
        for idx in bad:
            if reported < 2:
                run.tie_broken(relation, case=shards[k][idx][1])
                reported += 1


def _is_subsequence(a, b):
    it = iter(b)
    return all(x in it for x in a)


def check(run):
    run.trusted += engine.TRUSTED
    run.assume += engine.ASSUME + ["a predicate dependency is modelled by its extension over the test paths of the project (Model/DepsPred.v), and its path form is what Model/Deps.v and Model/Graph.v receive"]
    run.prove(extra_targets=engine.TARGETS + ["theories/Model/Deps.vo", "theories/Model/DepsPred.vo"])
    n_valid, n_bad = (140, 70) if run.tier == "quick" else (4000, 2000)
    cases = engine.gen_cases(run, n_valid, profile=PROFILE, threads=(1, 2, 3, 4) if run.tier == "quick" else (1, 2, 3, 4, 6, 8), prefix="d")
    # a third of the valid cases also filter out tests nobody depends on
    for c in cases:
        if run.rng.random() < 0.3:
            tests = projgen.all_test_paths(c["project"])
            needed = set()
            for path, s, dis in runoracle.walk_suites(c["project"]):
                for t in s["tests"]:
                    needed |= set(t["deps"])
            excl = [t for t in tests if t not in needed and run.rng.random() < 0.3]
            if excl and len(excl) < len(tests):
                c["exclude_tests"] = excl
                c["scheduled_project"] = projgen.filter_project(c["project"], set(excl))
                run.count("valid_with_filter")
    for i in range(n_bad):
        pd = projgen.gen_project(run.rng, **PROFILE)
        bad, kind, excl = break_graph(run.rng, pd)
        c = {"id": "x%d" % i, "project": bad, "sched": [], "options": {"nb_threads": run.rng.choice([1, 2])}, "expect_rejected": kind}
        if excl:
            c["exclude_tests"] = excl
        cases.append(c)
        run.count("invalid:" + kind)

    def nontrivial(c, r):
        if c.get("expect_rejected"):
            return True
        trans, direct = runoracle.transitive_deps(c.get("scheduled_project") or c["project"])
        return sum(1 for d in direct.values() if d) >= 2
    results = propcommon.run_cases(run, cases, runoracle.c04_oracle, nontrivial)
    check_resolution(run, cases, results)
    check_normalize(run)
    check_expand_project(run)
    # a dependency that neither succeeded nor failed: its body left through a BaseException (sys.exit()); its task ends with an
    # exception result and everything that depends on it -- over any number of hops -- must be skipped all the same
    base = engine.gen_cases(run, 30 if run.tier == "quick" else 500,
                            profile=dict(PROFILE, raise_kinds=["Base", "Base", "Exception"], p_fail=0.3, p_raise_in_fail=0.8, p_dep=0.8),
                            threads=(1, 2, 3), prefix="db")
    nohooks = {"setup_suite": None, "teardown_suite": None, "setup_test": None, "teardown_test": None}

    def tst(name, rank, deps, body):
        return {"name": name, "disabled": False, "rank": rank, "deps": deps, "args": [], "params": {}, "body": body}
    for k, (hops, nthreads, cross) in enumerate([(3, 1, False), (4, 2, False), (3, 2, True), (5, 3, True)]):
        d = copy.deepcopy(base[0])
        d["id"] = "dbd%d" % k
        d.pop("interrupt_at", None)
        d.pop("scheduled_project", None)
        d["options"].update({"nb_threads": nthreads, "stop_on_failure": False, "force_disabled": False})
        names = ["t%d" % (10 + i) for i in range(hops + 1)]
        suite_of = ["s6" if (not cross or i % 2 == 0) else "s7" for i in range(hops + 1)]
        tests = {"s6": [], "s7": []}
        for i, n in enumerate(names):
            tests[suite_of[i]].append(tst(n, i, ["%s.%s" % (suite_of[i - 1], names[i - 1])] if i else [],
                                          [["raise", "Base"]] if i == 0 else [["mark", i]]))
        d["project"] = {"fixtures": [], "suites": [{"name": sn, "disabled": False, "rank": j, "hooks": nohooks, "injected": [],
                                                     "tests": tests[sn], "subs": []}
                                                    for j, sn in enumerate(["s6", "s7"]) if tests[sn]]}
        base.append(d)
    # a dependency skipped because its SUITE was aborted (AbortSuite raised by an earlier test of that suite): the dependents in
    # other suites and in sub-suites are skipped too
    acases = []
    for k, (nthreads, where) in enumerate([(1, "body"), (2, "body"), (1, "teardown_test"), (3, "body")]):
        a_tests = [tst("t10", 0, [], [["raise", "AbortSuite"]] if where == "body" else [["mark", 1]]),
                   tst("t11", 1, [], [["mark", 2]]), tst("t12", 2, ["s6.t11"], [["mark", 3]])]
        hooks = dict(nohooks, teardown_test=[["raise", "AbortSuite"]]) if where == "teardown_test" else nohooks
        sub = {"name": "s8", "disabled": False, "rank": 0, "hooks": nohooks, "injected": [], "subs": [],
               "tests": [tst("t20", 0, ["s6.t11"], [["mark", 4]]), tst("t21", 1, [], [["mark", 5]])]}
        b = {"name": "s7", "disabled": False, "rank": 1, "hooks": nohooks, "injected": [], "subs": [],
             "tests": [tst("t30", 0, ["s6.t11"], [["mark", 6]]), tst("t31", 1, ["s7.t30"], [["mark", 7]]), tst("t32", 2, [], [["mark", 8]])]}
        a = {"name": "s6", "disabled": False, "rank": 0, "hooks": hooks, "injected": [], "tests": a_tests, "subs": [sub]}
        acases.append({"id": "das%d" % k, "project": {"fixtures": [], "suites": [a, b]}, "sched": projgen.gen_sched(run.rng),
                       "options": {"nb_threads": nthreads, "stop_on_failure": False, "force_disabled": False}})
    ares = engine.cosim(run, acases)
    for c in acases:
        r = ares.get(c["id"]) or {"outcome": ["hang", "no result"]}
        run.evaluations += 1
        run.count("dependency_in_an_aborted_suite_runs")
        for sig, text in runoracle.c04_oracle(c, r):
            run.violation(sig, text, {"case": c, "outcome": r.get("outcome")})
    for c in base:
        c["base_exception"] = True
    bres = engine.cosim(run, base, layers=(1, 2))
    for c in base:
        r = bres.get(c["id"]) or {"outcome": ["hang", "no result"]}
        run.evaluations += 1
        run.count("base_exception_cases")
        run.count("base_exception_outcome:" + str((r.get("outcome") or ["?"])[0]))
        trans, direct = runoracle.transitive_deps(c["project"])
        if any(len(v) >= 2 for v in trans.values()) and (r.get("outcome") or ["?"])[0] == "raised":
            run.nontrivial.add(c["id"])
            run.count("base_exception_cases_with_a_chain_of_two_hops_or_more")
        for sig, text in runoracle.c04_oracle(c, r):
            run.violation(sig, text, {"case": c, "outcome": r.get("outcome")})
    run.coverage["rule"] = ("seeded random projects biased towards depends_on (chains, diamonds, later-declared and cross-suite "
                            "targets) with failing / disabled tests, some with unrelated tests filtered out; plus a malformed stream: "
                            "unknown paths, cycles of length 1..6, dependencies excluded by the filter (must be rejected before anything "
                            "runs); non-trivial = at least two tests with dependencies, or an invalid graph")


_replay_case = propcommon.make_replay(runoracle.c04_oracle)


def replay(path):
    """replays of the run model are re-simulated; the replays of the declared-dependency differentials (no project in them)
    re-run the whole quick check on the current tree"""
    import json
    import os
    import lib
    r = json.load(open(path))
    rp = r.get("replay") or {}
    first = (r.get("broken") or [{}])[0].get("case") or {}
    if ("declared" in rp or "decl" in rp or "declared" in first or "decl" in first) and "project" not in rp and "project" not in first:
        import subprocess
        rc = subprocess.call([os.path.join(lib.ROOT, "check"), "C04", "--tier", "quick"])
        return 1 if rc else 0
    return _replay_case(path)
