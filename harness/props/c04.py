"""C04 — test dependencies: ordering, skip propagation, early rejection of bad graphs.
Props/C04.v; SchedP.v (order, skip decisions), DepsP.v (resolution), Graph.v (edges)."""
import copy

import engine
import projgen
import propcommon
import runoracle

PROFILE = {"p_dep": 0.6, "max_tests": 5, "p_fail": 0.25, "max_fixtures": 2, "p_hook": 0.15, "script_len": 3, "p_spawn": 0.0, "p_dup_name": 0.5,
           "p_disabled_test": 0.15, "raise_kinds": ["Exception", "AbortTest"]}


def break_graph(rng, pd):
    """Turns a valid project into one with an invalid dependency graph. Returns (project, kind, exclude list)."""
    pd = copy.deepcopy(pd)
    tests = projgen.all_test_paths(pd)
    index = {}
    for path, s, dis in runoracle.walk_suites(pd):
        for t in s["tests"]:
            index[path + "." + t["name"]] = t
    kind = rng.choice(["unknown", "self-cycle", "cycle", "long-cycle", "filtered-out"])
    if kind == "unknown":
        index[rng.choice(tests)]["deps"].append("s9999.t9998")
        return pd, "unknown", []
    if kind == "self-cycle":
        t = rng.choice(tests)
        index[t]["deps"].append(t)
        return pd, "cyclic", []
    if kind in ("cycle", "long-cycle") and len(tests) >= 2:
        k = min(len(tests), 2 if kind == "cycle" else rng.randint(3, 6))
        ring = rng.sample(tests, k)
        for a, b in zip(ring, ring[1:] + ring[:1]):
            if b not in index[a]["deps"]:
                index[a]["deps"].append(b)
        return pd, "cyclic", []
    # a dependency on a test that the filter excludes from the run
    cands = [t for t in tests if index[t]["deps"]]
    if cands:
        t = rng.choice(cands)
        return pd, "filtered-out", [rng.choice(index[t]["deps"])]
    t = rng.choice(tests)
    index[t]["deps"].append(t)
    return pd, "cyclic", []


DEPS_HEADER = """From Coq Require Import List Arith Bool.
Import ListNotations.
From LCC Require Import Base.Util Model.Proj Model.Fixture Model.Deps.
Definition accepted (c : list suite * list suite) : bool :=
  match resolve_tests_dependencies (fst c) (snd c) with Ok _ => true | Err _ => false end.
"""


def check_resolution(run, cases, results, relation="Deps.resolve_tests_dependencies accepts exactly the graphs the implementation accepts"):
    """The dependency-resolution model against PreparedProject.create on valid and invalid graphs."""
    import lib
    import projcoq
    terms, want = [], []
    for c in cases:
        r = results.get(c["id"]) or {}
        oc = r.get("outcome") or ["?"]
        if oc[0] not in ("returned", "rejected", "raised"):
            continue
        if oc[0] == "rejected" and "ependenc" not in (oc[2] if len(oc) > 2 else "") and "ircular" not in (oc[2] if len(oc) > 2 else ""):
            continue        # rejected for another reason than the dependency graph
        sched = c.get("scheduled_project") or (projgen.filter_project(c["project"], set(c["exclude_tests"])) if c.get("exclude_tests") else c["project"])
        terms.append("(%s, %s)" % (lib.c_list(sched["suites"], projcoq.c_suite), lib.c_list(c["project"]["suites"], projcoq.c_suite)))
        want.append(oc[0] != "rejected")
    if not run.model_ok or not terms:
        return
    text = DEPS_HEADER + "Definition cases : list (list suite * list suite * bool) := [\n%s ].\n" % ";\n".join(
        "(%s, %s)" % (t, lib.c_bool(w)) for t, w in zip(terms, want)) + \
        "Eval vm_compute in (find_indexes (fun c => negb (Bool.eqb (accepted (fst c)) (snd c))) cases).\n"
    rc, out = run.coq_eval("deps", text)
    bad = lib.parse_nat_list(out) if rc == 0 else None
    if bad is None:
        run.tie_broken(relation, detail="case file did not evaluate: " + out[-1200:])
    elif bad:
        run.tie_broken(relation, detail="%d of %d cases differ (first: case %d)" % (len(bad), len(terms), bad[0]))


def check(run):
    run.trusted += engine.TRUSTED
    run.assume += engine.ASSUME + ["depends_on in path form (predicate dependencies are normalised to paths by the same resolution code)"]
    run.prove(extra_targets=engine.TARGETS + ["theories/Model/Deps.vo"])
    n_valid, n_bad = (140, 70) if run.tier == "quick" else (4000, 2000)
    cases = engine.gen_cases(run, n_valid, profile=PROFILE, threads=(1, 2, 3, 4) if run.tier == "quick" else (1, 2, 3, 4, 6, 8), prefix="d")
    # a third of the valid cases also filter out tests nobody depends on
    for c in cases:
        if run.rng.random() < 0.3:
            tests = projgen.all_test_paths(c["project"])
            needed = set()
            for path, s, dis in runoracle.walk_suites(c["project"]):
                for t in s["tests"]:
                    needed |= set(t["deps"])
            excl = [t for t in tests if t not in needed and run.rng.random() < 0.3]
            if excl and len(excl) < len(tests):
                c["exclude_tests"] = excl
                c["scheduled_project"] = projgen.filter_project(c["project"], set(excl))
                run.count("valid_with_filter")
    for i in range(n_bad):
        pd = projgen.gen_project(run.rng, **PROFILE)
        bad, kind, excl = break_graph(run.rng, pd)
        c = {"id": "x%d" % i, "project": bad, "sched": [], "options": {"nb_threads": run.rng.choice([1, 2])}, "expect_rejected": kind}
        if excl:
            c["exclude_tests"] = excl
        cases.append(c)
        run.count("invalid:" + kind)

    def nontrivial(c, r):
        if c.get("expect_rejected"):
            return True
        trans, direct = runoracle.transitive_deps(c.get("scheduled_project") or c["project"])
        return sum(1 for d in direct.values() if d) >= 2
    results = propcommon.run_cases(run, cases, runoracle.c04_oracle, nontrivial)
    check_resolution(run, cases, results)
    # a dependency that neither succeeded nor failed: its body left through a BaseException (sys.exit()); its task ends with an
    # exception result and everything that depends on it -- over any number of hops -- must be skipped all the same
    base = engine.gen_cases(run, 30 if run.tier == "quick" else 500,
                            profile=dict(PROFILE, raise_kinds=["Base", "Base", "Exception"], p_fail=0.3, p_raise_in_fail=0.8, p_dep=0.8),
                            threads=(1, 2, 3), prefix="db")
    nohooks = {"setup_suite": None, "teardown_suite": None, "setup_test": None, "teardown_test": None}

    def tst(name, rank, deps, body):
        return {"name": name, "disabled": False, "rank": rank, "deps": deps, "args": [], "params": {}, "body": body}
    for k, (hops, nthreads, cross) in enumerate([(3, 1, False), (4, 2, False), (3, 2, True), (5, 3, True)]):
        d = copy.deepcopy(base[0])
        d["id"] = "dbd%d" % k
        d.pop("interrupt_at", None)
        d.pop("scheduled_project", None)
        d["options"].update({"nb_threads": nthreads, "stop_on_failure": False, "force_disabled": False})
        names = ["t%d" % (10 + i) for i in range(hops + 1)]
        suite_of = ["s6" if (not cross or i % 2 == 0) else "s7" for i in range(hops + 1)]
        tests = {"s6": [], "s7": []}
        for i, n in enumerate(names):
            tests[suite_of[i]].append(tst(n, i, ["%s.%s" % (suite_of[i - 1], names[i - 1])] if i else [],
                                          [["raise", "Base"]] if i == 0 else [["mark", i]]))
        d["project"] = {"fixtures": [], "suites": [{"name": sn, "disabled": False, "rank": j, "hooks": nohooks, "injected": [],
                                                     "tests": tests[sn], "subs": []}
                                                    for j, sn in enumerate(["s6", "s7"]) if tests[sn]]}
        base.append(d)
    # a dependency skipped because its SUITE was aborted (AbortSuite raised by an earlier test of that suite): the dependents in
    # other suites and in sub-suites are skipped too
    acases = []
    for k, (nthreads, where) in enumerate([(1, "body"), (2, "body"), (1, "teardown_test"), (3, "body")]):
        a_tests = [tst("t10", 0, [], [["raise", "AbortSuite"]] if where == "body" else [["mark", 1]]),
                   tst("t11", 1, [], [["mark", 2]]), tst("t12", 2, ["s6.t11"], [["mark", 3]])]
        hooks = dict(nohooks, teardown_test=[["raise", "AbortSuite"]]) if where == "teardown_test" else nohooks
        sub = {"name": "s8", "disabled": False, "rank": 0, "hooks": nohooks, "injected": [], "subs": [],
               "tests": [tst("t20", 0, ["s6.t11"], [["mark", 4]]), tst("t21", 1, [], [["mark", 5]])]}
        b = {"name": "s7", "disabled": False, "rank": 1, "hooks": nohooks, "injected": [], "subs": [],
             "tests": [tst("t30", 0, ["s6.t11"], [["mark", 6]]), tst("t31", 1, ["s7.t30"], [["mark", 7]]), tst("t32", 2, [], [["mark", 8]])]}
        a = {"name": "s6", "disabled": False, "rank": 0, "hooks": hooks, "injected": [], "tests": a_tests, "subs": [sub]}
        acases.append({"id": "das%d" % k, "project": {"fixtures": [], "suites": [a, b]}, "sched": projgen.gen_sched(run.rng),
                       "options": {"nb_threads": nthreads, "stop_on_failure": False, "force_disabled": False}})
    ares = engine.cosim(run, acases)
    for c in acases:
        r = ares.get(c["id"]) or {"outcome": ["hang", "no result"]}
        run.evaluations += 1
        run.count("dependency_in_an_aborted_suite_runs")
        for sig, text in runoracle.c04_oracle(c, r):
            run.violation(sig, text, {"case": c, "outcome": r.get("outcome")})
    for c in base:
        c["base_exception"] = True
    bres = engine.cosim(run, base, layers=(1, 2))
    for c in base:
        r = bres.get(c["id"]) or {"outcome": ["hang", "no result"]}
        run.evaluations += 1
        run.count("base_exception_cases")
        run.count("base_exception_outcome:" + str((r.get("outcome") or ["?"])[0]))
        trans, direct = runoracle.transitive_deps(c["project"])
        if any(len(v) >= 2 for v in trans.values()) and (r.get("outcome") or ["?"])[0] == "raised":
            run.nontrivial.add(c["id"])
            run.count("base_exception_cases_with_a_chain_of_two_hops_or_more")
        for sig, text in runoracle.c04_oracle(c, r):
            run.violation(sig, text, {"case": c, "outcome": r.get("outcome")})
    run.coverage["rule"] = ("seeded random projects biased towards depends_on (chains, diamonds, later-declared and cross-suite "
                            "targets) with failing / disabled tests, some with unrelated tests filtered out; plus a malformed stream: "
                            "unknown paths, cycles of length 1..6, dependencies excluded by the filter (must be rejected before anything "
                            "runs); non-trivial = at least two tests with dependencies, or an invalid graph")


replay = propcommon.make_replay(runoracle.c04_oracle)
