"""C01 — every scheduled test accounted for exactly once; the run terminates.
Layer 1 (dispatch loop): Model/Sched.v, Proofs/SchedP.v, Props/C01.v."""
import json

import l1
import lib
import projgen
import runoracle
import sim

COQ_HEADER = """From Coq Require Import List Arith Bool.
Import ListNotations.
From LCC Require Import Base.Util Model.Proj Model.Sched.
Definition case := (graph * nat * bool * list move)%type.
Definition ok (c : case) : bool :=
  let '(g, n, sof, ms) := c in
  wf_b g (toposort g) &&
  match run g n sof (init g n) ms with Some s => finished g s | None => false end.
Definition where_rejected (c : case) : option nat :=
  let '(g, n, sof, ms) := c in first_rejected g n sof (init g n) ms 0.
"""


def l1_case_term(case, r):
    L = l1.L1(r["graph"])
    moves, human = L.moves(r["trace"])
    n = int(case["options"].get("nb_threads", 1))
    sof = bool(case["options"].get("stop_on_failure"))
    return "(%s,\n   %d, %s,\n   %s)" % (l1.c_graph(r["graph"]), n, lib.c_bool(sof), "[" + "; ".join(moves) + "]"), human


def l1_file(terms):
    return COQ_HEADER + "Definition cases : list case := [\n  %s\n].\n" % ";\n  ".join(terms) + \
        "Eval vm_compute in (find_indexes (fun c => negb (ok c)) cases).\n"


L2_HEADER = """From Coq Require Import List Arith Bool.
Import ListNotations.
From LCC Require Import Base.Util Model.Proj Model.Sched Model.Graph Model.Fixture Model.GraphOf.
Definition ok (c : project * bool * graph) : bool :=
  let '(p, f, g) := c in match graph_of_project p f with Some g' => graph_eqb g' g | None => false end.
"""


def check_l2(run, cases, results, relation="GraphOf.graph_of_project = runner.build_tasks (kinds, order, both dependency lists)"):
    """Layer-2 correspondence: the model's task graph of the generated project equals the implementation's."""
    import projcoq
    terms, ids = [], []
    for c in cases:
        r = results.get(c["id"])
        if not r or not r.get("graph"):
            continue
        try:
            terms.append("(%s,\n %s,\n %s)" % (projcoq.c_project(c["project"]), lib.c_bool(c["options"].get("force_disabled")),
                                              l1.c_graph(r["graph"])))
        except l1.Unmodelled as e:
            run.tie_broken(relation, case={"id": c["id"]}, detail="unmodelled: %s" % e)
            continue
        ids.append(c["id"])
    if not run.model_ok or not terms:
        return
    shards = [(terms[i:i + 100], ids[i:i + 100]) for i in range(0, len(terms), 100)]
    outs = run.coq_eval_many([("l2_%d" % k, L2_HEADER + "Definition cases : list (project * bool * graph) := [\n%s ].\n"
                               "Eval vm_compute in (find_indexes (fun c => negb (ok c)) cases).\n" % ";\n".join(t))
                              for k, (t, _) in enumerate(shards)])
    for (t, idl), (rc, out) in zip(shards, outs):
        bad = lib.parse_nat_list(out) if rc == 0 else None
        if bad is None:
            run.tie_broken(relation, detail="case file did not evaluate: " + out[-1200:])
            continue
        for b in bad[:3]:
            case = next(c for c in cases if c["id"] == idl[b])
            run.tie_broken(relation, case={"id": idl[b], "project": case["project"], "options": case["options"]},
                           impl=results[idl[b]]["graph"])


def gen_cases(run, n_cases, profile=None, threads=(1, 2, 3, 4), prefix="c"):
    cases = []
    for i in range(n_cases):
        pd = projgen.gen_project(run.rng, **(profile or {}))
        n = run.rng.choice(threads)
        cases.append({"id": "%s%d" % (prefix, i), "project": pd, "sched": projgen.gen_sched(run.rng),
                      "options": {"nb_threads": n, "stop_on_failure": run.rng.random() < 0.2,
                                  "force_disabled": run.rng.random() < 0.15}})
    return cases


def check_l1(run, cases, results, relation="Sched.run accepts the implementation's task-level trace"):
    """Layer-1 correspondence for a batch of finished runs."""
    terms, ids = [], []
    for c in cases:
        r = results.get(c["id"])
        if not r or not r.get("graph") or r.get("outcome", ["?"])[0] not in ("returned", "raised"):
            continue
        try:
            term, human = l1_case_term(c, r)
        except l1.Unmodelled as e:
            run.tie_broken(relation, case={"id": c["id"]}, detail="unmodelled: %s" % e)
            continue
        terms.append(term)
        ids.append(c["id"])
    if not run.model_ok or not terms:
        return
    shards = [(terms[i:i + 150], ids[i:i + 150]) for i in range(0, len(terms), 150)]
    outs = run.coq_eval_many([("l1_%d" % k, l1_file(t)) for k, (t, _) in enumerate(shards)])
    for (t, idl), (rc, out) in zip(shards, outs):
        bad = lib.parse_nat_list(out) if rc == 0 else None
        if bad is None:
            run.tie_broken(relation, detail="case file did not evaluate: " + out[-1200:])
            continue
        for b in bad[:3]:
            cid = idl[b]
            case = next(c for c in cases if c["id"] == cid)
            run.tie_broken(relation, case={"id": cid, "project": case["project"], "options": case["options"], "sched": case["sched"][:60]},
                           impl={"graph": results[cid]["graph"], "moves": l1_case_term(case, results[cid])[1][:200]})


def check(run):
    run.trusted += [
        "modelled, not verified: multiprocessing.dummy.Pool as a FIFO job queue served by n workers, queue.Queue as FIFO, "
        "GIL atomicity of list/set/dict operations; the deterministic-scheduler doubles (harness/detsched.py) stand for them",
        "user code is assumed to terminate; a task's own behaviour is abstract at this layer (any result the code can produce)",
    ]
    run.assume += ["interleavings are explored at the yield points of harness/detsched.py (take, fire, mark, completion put, "
                   "main get, handler get, joins); pre-emption inside one of these atomic blocks is not exhibited"]
    run.prove(extra_targets=["theories/Base/Util.vo", "theories/Model/Proj.vo", "theories/Model/Sched.vo",
                             "theories/Model/GraphOf.vo"])
    n = 120 if run.tier == "quick" else 3000
    cases = gen_cases(run, n, profile={"p_empty_suite": 0.08}, threads=(1, 2, 3, 4) if run.tier == "quick" else (1, 2, 3, 4, 6, 8))
    results = sim.run_cases(cases)
    for c in cases:
        r = results.get(c["id"]) or {"outcome": ["hang", "no result"]}
        run.evaluations += 1
        nt = projgen.count_tests(c["project"])
        run.count("threads=%d" % c["options"]["nb_threads"])
        run.count("tests", nt)
        run.count("outcome:" + str(r["outcome"][0]))
        if r.get("graph") and len(r["graph"]) > 3 and c["options"]["nb_threads"] > 1:
            run.nontrivial.add(c["id"])
        for sig, text in runoracle.c01_oracle(c, r):
            run.violation(sig, text, {"case": c, "outcome": r.get("outcome"), "traceback": r.get("traceback")})
        if len(run.samples) < 2:
            run.sample({"project": c["project"], "options": c["options"], "sched_prefix": c["sched"][:20],
                        "outcome": r.get("outcome"), "graph": r.get("graph")})
    check_l1(run, cases, results)
    check_l2(run, cases, results)
    run.coverage["rule"] = ("seeded random projects (nested suites, disabled tests/suites, depends_on, fixtures of 4 scopes, hooks, "
                            "scripts with failures of every kind) run by the real runner under a deterministic scheduler with "
                            "random/biased schedules and 1..4 (thorough: ..8) threads; non-trivial = more than 3 tasks and more "
                            "than one thread")
    run.coverage["traces_validated_against_impl"] = len([c for c in cases if results.get(c["id"], {}).get("graph")])


def replay(path):
    import corun
    r = json.load(open(path))
    case = (r.get("replay") or {}).get("case")
    if not case:
        print("nothing to replay")
        return 2
    res = sim.run_cases([case])[case["id"]]
    hits = runoracle.c01_oracle(case, res)
    print(json.dumps({"outcome": res.get("outcome"), "oracle": hits}, indent=1))
    return 1 if hits else 0
