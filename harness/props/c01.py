"""C01 — every scheduled test accounted for exactly once; the run terminates.
Layer 1 (dispatch loop): Model/Sched.v, Proofs/SchedP.v, Props/C01.v."""
import json

import engine
import propcommon
import projgen
import runoracle
import sim


def check(run):
    run.trusted += engine.TRUSTED
    run.assume += engine.ASSUME
    run.prove(extra_targets=engine.TARGETS)
    n = 120 if run.tier == "quick" else 3000
    cases = engine.gen_cases(run, n, profile={"p_empty_suite": 0.08},
                             threads=(1, 2, 3, 4) if run.tier == "quick" else (1, 2, 3, 4, 6, 8))
    results = engine.cosim(run, cases)
    for c in cases:
        r = results.get(c["id"]) or {"outcome": ["hang", "no result"]}
        run.evaluations += 1
        run.count("threads=%d" % c["options"]["nb_threads"])
        run.count("tests", projgen.count_tests(c["project"]))
        run.count("outcome:" + str(r["outcome"][0]))
        if r.get("graph") and len(r["graph"]) > 3 and c["options"]["nb_threads"] > 1:
            run.nontrivial.add(c["id"])
        for sig, text in runoracle.c01_oracle(c, r):
            run.violation(sig, text, {"case": c, "outcome": r.get("outcome"), "traceback": r.get("traceback")})
        if len(run.samples) < 2:
            run.sample({"project": c["project"], "options": c["options"], "sched_prefix": c["sched"][:20],
                        "outcome": r.get("outcome"), "graph": r.get("graph")})
    # directed family: --force-disabled with NESTED suites -- a sub-suite whose tests are all disabled, a suite-scoped fixture (or
    # a setup_suite hook) needed only by a disabled test of a sub-suite: everything is scheduled, set up and run as if enabled
    nohooks = {"setup_suite": None, "teardown_suite": None, "setup_test": None, "teardown_test": None}

    def tst(name, rank, disabled, args, body):
        return {"name": name, "disabled": disabled, "rank": rank, "deps": [], "args": args, "params": {}, "body": body}
    fcases = []
    for k, (nthreads, hook, all_disabled) in enumerate([(1, False, False), (2, False, True), (1, True, True), (3, True, False)]):
        fx = [{"name": "f5", "scope": "suite", "params": [], "per_thread": False, "generator": True,
               "setup": [["mark", 1]], "teardown": [["mark", 2]]}]
        sub_tests = [tst("t8", 0, True, ["f5"], [["log", 1, 1], ["use", "f5"]])] + \
            ([] if all_disabled else [tst("t9", 1, False, [], [["log", 1, 2]])])
        sub = {"name": "s7", "disabled": False, "rank": 0, "hooks": dict(nohooks, setup_suite={"args": [], "script": [["mark", 3]]} if hook else None),
               "injected": [], "tests": sub_tests, "subs": []}
        top = {"name": "s6", "disabled": False, "rank": 0, "hooks": nohooks, "injected": [],
               "tests": [tst("t10", 0, False, [], [["log", 1, 3]])], "subs": [sub]}
        fcases.append({"id": "fdn%d" % k, "project": {"fixtures": fx, "suites": [top]}, "sched": projgen.gen_sched(run.rng),
                       "options": {"nb_threads": nthreads, "stop_on_failure": False, "force_disabled": True}})
    fres = engine.cosim(run, fcases)
    for c in fcases:
        r = fres.get(c["id"]) or {"outcome": ["hang", "no result"]}
        run.evaluations += 1
        run.count("force_disabled_nested_suite_runs")
        for sig, text in runoracle.c01_oracle(c, r):
            run.violation(sig, text, {"case": c, "outcome": r.get("outcome"), "traceback": r.get("traceback")})
    # user code raising a BaseException (sys.exit()): the run must still terminate (F15)
    base = engine.gen_cases(run, 25 if run.tier == "quick" else 400,
                            profile={"raise_kinds": ["Base", "Base", "Exception"], "p_fail": 0.3, "p_raise_in_fail": 0.8},
                            threads=(1, 2, 3), prefix="b")
    # ... also when the BaseException comes out of a teardown that is executed through the SKIP path of its task (teardown tasks
    # still tear down when they are skipped: after AbortAllTests, --stop-on-failure, a keyboard interrupt)
    for c in base:
        x = run.rng.random()
        if x < 0.35:
            c["options"]["stop_on_failure"] = True
        elif x < 0.6:
            c["interrupt_at"] = run.rng.randint(0, 8)
    import copy
    for k, (hook_td, nthreads) in enumerate([(False, 1), (False, 2), (True, 1), (True, 2)]):
        d = copy.deepcopy(base[0])
        d["id"] = "bd%d" % k
        d.pop("interrupt_at", None)
        d["options"].update({"nb_threads": nthreads, "stop_on_failure": False, "force_disabled": False})
        nohooks = {"setup_suite": None, "teardown_suite": None, "setup_test": None, "teardown_test": None}
        d["project"] = {
            "fixtures": [{"name": "f5", "scope": "suite" if hook_td else "session", "params": [], "per_thread": False, "generator": True,
                          "setup": [["mark", 1]], "teardown": [["raise", "Base"]]}],
            "suites": [{"name": "s6", "disabled": False, "rank": 0,
                        "hooks": dict(nohooks, teardown_suite=[["raise", "Base"]]) if hook_td else nohooks, "injected": [],
                        "tests": [{"name": "t7", "disabled": False, "rank": 0, "deps": [], "args": ["f5"], "params": {},
                                   "body": [["raise", "AbortAllTests"]]},
                                  {"name": "t8", "disabled": False, "rank": 1, "deps": [], "args": ["f5"], "params": {},
                                   "body": [["mark", 2]]}],
                        "subs": []}]}
        d.pop("scheduled_project", None)
        base.append(d)
    bres = engine.cosim(run, base, layers=(1, 2))
    for c in base:
        r = bres.get(c["id"]) or {"outcome": ["hang", "no result"]}
        run.evaluations += 1
        run.count("base_exception_cases")
        oc = r.get("outcome") or ["?"]
        if oc[0] in ("hang", "sched_abort"):
            run.violation("run-does-not-terminate", "the run does not terminate when user code raises a BaseException: %s" % (oc[1][:200],),
                          {"case": c, "outcome": oc})
    propcommon.search_failing_schedule(run, cases, runoracle.c01_oracle, results)
    run.coverage["rule"] = ("seeded random projects (nested suites, empty suites, disabled tests/suites, depends_on, fixtures of 4 "
                            "scopes, hooks, scripts with failures of every kind, user threads) run by the real runner under a "
                            "deterministic scheduler with random/biased schedules and 1..4 (thorough: ..8) threads; "
                            "non-trivial = more than 3 tasks and more than one thread")
    run.coverage["traces_validated_against_impl"] = len([c for c in cases if results.get(c["id"], {}).get("graph")])


def replay(path):
    r = json.load(open(path))
    case = (r.get("replay") or {}).get("case") or ((r.get("broken") or [{}])[0].get("case"))
    if not case or "project" not in case:
        print("nothing to replay")
        return 2
    case.setdefault("id", "replay")
    case.setdefault("sched", [])
    res = sim.run_cases([case])[case["id"]]
    hits = runoracle.c01_oracle(case, res)
    print(json.dumps({"outcome": res.get("outcome"), "oracle": hits}, indent=1))
    return 1 if hits else 0
