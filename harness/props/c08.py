"""C08 — abort, stop-on-failure and Ctrl-C stop new work, keep teardowns and the report.
Props/C08.v; SchedP.v (decisions after flags, interrupt), TaskSem.v (handle_exception)."""
import engine
import projgen
import propcommon
import runoracle

PROFILE = {"p_fail": 0.3, "p_raise_in_fail": 0.7, "raise_kinds": ["AbortTest", "AbortSuite", "AbortSuite", "AbortAllTests", "Exception"],
           "max_tests": 5, "p_hook": 0.5, "max_fixtures": 4, "p_fixture_arg": 0.5, "p_spawn": 0.05, "script_len": 4}


def check(run):
    run.trusted += engine.TRUSTED + ["KeyboardInterrupt is delivered to the main thread while it waits on the completion queue "
                                     "(the Queue double raises it at a chosen call of get)"]
    run.assume += engine.ASSUME + ['"visible" = the flag was set before the worker took the task; races inside handle_task are below the yield points']
    run.prove(extra_targets=engine.TARGETS)
    n = 150 if run.tier == "quick" else 4000
    cases = engine.gen_cases(run, n, profile=PROFILE, threads=(1, 2, 3, 4) if run.tier == "quick" else (1, 2, 3, 4, 6, 8), prefix="a")
    for k, c in enumerate(cases):
        # a third of the projects raise their OWN subclasses of AbortTest / AbortSuite / AbortAllTests (class BackendDown(lcc.AbortAllTests))
        if k % 3 == 1:
            c["abort_subclasses"] = True
            run.count("projects_raising_their_own_abort_subclasses")
    plain, interrupted = [], []
    for c in cases:
        c["options"]["stop_on_failure"] = run.rng.random() < 0.3
        c["file_backends"] = ["json"]
        if run.rng.random() < 0.35:
            c["interrupt_at"] = run.rng.randint(0, 12)
            interrupted.append(c)
            run.count("with_interrupt")
        else:
            plain.append(c)

    # --stop-on-failure while another worker is INSIDE a setup: a test of one suite fails while the setup of another suite (hook,
    # suite fixture) or of another test (setup_test, test fixture) is running on a second worker, under many schedules: what that
    # setup completed must still be torn down, and nothing of it may be lost
    nohooks = {"setup_suite": None, "teardown_suite": None, "setup_test": None, "teardown_test": None}
    for k in range(24 if run.tier == "quick" else 300):
        variant = k % 3
        fx = [{"name": "f5", "scope": "suite" if variant == 1 else "test", "params": [], "per_thread": False, "generator": True,
               "setup": [["mark", 1], ["mark", 2]], "teardown": [["mark", 3]]}] if variant in (1, 2) else []
        sa = {"name": "s6", "disabled": False, "rank": 0, "hooks": dict(nohooks), "injected": [],
              "tests": [{"name": "t7", "disabled": False, "rank": 0, "deps": [], "args": [], "params": {},
                         "body": [["mark", 4], ["check", False, 5], ["mark", 6]]}], "subs": []}
        hb = dict(nohooks)
        if variant == 0:
            hb["setup_suite"] = {"args": [], "script": [["mark", 7], ["mark", 8], ["mark", 9]]}
            hb["teardown_suite"] = [["mark", 10]]
        if variant == 2:
            hb["setup_test"] = [["mark", 7], ["mark", 8]]
            hb["teardown_test"] = [["mark", 10]]
        sb = {"name": "s8", "disabled": False, "rank": 1, "hooks": hb, "injected": [],
              "tests": [{"name": "t9", "disabled": False, "rank": 0, "deps": [], "args": (["f5"] if fx else []), "params": {},
                         "body": [["mark", 11]] + ([["use", "f5"]] if fx else [])},
                        {"name": "t10", "disabled": False, "rank": 1, "deps": [], "args": [], "params": {}, "body": [["mark", 12]]}],
              "subs": []}
        c = {"id": "sof%d" % k, "project": {"fixtures": fx, "suites": [sa, sb]}, "sched": projgen.gen_sched(run.rng),
             "options": {"nb_threads": run.rng.choice([2, 2, 3]), "stop_on_failure": True, "force_disabled": False},
             "file_backends": ["json"]}
        plain.append(c)
        run.count("stop_on_failure_during_a_setup")

    def nontrivial(c, r):
        st = [s for _, s in runoracle.report_tests(r["report"])] if r.get("report") else []
        return "skipped" in st
    propcommon.run_cases(run, plain, runoracle.c08_oracle, nontrivial)
    # runs with a keyboard interrupt: in-flight user code gets AbortTest from the logging functions (session.aborted), which
    # is outside the schedule-independent fragment of layer 3: layers 1 and 2 only
    propcommon.run_cases(run, interrupted, runoracle.c08_oracle, nontrivial, layers=(1, 2))
    run.coverage["rule"] = ("seeded random projects biased towards AbortTest / AbortSuite / AbortAllTests raised from bodies, hooks and "
                            "fixtures, --stop-on-failure on 30% of the runs, a keyboard interrupt at a random main-loop step on 35%, "
                            "1..4 (thorough ..8) threads; non-trivial = a run in which at least one test was skipped")


replay = propcommon.make_replay(runoracle.c08_oracle)
