"""C15 — per-thread fixtures and ThreadedFactory objects are never shared between threads.
Model: coq/theories/Model/Threaded.v ; theorems: Props/C15.v.

Part A (correspondence): the real ThreadedFactory is driven by real threads under a deterministic schedule: a
sys.settrace line hook pauses a thread before every source line of get_object / teardown_factory, and setup_object
pauses inside the user code; one schedule entry = "this actor executes up to its next pause".  The same schedule is run
by Model.Threaded.run inside Coq and the observations (logs, program counters, the locals first_failure / obj of
teardown_factory, thread-local slots, _objects) are compared.  teardown_object raises an Exception (td_fail) or a
BaseException that is not an Exception (td_fail_base) for chosen objects.
Part B (scheduler level): real multi-threaded runs (tests/helpers/runner.py, nb_threads=N) of generated projects with
per-thread session/suite fixtures, plain and generator, some of whose teardown parts raise (td_raise); oracle on
(thread ident, value id) pairs, exactly-once teardown, and which failure reaches the report; the observed order of
accesses is replayed through the model (each access run to completion) and compared.
Part C: thread lifetimes through the public API only, with raising teardown_object calls.

The model describes teardown_factory as repaired by fixes/F21-threaded-factory-teardown-all.patch (every object is torn
down even when teardown_object raises; the first failure is raised at the end).  On a tree without the repair the line
table below does not match (tie broken) and the oracle reports oracle:forgotten:teardown-object-raised again.
"""
import json
import linecache
import os
import sys
import threading
import time

import lib
from lib import c_nat, c_opt, c_list

LINE_CODES = {"return self._local.object": 1, "obj = self.setup_object()": 2, "self._local.object = obj": 4,
              "self._objects.append(obj)": 5, "return obj": 6}
NOOP_LINES = {"try:", "except AttributeError:"}          # get_object only: merged into the following step by the model
# teardown_factory: every line event is a step of the model (Model.Threaded.td_code); 10/11/12 = returned / raised
# first_failure / left by a BaseException that is not an Exception
TD_CODES = {"first_failure = None": 1, "for obj in self._objects:": 2, "try:": 3, "self.teardown_object(obj)": 4,
            "except Exception as excp:": 5, "if first_failure is None:": 6, "first_failure = excp": 7,
            "if first_failure is not None:": 8, "raise first_failure": 9}
TD_WITH_OBJ = (3, 4, 5, 6, 7)                            # lines at which the model knows the loop variable
TD_RETURNED, TD_RAISED, TD_ABORTED = 10, 11, 12
STEP_TIMEOUT = 10


class Hang(Exception):
    pass


class SetupError(Exception):
    pass


class TdError(Exception):
    def __init__(self, oid):
        Exception.__init__(self, oid)
        self.oid = oid


class TdAbort(BaseException):          # stands for KeyboardInterrupt / SystemExit raised by a teardown_object
    def __init__(self, oid):
        BaseException.__init__(self, oid)
        self.oid = oid


class Obj(object):
    __slots__ = ("id",)

    def __init__(self, i):
        self.id = i


class EqObj(Obj):
    """A value-like object (a dict, a dataclass, a tuple of settings): distinct instances compare equal.  The factory is about
    instances, so the id is what the oracles follow."""
    __slots__ = ()

    def __eq__(self, other):
        return isinstance(other, Obj)

    def __ne__(self, other):
        return not self.__eq__(other)

    def __hash__(self):
        return 0


# ----------------------------------------------------------------------------- implementation driver (part A)
class Actor(object):
    def __init__(self, world, idx, body):
        self.world, self.idx, self.body = world, idx, body
        self.resume = threading.Semaphore(0)
        self.paused = threading.Semaphore(0)
        self.where = (0, 0)
        self.local_seen = None
        self.free = False
        self.stop = False
        self.finished_bodies = 0
        self.error = None
        self.thread = threading.Thread(target=self._main, daemon=True)

    def start(self):
        self.thread.start()
        if not self.paused.acquire(timeout=STEP_TIMEOUT):
            raise Hang("actor %s did not start" % self.idx)

    # ---- worker side
    def pause(self, where):
        if self.free:
            return
        self.where = where
        self.local_seen = self.world.read_local()
        self.paused.release()
        if not self.resume.acquire(timeout=STEP_TIMEOUT * 6):
            self.free = True
            raise Hang("actor %s was never resumed" % self.idx)

    def _main(self):
        self.world.tls.actor = self
        sys.settrace(self._trace)
        try:
            while True:
                self.where = (0, 0)
                self.local_seen = self.world.read_local()
                if self.stop:
                    return
                self.paused.release()
                self.resume.acquire()
                if self.stop:
                    return
                self.body(self)
                self.finished_bodies += 1
        except BaseException as e:   # reported by the controller
            self.error = "%s: %s" % (type(e).__name__, e)
            self.paused.release()
        finally:
            sys.settrace(None)

    def _trace(self, frame, event, arg):
        if event == "call" and frame.f_code in self.world.traced_codes:
            return self._local_trace
        return None

    def _local_trace(self, frame, event, arg):
        if event == "line":
            text = linecache.getline(frame.f_code.co_filename, frame.f_lineno).strip()
            if frame.f_code is self.world.get_code:
                if text in NOOP_LINES:
                    return self._local_trace
                code = LINE_CODES.get(text, 99)
                o = frame.f_locals.get("obj")
                self.pause((code, o.id if (code in (4, 5, 6) and isinstance(o, Obj)) else 0))
            else:
                code = TD_CODES.get(text, 99)
                ff = frame.f_locals.get("first_failure")
                o = frame.f_locals.get("obj")
                self.pause((code, None if ff is None else getattr(ff, "oid", 4999),
                            (o.id if isinstance(o, Obj) else 4999) if code in TD_WITH_OBJ else None))
        return self._local_trace

    # ---- controller side
    def step(self):
        self.resume.release()
        if not self.paused.acquire(timeout=STEP_TIMEOUT):
            raise Hang("actor %s did not reach a yield point" % self.idx)
        if self.error:
            raise Hang("actor %s crashed: %s" % (self.idx, self.error))

    def drain(self):
        self.free = True
        self.stop = True
        self.resume.release()
        self.thread.join(STEP_TIMEOUT)
        if self.thread.is_alive():
            raise Hang("actor %s did not finish" % self.idx)


class World(object):
    """One ThreadedFactory, n worker threads and one thread that calls teardown_factory, under a schedule."""

    def __init__(self, n, setup_fail, td_fail, td_fail_base=(), equal_objects=False):
        from lemoncheesecake.helpers.threading import ThreadedFactory
        world = self
        self.equal_objects = equal_objects
        self.tls = threading.local()
        self.get_code = ThreadedFactory.get_object.__code__
        self.td_code = ThreadedFactory.teardown_factory.__code__
        self.traced_codes = (self.get_code, self.td_code)
        self.setup_fail = set(map(tuple, setup_fail))
        self.td_fail = set(td_fail)
        self.td_fail_base = set(td_fail_base)
        self.events = []          # global chronological log
        self.next_id = 0
        self.nfailed = {}
        self.td_state = None      # once teardown_factory has been left: (TD_RETURNED | TD_RAISED | TD_ABORTED, exception id, None)

        class Factory(ThreadedFactory):
            def setup_object(self):
                a = world.tls.actor
                world.events.append(("setup_call", a.idx))
                a.pause((3, 0))
                k = world.nfailed.get(a.idx, 0)
                if (a.idx, k) in world.setup_fail:
                    world.nfailed[a.idx] = k + 1
                    world.events.append(("failed", a.idx))
                    raise SetupError()
                o = (EqObj if world.equal_objects else Obj)(world.next_id)
                world.next_id += 1
                world.events.append(("created", a.idx, o.id))
                return o

            def teardown_object(self, o):
                world.events.append(("torn", o.id))
                if o.id in world.td_fail_base:
                    world.events.append(("torn_raise", o.id, "base"))
                    raise TdAbort(o.id)
                if o.id in world.td_fail:
                    world.events.append(("torn_raise", o.id, "exc"))
                    raise TdError(o.id)

        self.factory = Factory()

        def access(a):
            world.events.append(("begin", a.idx))
            try:
                o = world.factory.get_object()
            except SetupError:
                world.events.append(("access", a.idx, None))
            else:
                world.events.append(("access", a.idx, o.id if isinstance(o, Obj) else -1))

        def teardown(a):
            world.events.append(("td_call",))
            try:
                world.factory.teardown_factory()
            except TdError as e:
                world.td_state = (TD_RAISED, e.oid, None)
                world.events.append(("td_raise", e.oid))
            except TdAbort as e:
                world.td_state = (TD_ABORTED, e.oid, None)
                world.events.append(("td_abort", e.oid))
            else:
                world.td_state = (TD_RETURNED, None, None)
                world.events.append(("td_return",))

        self.threads = [Actor(self, i, access) for i in range(n)]
        self.main = Actor(self, "main", teardown)

    def read_local(self):
        o = getattr(self.factory._local, "object", None)
        return o.id if isinstance(o, Obj) else (None if o is None else -1)

    def run(self, sch):
        """sch: list of thread indexes / "M". Returns the observation at the end of the schedule (before draining)."""
        for a in self.threads + [self.main]:
            a.start()
        self.effective = []
        try:
            for x in sch:
                if x == "M":
                    self.effective.append("M")
                    if self.td_state is not None:
                        continue          # teardown_factory is called once
                    self.main.step()
                elif x == "Q":            # quiesce: every thread completes the get_object it is in
                    for a in self.threads:
                        guard = 0
                        while a.where != (0, 0) and guard < 20:
                            a.step()
                            self.effective.append(a.idx)
                            guard += 1
                else:
                    self.effective.append(x)
                    self.threads[x].step()
            obs = self.observe()
        finally:
            for a in self.threads + [self.main]:
                a.drain()
        return obs

    def observe(self):
        ev = self.events
        td = self.td_state if self.td_state is not None else (tuple(self.main.where) + (None, None))[:3]
        if td[0] == 0:
            td = (0, None, None)
        return {
            "setup_calls": [e[1] for e in ev if e[0] == "setup_call"],
            "created": [[e[1], e[2]] for e in ev if e[0] == "created"],
            "failed": [e[1] for e in ev if e[0] == "failed"],
            "accesses": [[e[1], e[2]] for e in ev if e[0] == "access"],
            "torn": [e[1] for e in ev if e[0] == "torn"],
            "objects": [o.id if isinstance(o, Obj) else -1 for o in self.factory._objects],
            "td": list(td),
            "pcs": [list(a.where) for a in self.threads],
            "locals": [a.local_seen for a in self.threads],
        }


# ----------------------------------------------------------------------------- part C: thread lifetimes (black box)
def run_lifetimes(case):
    """case = {"threads": [{"accesses": k, "ends_before_teardown": bool, "td_raises": bool}...]}: real threads use one real
    ThreadedFactory through its public API only; those marked so terminate, are joined, dereferenced and collected before
    teardown_factory is called (a pool worker or an lcc.Thread that is gone when the scope ends); the others wait for the
    teardown and end afterwards.  teardown_object raises for the objects created by the threads marked td_raises.
    Returns events ("created", thread, obj), ("access", thread, obj), ("torn", obj), ("torn_raise", obj),
    ("td_return",) / ("td_raise", obj or text)."""
    import gc
    import threading
    from lemoncheesecake.helpers.threading import ThreadedFactory
    ev, lock, counter = [], threading.Lock(), [0]
    raising = set("T%d" % i for i, t in enumerate(case["threads"]) if t.get("td_raises"))
    bad = set()

    class F(ThreadedFactory):
        def setup_object(self):
            with lock:
                counter[0] += 1
                o = (EqObj if case.get("equal_objects") else Obj)(counter[0])
                ev.append(("created", threading.current_thread().name, o.id))
                if threading.current_thread().name in raising:
                    bad.add(o.id)
            return o

        def teardown_object(self, obj):
            with lock:
                ev.append(("torn", obj.id))
                if obj.id in bad:
                    ev.append(("torn_raise", obj.id))
            if obj.id in bad:
                raise TdError(obj.id)
    fac = F()
    done = threading.Event()

    def body(k, stay):
        for _ in range(k):
            try:
                o = fac.get_object()
            except BaseException as e:
                with lock:
                    ev.append(("access", threading.current_thread().name, "raised %s" % type(e).__name__))
                continue
            with lock:
                ev.append(("access", threading.current_thread().name, o.id))
        if stay:
            done.wait(20)
    ths = []
    for i, t in enumerate(case["threads"]):
        th = threading.Thread(target=body, args=(t["accesses"], not t["ends_before_teardown"]), name="T%d" % i)
        th.daemon = True
        th.start()
        ths.append((th, t["ends_before_teardown"]))
    stay = []
    for th, ends in ths:
        if ends:
            th.join(20)
        else:
            stay.append(th)
    del ths, th
    gc.collect()
    import time
    deadline = time.time() + 5       # the staying threads must have finished their accesses
    want = sum(t["accesses"] for t in case["threads"])
    while time.time() < deadline:
        with lock:
            if sum(1 for e in ev if e[0] == "access") >= want:
                break
        time.sleep(0.001)
    try:
        fac.teardown_factory()
    except TdError as e:
        ev.append(("td_raise", e.oid))
    except Exception as e:
        ev.append(("td_raise", "%s: %s" % (type(e).__name__, e)))
    else:
        ev.append(("td_return",))
    done.set()
    for th in stay:
        th.join(20)
    return [list(e) for e in ev]


def first_access_race_probe(max_lines=40):
    """Independent of the source lines of ThreadedFactory: thread A is preempted before the k-th line it executes inside
    lemoncheesecake/helpers/threading.py during its FIRST get_object(), thread B then makes its own first and second access,
    A goes on and makes its second access, the factory is torn down -- for every k until A's first access has no k-th line.
    Each thread gets one object of its own, the same at both accesses, and every object created is torn down exactly once."""
    import lemoncheesecake.helpers.threading as HT
    target = HT.__file__.rstrip("c")
    hits = []
    explored = 0
    for k in range(1, max_lines + 1):
        created, torn = [], []

        class Obj(object):
            pass

        class F(HT.ThreadedFactory):
            def setup_object(self):
                o = Obj()
                created.append(o)
                return o

            def teardown_object(self, obj):
                torn.append(obj)
        f = F()
        a_paused, resume, got, errors = threading.Event(), threading.Event(), {}, {}
        count = [0]
        reached = [False]

        def tracer(frame, event, arg):
            if frame.f_code.co_filename.rstrip("c") != target:
                return None

            def local(frame, event, arg):
                if event == "line" and not reached[0]:
                    count[0] += 1
                    if count[0] == k:
                        reached[0] = True
                        a_paused.set()
                        resume.wait(10)
                return local
            return local

        def thread_a():
            sys.settrace(tracer)
            try:
                x = f.get_object()
            except BaseException as e:      # noqa: BLE001
                errors["A"] = "%s: %s" % (type(e).__name__, e)
                x = None
            finally:
                sys.settrace(None)
                a_paused.set()
            try:
                got["A"] = (x, f.get_object())
            except BaseException as e:      # noqa: BLE001
                errors["A2"] = "%s: %s" % (type(e).__name__, e)

        def thread_b():
            try:
                got["B"] = (f.get_object(), f.get_object())
            except BaseException as e:      # noqa: BLE001
                errors["B"] = "%s: %s" % (type(e).__name__, e)
        ta = threading.Thread(target=thread_a)
        ta.start()
        a_paused.wait(10)
        if not reached[0]:
            ta.join(10)
            break                      # A's first access has fewer than k lines: every preemption point has been tried
        explored += 1
        tb = threading.Thread(target=thread_b)
        tb.start()
        tb.join(10)
        resume.set()
        ta.join(10)
        try:
            f.teardown_factory()
        except BaseException as e:      # noqa: BLE001
            errors["teardown"] = "%s: %s" % (type(e).__name__, e)
        where = "thread A preempted before line %d of its first access" % k
        if errors:
            hits.append(("first-access-race:raises", "%s: %s" % (where, errors)))
            continue
        for t in ("A", "B"):
            if got[t][0] is not got[t][1]:
                hits.append(("first-access-race:not-reused", "%s: thread %s gets another object at its second access" % (where, t)))
        if got["A"][0] is got["B"][0]:
            hits.append(("first-access-race:shared", "%s: both threads get the same object" % where))
        if len(created) != 2:
            hits.append(("first-access-race:created", "%s: %d objects created for 2 threads" % (where, len(created))))
        for o in created:
            n = sum(1 for x in torn if x is o)
            if n != 1:
                hits.append(("first-access-race:torn", "%s: an object was torn down %d times" % (where, n)))
    return explored, hits


def none_object_probe(nthreads, accesses):
    """A factory whose setup_object() returns None (a factory used for its side effects: it opens something and keeps no handle):
    still at most one setup per thread, every access gets that object (None), one teardown per created object.
    Returns a list of (signature, text)."""
    import threading
    from lemoncheesecake.helpers.threading import ThreadedFactory
    lock = threading.Lock()
    setups, got, torn = {}, [], []

    class F(ThreadedFactory):
        def setup_object(self):
            with lock:
                name = threading.current_thread().name
                setups[name] = setups.get(name, 0) + 1
            return None

        def teardown_object(self, obj):
            with lock:
                torn.append(obj)
    fac = F()

    def body():
        for _ in range(accesses):
            o = fac.get_object()
            with lock:
                got.append(o)
    ths = [threading.Thread(target=body, name="N%d" % i) for i in range(nthreads)]
    for t in ths:
        t.start()
    for t in ths:
        t.join(20)
    fac.teardown_factory()
    hits = []
    many = {k: v for k, v in setups.items() if v > 1}
    if many:
        hits.append(("none-object:several-per-thread", "setup_object (returning None) was called %s times on one thread: %s" % (max(many.values()), many)))
    if any(o is not None for o in got):
        hits.append(("none-object:wrong-object", "get_object returned something else than the object setup_object built (None)"))
    if len(torn) != sum(setups.values()):
        hits.append(("none-object:teardown-count", "%d objects were set up, teardown_object was called %d times" % (sum(setups.values()), len(torn))))
    return hits


NESTED_SRC = """import threading, json
import lemoncheesecake.api as lcc

BAR = threading.Barrier(2, timeout=5)
SEEN = []


@lcc.suite("s")
class s:
    @lcc.test("a")
    def a(self, client):
        self._use(client)

    @lcc.test("b")
    def b(self, client):
        self._use(client)

    def _use(self, client):
        try:
            BAR.wait()
        except threading.BrokenBarrierError:
            pass
        SEEN.append([threading.get_ident(), client["conn_thread"], id(client["conn"])])
        with open("seen.json", "w") as fh:
            json.dump(SEEN, fh)
"""
NESTED_FX = """import threading
import lemoncheesecake.api as lcc


@lcc.fixture(scope="%(scope)s", per_thread=True)
def conn():
    return {"thread": threading.get_ident()}


@lcc.fixture(scope="%(scope)s", per_thread=True)
def client(conn):
    return {"conn": conn, "conn_thread": conn["thread"]}
"""


def nested_per_thread_probe(scope):
    """A per-thread fixture built on another per-thread fixture, through the real `lcc run --threads 2`: either the project is
    refused when it is loaded, or every thread gets a `conn` of its own.  Returns a list of (signature, text)."""
    import subprocess
    import lib
    import tempfile
    import shutil
    d = tempfile.mkdtemp(prefix="lccverif_nested_")
    try:
        os.mkdir(os.path.join(d, "suites"))
        os.mkdir(os.path.join(d, "fixtures"))
        open(os.path.join(d, "suites", "s.py"), "w").write(NESTED_SRC)
        open(os.path.join(d, "fixtures", "fx.py"), "w").write(NESTED_FX % {"scope": scope})
        env = dict(os.environ, PYTHONPATH=lib.REPO)
        p = subprocess.run([lib.PY, "-c", "import sys; from lemoncheesecake.cli.main import main; sys.exit(main(sys.argv[1:]))",
                            "run", "--threads", "2"], cwd=d, env=env, stdout=subprocess.PIPE, stderr=subprocess.STDOUT, timeout=120)
        seen_file = os.path.join(d, "seen.json")
        if not os.path.exists(seen_file):
            return []          # refused at load time (or nothing ran): no instance was handed to anybody
        seen = json.load(open(seen_file))
        hits = []
        for user, creator, obj in seen:
            if user != creator:
                hits.append(("nested-per-thread:foreign-object", "thread %s was handed a per-thread object created by thread %s (%s-scoped "
                             "per-thread fixture built on a per-thread fixture)" % (user, creator, scope)))
        if len(set(o for _, _, o in seen)) < len(set(u for u, _, _ in seen)):
            hits.append(("nested-per-thread:shared-object", "the same per-thread object was handed to several threads: %s" % seen))
        return hits[:2]
    finally:
        shutil.rmtree(d, ignore_errors=True)


def factory_as_fixture_value_probe(scope):
    """A generator fixture whose VALUE is a ThreadedFactory and which tears the factory down itself after the yield (the only way
    the library documents): the objects two threads got from it are torn down exactly once each."""
    import threading
    import lemoncheesecake.api as lcc
    from lemoncheesecake.helpers.threading import ThreadedFactory
    sys.path.insert(0, os.path.join(lib_repo(), "tests"))
    import helpers.runner as hr
    hr.dump_report = lambda r: None
    torn, lock = [], threading.Lock()
    bar = threading.Barrier(2, timeout=5)

    keep = []            # objects are kept alive: an id is never handed out twice

    class Conn(ThreadedFactory):
        def setup_object(self):
            o = object()
            with lock:
                keep.append(o)
            return o

        def teardown_object(self, obj):
            with lock:
                torn.append(id(obj))
    got = []

    @lcc.fixture(scope=scope)
    def pool():
        f = Conn()
        yield f
        f.teardown_factory()

    @lcc.suite("s")
    class s:
        @lcc.test("a")
        def a(self, pool):
            self._use(pool)

        @lcc.test("b")
        def b(self, pool):
            self._use(pool)

        def _use(self, pool):
            try:
                bar.wait()
            except threading.BrokenBarrierError:
                pass
            o = pool.get_object()
            with lock:
                got.append(id(o))
    import tempfile
    import shutil
    tmp = tempfile.mkdtemp(prefix="lccverif_fac_")
    try:
        hr.run_suite_classes([s], fixtures=[pool], tmpdir=tmp, nb_threads=2)
    finally:
        shutil.rmtree(tmp, ignore_errors=True)
    hits = []
    for o in set(got):
        if torn.count(o) != 1:
            hits.append(("factory-value:teardown-count", "an object handed out by a factory that is the value of a %s-scoped fixture was torn down "
                         "%d time(s)" % (scope, torn.count(o))))
    return hits[:1]


def lib_repo():
    import lib
    return lib.REPO


def oracle_lifetimes(case, ev):
    hits = []
    created = {}
    for e in ev:
        if e[0] == "created":
            created.setdefault(e[1], []).append(e[2])
    for th, objs in created.items():
        if len(objs) > 1:
            hits.append(("lifetimes:several-per-thread", "thread %s got %d objects" % (th, len(objs))))
    for e in ev:
        if e[0] == "access" and created.get(e[1], [None])[0] != e[2]:
            hits.append(("lifetimes:foreign-or-new-object", "thread %s was handed object %s, it created %s" % (e[1], e[2], created.get(e[1]))))
    torn = [e[1] for e in ev if e[0] == "torn"]
    raisers = [e[1] for e in ev if e[0] == "torn_raise"]
    for objs in created.values():
        for o in objs:
            if torn.count(o) == 0:
                if raisers:
                    hits.append(("lifetimes:forgotten:teardown-object-raised",
                                 "object %s was never torn down: teardown_object raised for object %s" % (o, raisers[0])))
                    continue
                hits.append(("lifetimes:forgotten", "object %s (created by a thread that %s) was never torn down" % (
                    o, "ended before the teardown" if any(t["ends_before_teardown"] for i, t in enumerate(case["threads"])
                                                          if created.get("T%d" % i, [None])[0] == o) else "was still alive")))
            elif torn.count(o) > 1:
                hits.append(("lifetimes:torn-twice", "object %s torn down %d times" % (o, torn.count(o))))
    # what teardown_factory did at its end: returned iff nothing raised, else raised the first failure
    ends = [e for e in ev if e[0] in ("td_return", "td_raise")]
    if len(ends) != 1:
        hits.append(("lifetimes:teardown-did-not-end", "teardown_factory neither returned nor raised: %s" % ends))
    elif raisers and ends[0] != ("td_raise", raisers[0]) and list(ends[0]) != ["td_raise", raisers[0]]:
        hits.append(("lifetimes:first-failure-not-raised",
                     "teardown_object raised for objects %s (in this order) but teardown_factory ended with %s" % (raisers, list(ends[0]))))
    elif not raisers and ends[0][0] != "td_return":
        hits.append(("lifetimes:raised-without-failure", "no teardown_object raised but teardown_factory ended with %s" % list(ends[0])))
    return hits[:3]


def gen_lifetimes(rng, tier):
    n = rng.randint(1, 6)
    p_raise = rng.choice([0.0, 0.0, 0.3, 0.6, 1.0])
    return {"threads": [{"accesses": rng.choice([0, 1, 1, 2, 3]), "ends_before_teardown": rng.random() < 0.5,
                         "td_raises": rng.random() < p_raise} for _ in range(n)],
            "equal_objects": rng.random() < 0.4}


def run_schedule(case):
    w = World(case["n"], case["setup_fail"], case["td_fail"], case.get("td_fail_base", []), case.get("equal_objects", False))
    obs = w.run(case["sch"])
    case["sch"] = list(w.effective)      # "Q" entries replaced by the concrete steps they stood for
    return obs, list(w.events)


# ----------------------------------------------------------------------------- oracle (independent of the model)
def oracle(events):
    """The property evaluated on the complete event log of one factory (after every thread has finished its current
    get_object and teardown_factory, if called, has returned).  Returns a list of (signature, text)."""
    hits = []
    created = [(e[1], e[2]) for e in events if e[0] == "created"]
    by_thread = {}
    for t, o in created:
        by_thread.setdefault(t, []).append(o)
    for t, os_ in by_thread.items():
        if len(os_) > 1:
            hits.append(("two-objects-one-thread", "thread %s created %d objects: %s" % (t, len(os_), os_)))
    calls, failed = {}, {}
    for e in events:
        if e[0] == "setup_call":
            calls[e[1]] = calls.get(e[1], 0) + 1
        elif e[0] == "failed":
            failed[e[1]] = failed.get(e[1], 0) + 1
    for t, k in calls.items():
        if k > 1 + failed.get(t, 0):
            hits.append(("setup-called-again", "setup_object called %d times on thread %s (%d raised)" % (k, t, failed.get(t, 0))))
    owner = {}
    for t, o in created:
        owner.setdefault(o, t)
    seen = {}
    for e in events:
        if e[0] != "access" or e[2] is None:
            continue
        t, o = e[1], e[2]
        if o not in owner:
            hits.append(("unknown-object", "thread %s received something setup_object did not create" % t))
        elif owner[o] != t:
            hits.append(("foreign-object", "thread %s received object %s created by thread %s" % (t, o, owner[o])))
        if t in seen and seen[t] != o:
            hits.append(("not-reused", "thread %s received object %s and later object %s" % (t, seen[t], o)))
        seen.setdefault(t, o)
    torn = [e[1] for e in events if e[0] == "torn"]
    if len(set(torn)) != len(torn):
        hits.append(("torn-down-twice", "an object was torn down more than once: %s" % torn))
    for o in torn:
        if o not in owner:
            hits.append(("torn-unknown", "teardown_object called with something that was not created"))
    kinds = [e[0] for e in events]
    if "td_call" in kinds and "td_abort" not in kinds:
        # (a teardown_factory left by a BaseException that is not an Exception is outside the property: the repaired loop
        #  catches Exception only, an interrupt is not swallowed; Props/C15.v C15_torn_down_after_base_exception_refuted)
        i_call = kinds.index("td_call")
        raisers = [e[1] for e in events if e[0] == "torn_raise"]
        for t, o in created:
            if o in torn:
                continue
            # when did the creating get_object call complete?
            done = [i for i, e in enumerate(events) if e[0] == "access" and e[1] == t and e[2] == o]
            if not done or done[0] > i_call:
                hits.append(("forgotten:teardown-during-first-access",
                             "object %s of thread %s never torn down: teardown_factory ran during the thread's first get_object" % (o, t)))
            elif raisers:
                hits.append(("forgotten:teardown-object-raised",
                             "object %s of thread %s never torn down: teardown_object raised for object %s" % (o, t, raisers[0])))
            else:
                hits.append(("forgotten", "object %s of thread %s was never torn down" % (o, t)))
        # what teardown_factory does at its end: returns iff no teardown_object raised, else raises the FIRST failure
        ends = [e for e in events if e[0] in ("td_return", "td_raise")]
        if len(ends) > 1:
            hits.append(("teardown-ended-twice", "teardown_factory ended more than once: %s" % ends))
        elif ends and raisers and tuple(ends[0]) != ("td_raise", raisers[0]):
            hits.append(("first-failure-not-raised",
                         "teardown_object raised for objects %s (in this order) but teardown_factory ended with %s" % (raisers, list(ends[0]))))
        elif ends and not raisers and ends[0][0] != "td_return":
            hits.append(("raised-without-failure", "no teardown_object raised but teardown_factory ended with %s" % list(ends[0])))
    return hits


# ----------------------------------------------------------------------------- generator
def gen_case(rng, tier):
    n = rng.choice([1, 2, 2, 3, 3, 4, 5] if tier == "quick" else [1, 2, 3, 3, 4, 5, 6, 8])
    shape = rng.choice(["framework", "framework", "random", "racy", "prefix"])
    length = rng.choice([6, 12, 20, 35, 60])
    setup_fail = []
    if rng.random() < 0.3:
        for t in range(n):
            if rng.random() < 0.4:
                setup_fail.append([t, 0])
                if rng.random() < 0.3:
                    setup_fail.append([t, 1])
    td_fail, td_fail_base = [], []
    if rng.random() < 0.4:             # teardown_object raises an Exception for some objects (ids are 0..n-1 at most)
        p = rng.choice([0.3, 0.6, 1.0])
        td_fail = [o for o in range(n) if rng.random() < p] or [rng.randrange(n)]
    if rng.random() < 0.07:            # ... or a BaseException that is not an Exception
        td_fail_base = [rng.randrange(n)]
        td_fail = [o for o in td_fail if o not in td_fail_base]
    full = 7 * n + 5                   # lines teardown_factory executes at most: 7 per object + 5
    weights = [rng.choice([1, 1, 2, 4]) for _ in range(n)]

    def th():
        return rng.choices(range(n), weights)[0]
    if shape == "framework":
        sch = [th() for _ in range(length)] + ["Q"] + ["M"] * full
    elif shape == "racy":
        sch = []
        for _ in range(length):
            sch.append("M" if rng.random() < 0.2 else th())
        sch = sch + ["M"] * rng.choice([0, full])
    elif shape == "prefix":
        sch = [th() for _ in range(length)]
    else:
        sch = [("M" if rng.random() < 0.1 else th()) for _ in range(length)]
    return {"n": n, "setup_fail": setup_fail, "td_fail": td_fail, "td_fail_base": td_fail_base, "sch": sch, "shape": shape,
            "equal_objects": rng.random() < 0.3}     # value-like objects: distinct instances that compare equal


# ----------------------------------------------------------------------------- Gallina
def c_actor(x):
    return "Main" if x == "M" else "Th %d" % x


def c_obs(o):
    return ("{| o_setup_calls := %s; o_created := %s; o_failed := %s; o_accesses := %s; o_torn := %s; o_objects := %s; "
            "o_td := %s; o_pcs := %s; o_locals := %s |}") % (
        c_list(o["setup_calls"], c_nat), c_list(o["created"], lambda p: "(%d, %d)" % tuple(p)), c_list(o["failed"], c_nat),
        c_list(o["accesses"], lambda p: "(%d, %s)" % (p[0], c_opt(p[1], c_nat))), c_list(o["torn"], c_nat),
        c_list(o["objects"], c_nat), "(%d, %s, %s)" % (o["td"][0], c_opt(o["td"][1], c_nat), c_opt(o["td"][2], c_nat)),
        c_list(o["pcs"], lambda p: "(%d, %d)" % tuple(p)),
        c_list(o["locals"], lambda x: c_opt(x, c_nat)))


HEADER = """From Coq Require Import List Arith Bool.
Import ListNotations.
From LCC Require Import Base.Util Model.Threaded.
Definition nn := pair_eqb Nat.eqb Nat.eqb.
Definition obs_eqb (a b : observation) : bool :=
  list_eqb Nat.eqb (o_setup_calls a) (o_setup_calls b) && list_eqb nn (o_created a) (o_created b) &&
  list_eqb Nat.eqb (o_failed a) (o_failed b) &&
  list_eqb (pair_eqb Nat.eqb (option_eqb Nat.eqb)) (o_accesses a) (o_accesses b) &&
  list_eqb Nat.eqb (o_torn a) (o_torn b) && list_eqb Nat.eqb (o_objects a) (o_objects b) &&
  pair_eqb (pair_eqb Nat.eqb (option_eqb Nat.eqb)) (option_eqb Nat.eqb) (o_td a) (o_td b) &&
  list_eqb nn (o_pcs a) (o_pcs b) && list_eqb (option_eqb Nat.eqb) (o_locals a) (o_locals b).
Record case := { c_n : nat; c_sf : list (nat * nat); c_tf : list nat; c_tb : list nat; c_sch : list actor; c_obs : observation }.
Definition agrees (c : case) : bool :=
  obs_eqb (observe (c_n c) (run (cfg_of (c_sf c) (c_tf c) (c_tb c)) (c_sch c))) (c_obs c).
"""


def representable(o):
    def ok(x):
        return isinstance(x, int) and 0 <= x < 5000
    flat = o["setup_calls"] + o["failed"] + o["torn"] + o["objects"] + [x for x in o["td"] if x is not None] + \
        [x for p in o["created"] for x in p] + [x for p in o["pcs"] for x in p] + \
        [p[0] for p in o["accesses"]] + [p[1] for p in o["accesses"] if p[1] is not None] + \
        [x for x in o["locals"] if x is not None]
    return all(ok(x) for x in flat)


def cases_file(cases):
    body = ";\n  ".join(
        "{| c_n := %d; c_sf := %s; c_tf := %s; c_tb := %s; c_sch := %s;\n     c_obs := %s |}" % (
            c["n"], c_list(c["setup_fail"], lambda p: "(%d, %d)" % tuple(p)), c_list(c["td_fail"], c_nat),
            c_list(c.get("td_fail_base", []), c_nat), c_list(c["sch"], c_actor), c_obs(o)) for c, o in cases)
    return HEADER + "Definition cases : list case := [\n  %s\n].\n" % body + \
        "Eval vm_compute in (find_indexes (fun c => negb (agrees c)) cases).\n"


def shrink(case, sig):
    """Greedy removal of schedule steps while the oracle still reports the same signature."""
    def fails(c):
        try:
            _, ev = run_schedule(c)
        except Hang:
            return False
        return any(h[0] == sig for h in oracle(ev))
    cur = dict(case)
    budget = 150
    changed = True
    while changed and budget > 0:
        changed = False
        for i in range(len(cur["sch"])):
            budget -= 1
            if budget <= 0:
                break
            cand = dict(cur, sch=cur["sch"][:i] + cur["sch"][i + 1:])
            if fails(cand):
                cur, changed = cand, True
                break
    return cur


GET_LINES = ["try:", "return self._local.object", "except AttributeError:", "obj = self.setup_object()",
             "self._local.object = obj", "self._objects.append(obj)", "return obj"]
TD_LINES = list(TD_CODES)        # in source order


def source_shape_ok():
    """Fail-closed: the code lines (comments and the docstring apart) of the two traced functions must be exactly the modelled ones."""
    import ast
    import inspect
    import textwrap
    from lemoncheesecake.helpers.threading import ThreadedFactory
    bad = []
    for fn, want in ((ThreadedFactory.get_object, GET_LINES), (ThreadedFactory.teardown_factory, TD_LINES)):
        src = textwrap.dedent(inspect.getsource(fn))
        body = ast.parse(src).body[0].body
        has_doc = isinstance(body[0], ast.Expr) and isinstance(getattr(body[0], "value", None), ast.Constant)
        first = body[1].lineno if has_doc else body[0].lineno
        seen = [ln.strip() for ln in src.split("\n")[first - 1:] if ln.strip() and not ln.strip().startswith("#")]
        if seen != want:
            bad.append("%s: code lines %r are not the modelled ones %r" % (fn.__name__, seen, want))
    return bad


# Props/C15.v sch_inflight (open finding) and sch_raise with enough steps of teardown_factory to reach its end (fixed by F21:
# on the repaired code both objects are torn down and the failure of object 0 is raised at the end)
WITNESS_INFLIGHT = {"n": 1, "setup_fail": [], "td_fail": [], "td_fail_base": [], "sch": [0, 0, 0, 0, "M", "M", "M", 0, 0, 0, "M"],
                    "shape": "witness"}
WITNESS_RAISE = {"n": 2, "setup_fail": [], "td_fail": [0], "td_fail_base": [], "sch": [0] * 7 + [1] * 7 + ["M"] * 14, "shape": "witness"}


# ----------------------------------------------------------------------------- part B: per-thread fixtures in real runs
def run_project(spec, timeout=60):
    return lib.run_impl("impl_c15.py", spec, timeout=timeout)


def gen_project(rng, tier):
    nb_threads = rng.choice([2, 3, 4] if tier == "quick" else [1, 2, 3, 4, 6, 8])
    nsuites = rng.choice([1, 2, 3])
    fixtures = []
    for i in range(rng.choice([1, 2, 3])):
        fixtures.append({"name": "fx%d" % i, "scope": rng.choice(["session", "suite"]), "generator": rng.random() < 0.6,
                         "form": rng.choice(["genfunc", "genfunc", "delegating"]), "via": rng.random() < 0.4,
                         # declared under two names (@lcc.fixture(names=[...])): the tests use the SECOND one
                         "aliased": rng.random() < 0.3})
    suites = []
    for s in range(nsuites):
        tests = []
        for k in range(rng.choice([2, 4, 7, 12])):
            used = [("via_" + f["name"]) if (f.get("via") and rng.random() < 0.5) else f["name"] for f in fixtures if rng.random() < 0.7]
            tests.append({"name": "t%d_%d" % (s, k), "uses": used})
        suites.append({"name": "s%d" % s, "tests": tests})
    td_raise = {}
    if rng.random() < 0.6:             # the teardown part (after the yield) of some generator fixtures raises
        for f in fixtures:
            if f["generator"] and rng.random() < 0.7:
                td_raise[f["name"]] = rng.choice(["first", "all", "odd", "second"])
    return {"nb_threads": nb_threads, "fixtures": fixtures, "suites": suites, "td_raise": td_raise, "seed": rng.randrange(10 ** 6)}


def oracle_project(spec, res):
    """res["events"] recorded by the fixtures and tests of a real run, in real-time order:
    ["setup", fixture, thread, value] / ["use", fixture, scope_key, thread, value, test] / ["teardown", fixture, thread, value]
    / ["teardown_raise", fixture, thread, value]; res["error_logs"]: the error log messages of the report (an exception raised by
    a fixture teardown is logged with its text, which names the value)."""
    hits = []
    ev = res["events"]
    fx = {f["name"]: f for f in spec["fixtures"]}
    owner = {}
    for e in ev:
        if e[0] == "setup":
            owner[(e[1], e[3])] = e[2]
    seen, keyof = {}, {}
    for e in ev:
        if e[0] == "use":
            _, name, key, th, val, test = e
            ow = owner.get((name, val))
            if ow is None:
                hits.append(("fixture:unknown-value", "test %s received a value of %s that no setup produced" % (test, name)))
            elif ow != th:
                hits.append(("fixture:foreign-value", "test %s received the value of %s created on another thread" % (test, name)))
            if keyof.setdefault((name, val), key) != key:
                hits.append(("fixture:value-outlives-scope", "a value of %s is used in scopes %s and %s" % (name, keyof[(name, val)], key)))
            k = (name, key, th)
            if k in seen and seen[k] != val:
                hits.append(("fixture:not-reused", "fixture %s: two different values on one thread within scope %s" % (name, key)))
            seen.setdefault(k, val)
    torn = {}
    for i, e in enumerate(ev):
        if e[0] == "teardown":
            torn.setdefault((e[1], e[3]), []).append(i)
    raised = set(e[1] for e in ev if e[0] == "teardown_raise")
    for (name, val), th in owner.items():
        if not fx[name]["generator"]:
            continue
        n = len(torn.get((name, val), []))
        if n > 1:
            hits.append(("fixture:torn-down-twice", "a value of fixture %s was torn down %d times" % (name, n)))
        if n == 0:
            if name in raised:
                hits.append(("fixture:forgotten:teardown-raised",
                             "a value of per-thread fixture %s was never torn down: the teardown of another thread's value raised" % name))
            else:
                hits.append(("fixture:forgotten", "a value of fixture %s was never torn down" % name))
    # which failure reaches the report: for every scope instance of a fixture, the FIRST teardown that raised, no other one
    logs = res.get("error_logs")
    if logs is not None:
        by_instance = {}
        for e in ev:
            if e[0] == "teardown_raise" and len(e) >= 4:
                by_instance.setdefault((e[1], keyof.get((e[1], e[3]))), []).append(e[3])
        for (name, key), vals in sorted(by_instance.items(), key=str):
            shown = [v for v in vals if any("<%d>" % v in m for m in logs)]
            if vals[0] not in shown:
                hits.append(("fixture:first-teardown-failure-lost",
                             "fixture %s (scope %s): the first teardown that raised is not the failure in the report" % (name, key)))
            elif len(shown) > 1:
                hits.append(("fixture:later-teardown-failure-reported",
                             "fixture %s (scope %s): %d teardown failures in the report, expected the first one only" % (name, key, len(shown))))
    last_use = {}
    for i, e in enumerate(ev):
        if e[0] == "use":
            last_use[(e[1], e[4])] = i
    for k, idxs in torn.items():
        if k in last_use and idxs[0] < last_use[k]:
            hits.append(("fixture:torn-down-before-last-use", "a value of fixture %s was torn down while still in use" % k[0]))
    return hits


def model_cases_for_project(spec, res):
    """One model case per (fixture, scope instance): the observed order of accesses, each run to completion, then teardown
    (with teardown_object raising for the values whose teardown raised in the real run); compared on who received which
    value (values numbered by first appearance), on the multiset of torn-down values and on whether teardown_factory raised."""
    ev = res["events"]
    fx = {f["name"]: f for f in spec["fixtures"]}
    groups = {}
    for e in ev:
        if e[0] == "use":
            groups.setdefault((e[1], e[2]), []).append(e)
    out = []
    for (name, key), uses in sorted(groups.items()):
        vid, ths = {}, {}
        sch, accesses, created = [], [], []
        for e in uses:
            t = ths.setdefault(e[3], len(ths))
            first = not any(a[0] == t for a in accesses)
            if e[4] not in vid:
                vid[e[4]] = len(vid)
                created.append([t, vid[e[4]]])
            sch += [t] * (7 if first else 2)
            accesses.append([t, vid[e[4]]])
        sch += ["M"] * (7 * len(ths) + 5)
        torn, tf = None, []
        if fx[name]["generator"]:
            torn = [vid.get(e[3], 4999) for e in ev if e[0] == "teardown" and e[1] == name and e[3] in vid]
            tf = [vid[e[3]] for e in ev if e[0] == "teardown_raise" and e[1] == name and len(e) >= 4 and e[3] in vid]
        out.append({"n": len(ths), "sch": sch, "accesses": accesses, "created": created, "torn": torn, "tf": tf,
                    "what": [name, key]})
    return out


HEADER_B = """From Coq Require Import List Arith Bool.
Import ListNotations.
From LCC Require Import Base.Util Model.Threaded.
Definition nn := pair_eqb Nat.eqb Nat.eqb.
Fixpoint insert (x : nat) (l : list nat) : list nat :=
  match l with [] => [x] | y :: r => if Nat.leb x y then x :: l else y :: insert x r end.
Definition sort (l : list nat) := fold_right insert [] l.
(* tf: the values whose teardown raised; teardown_factory ends by raising iff tf is not empty *)
Definition agrees (c : list actor * list nat * (list (nat * nat) * list (nat * nat) * option (list nat))) : bool :=
  let s := run (cfg_of [] (snd (fst c)) []) (fst (fst c)) in
  let '(acc, cr, tn) := snd c in
  list_eqb (pair_eqb Nat.eqb (option_eqb Nat.eqb)) (rev (accesses s)) (map (fun p => (fst p, Some (snd p))) acc) &&
  list_eqb nn (rev (created s)) cr &&
  match tn with Some l => list_eqb Nat.eqb (sort (torn s)) (sort l) | None => true end &&
  match td s, snd (fst c) with TdDone, [] => true | TdRaised e, _ :: _ => existsb (Nat.eqb e) (snd (fst c)) | _, _ => false end.
"""


def cases_file_b(cases):
    pp = lambda l: c_list(l, lambda p: "(%d, %d)" % tuple(p))
    body = ";\n  ".join("(%s, %s, (%s, %s, %s))" % (c_list(c["sch"], c_actor), c_list(c.get("tf", []), c_nat), pp(c["accesses"]),
                                                      pp(c["created"]), c_opt(c["torn"], lambda l: c_list(l, c_nat))) for c in cases)
    return HEADER_B + "Definition cases : list (list actor * list nat * (list (nat * nat) * list (nat * nat) * option (list nat))) := [\n  %s\n].\n" % body + \
        "Eval vm_compute in (find_indexes (fun c => negb (agrees c)) cases).\n"


# ----------------------------------------------------------------------------- the check
def check(run):
    run.trusted += [
        "modelled, not verified: threading.local gives each thread its own slot; list.append, attribute assignment and "
        "list iteration steps are atomic under the GIL (Model/Threaded.v executes one source line of get_object / "
        "teardown_factory per step)",
        "the deterministic scheduler of the correspondence (sys.settrace line hook + semaphores) pauses real threads "
        "between source lines; finer interleavings (inside one line) are covered by the atomicity assumption only",
    ]
    run.assume += ["a thread executes one get_object of a factory at a time (setup_object does not re-enter get_object)",
                   "teardown_factory is called once per factory (ScheduledFixtures._teardown_fixture deletes the result)",
                   "C15_torn_down_exactly_once: from the end of the loop of teardown_factory until it returns or raises, no thread is "
                   "between the return of setup_object and the append (guaranteed by the scheduler: the teardown task depends on "
                   "every test of the scope; C15_torn_down_exactly_once_alone is that situation). No hypothesis on teardown_object "
                   "raising Exceptions any more (repair F21)",
                   "a teardown_object raising a BaseException that is not an Exception (KeyboardInterrupt, SystemExit) leaves "
                   "teardown_factory at once, by design of the repair (`except Exception`): such runs are modelled and compared "
                   "(TdAborted) but exactly-once teardown is not demanded of them"]
    run.prove(extra_targets=["theories/Base/Util.vo", "theories/Model/Threaded.vo"])
    bad_shape = source_shape_ok()
    if bad_shape:
        run.tie_broken("source lines of ThreadedFactory.get_object/teardown_factory are not the modelled ones", detail=bad_shape)

    # ---- witnesses of the open known finding (in flight) and of the finding fixed by F21 (teardown_object raises), replayed on
    # the real code on every run: the second one must be clean on the repaired code and is a violation again without the repair
    for w, sig in ((WITNESS_INFLIGHT, "forgotten:teardown-during-first-access"), (WITNESS_RAISE, "forgotten:teardown-object-raised")):
        try:
            obs, ev = run_schedule(w)
        except Hang as e:
            run.tie_broken("witness schedule did not run", case=w, detail=str(e))
            continue
        for h in oracle(ev):
            run.violation("oracle:" + h[0], h[1], {"part": "A", "case": w, "events": ev})

    # ---- part C: thread lifetimes through the public API only (independent of the source lines: also judges a rewritten factory)
    for i in range(60 if run.tier == "quick" else 1500):
        case = gen_lifetimes(run.rng, run.tier)
        ev = run_lifetimes(case)
        run.evaluations += 1
        run.count("lifetime_cases")
        if case.get("equal_objects"):
            run.count("lifetime_cases_with_equal_valued_objects")
        if sum(1 for t in case["threads"] if t["accesses"] and t["ends_before_teardown"]) and \
                sum(1 for t in case["threads"] if t["accesses"] and not t["ends_before_teardown"]):
            run.nontrivial.add("C:" + json.dumps(case, sort_keys=True))
            run.count("lifetime_cases_mixed")
        for h in oracle_lifetimes(case, ev):
            if any(x["signature"] == "oracle:" + h[0] for x in run.oracle_hits):
                continue
            small = case
            for k in range(len(case["threads"]) - 1, -1, -1):       # shrink: drop threads while it still fails the same way
                c2 = dict(small, threads=small["threads"][:k] + small["threads"][k + 1:])
                if c2["threads"] and any(x[0] == h[0] for x in oracle_lifetimes(c2, run_lifetimes(c2))):
                    small = c2
            run.violation("oracle:" + h[0], h[1], {"part": "C", "case": small, "events": run_lifetimes(small)})

    for scope in ("session", "suite"):
        run.evaluations += 1
        run.count("nested_per_thread_probes")
        try:
            nhits = nested_per_thread_probe(scope)
        except Exception as e:      # noqa: BLE001
            run.tie_broken("nested per-thread probe could not be run", detail="%s: %s" % (type(e).__name__, str(e)[-600:]))
            nhits = []
        for sig, text in nhits:
            run.violation("oracle:" + sig, text, {"part": "B", "probe": "nested_per_thread_probe", "scope": scope})
    for scope in ("session", "suite", "test"):
        run.evaluations += 1
        run.count("factory_as_fixture_value_probes")
        try:
            fhits = factory_as_fixture_value_probe(scope)
        except Exception as e:      # noqa: BLE001
            run.tie_broken("factory-as-fixture-value probe could not be run", detail="%s: %s" % (type(e).__name__, str(e)[-600:]))
            fhits = []
        for sig, text in fhits:
            run.violation("oracle:" + sig, text, {"part": "B", "probe": "factory_as_fixture_value_probe", "scope": scope})
    try:
        explored, rhits = first_access_race_probe()
    except Exception as e:      # noqa: BLE001
        run.tie_broken("first-access race probe could not be run", detail="%s: %s" % (type(e).__name__, str(e)[-600:]))
        explored, rhits = 0, []
    run.evaluations += explored
    run.count("first_access_preemption_points", explored)
    seen_sigs = set()
    for sig, text in rhits:
        if sig not in seen_sigs:
            seen_sigs.add(sig)
            run.violation("oracle:" + sig, text, {"part": "C", "probe": "first_access_race_probe"})
    for nthreads, accesses in ((1, 3), (3, 2), (4, 4)):
        run.evaluations += 1
        run.count("none_object_probes")
        for sig, text in none_object_probe(nthreads, accesses):
            run.violation("oracle:" + sig, text, {"part": "C", "probe": "none_object_probe", "threads": nthreads, "accesses": accesses})
    # ---- part A
    n = 250 if run.tier == "quick" else 6000
    cases = []
    for w in (WITNESS_INFLIGHT, WITNESS_RAISE):
        try:
            cases.append((w, run_schedule(w)[0]))
        except Hang:
            pass                    # already reported above
    hangs = 0
    for i in range(n):
        case = gen_case(run.rng, run.tier)
        if hangs >= 3:              # the line-level scheduler does not fit this source any more: the tie is broken, stop waiting
            break
        try:
            obs, ev = run_schedule(case)
        except Hang as e:
            hangs += 1
            run.tie_broken("schedule did not run on the implementation", case=case, detail=str(e))
            continue
        run.evaluations += 1
        run.count("schedules")
        run.count("shape:" + case["shape"])
        if case.get("equal_objects"):
            run.count("schedules_with_equal_valued_objects")
        run.count("threads", case["n"])
        run.count("steps", len(case["sch"]))
        creators = len(set(e[1] for e in ev if e[0] == "created"))
        reused = len([e for e in ev if e[0] == "access" and e[2] is not None]) > creators
        if creators >= 2 and reused and any(e[0] == "torn" for e in ev):
            run.nontrivial.add(json.dumps(case, sort_keys=True))
            run.count("nontrivial_schedules")
        if case["setup_fail"]:
            run.count("with_setup_failure")
        if case["td_fail"]:
            run.count("with_teardown_failure")
            if len([e for e in ev if e[0] == "torn_raise"]) >= 2:
                run.count("with_two_or_more_teardown_failures")
            if any(e[0] == "td_raise" for e in ev) and len([e for e in ev if e[0] == "torn"]) >= 2:
                run.nontrivial.add("raise:" + json.dumps(case, sort_keys=True))
                run.count("teardown_factory_raised_after_tearing_down_2_or_more")
        if any(e[0] == "td_abort" for e in ev):
            run.count("teardown_left_by_base_exception")
        for h in oracle(ev):
            if any(x["signature"] == "oracle:" + h[0] for x in run.oracle_hits):
                continue
            small = shrink(case, h[0])
            run.violation("oracle:" + h[0], h[1], {"part": "A", "case": small, "events": run_schedule(small)[1]})
        if representable(obs):
            cases.append((case, obs))
        else:
            run.tie_broken("observation not representable (unknown line or foreign value)", case=case, impl=obs)
        if i < 2:
            run.sample({"case": case, "observed": obs})

    # ---- part B
    nb = 12 if run.tier == "quick" else 150
    cases_b = []
    for i in range(nb):
        spec = gen_project(run.rng, run.tier)
        try:
            res = run_project(spec)
        except Exception as e:
            run.tie_broken("real multi-threaded run failed", case=spec, detail=str(e)[-1500:])
            continue
        run.evaluations += 1
        run.count("projects")
        run.count("project_tests", sum(len(s["tests"]) for s in spec["suites"]))
        threads_used = len(set(e[2] for e in res["events"] if e[0] == "setup"))
        run.count("project_threads_with_own_value", threads_used)
        if threads_used >= 2:
            run.nontrivial.add("B:" + json.dumps(spec, sort_keys=True))
        if any(e[0] == "teardown_raise" for e in res["events"]):
            run.count("projects_with_raising_fixture_teardown")
        if any(f.get("aliased") for f in spec["fixtures"]):
            run.count("projects_with_a_per_thread_fixture_declared_under_two_names")
        if any(f["generator"] and f.get("form") == "delegating" for f in spec["fixtures"]):
            run.count("projects_with_a_fixture_function_returning_a_generator")
        for h in oracle_project(spec, res):
            if any(x["signature"] == "oracle:" + h[0] for x in run.oracle_hits):
                continue
            run.violation("oracle:" + h[0], h[1], {"part": "B", "spec": spec, "events": res["events"][:200]})
        if res.get("report_failures"):
            run.tie_broken("generated project did not pass", case=spec, detail=res["report_failures"][:5])
        cases_b += [(spec, c) for c in model_cases_for_project(spec, res)]
        if i < 1:
            run.sample({"project": spec, "events_head": res["events"][:12]})
    # the teardown-raises finding (fixed by F21), observed through the scheduler: must be clean on the repaired code
    spec = {"nb_threads": 2, "fixtures": [{"name": "fx0", "scope": "session", "generator": True}],
            "suites": [{"name": "s0", "tests": [{"name": "t0_%d" % k, "uses": ["fx0"]} for k in range(6)]}],
            "td_raise": ["fx0"], "barrier": 2, "seed": 1}
    try:
        res = run_project(spec)
        run.evaluations += 1
        for h in oracle_project(spec, res):
            if any(x["signature"] == "oracle:" + h[0] for x in run.oracle_hits):
                continue
            run.violation("oracle:" + h[0], h[1], {"part": "B", "spec": spec, "events": res["events"][:200]})
        cases_b += [(spec, c) for c in model_cases_for_project(spec, res)]
    except Exception as e:
        run.tie_broken("real multi-threaded run failed", case=spec, detail=str(e)[-1500:])

    if getattr(run, "model_ok", False):
        shards = [cases[i:i + 400] for i in range(0, len(cases), 400)]
        texts = [("a%d" % k, cases_file(sh)) for k, sh in enumerate(shards)]
        shards_b = [cases_b[i:i + 400] for i in range(0, len(cases_b), 400)]
        texts += [("b%d" % k, cases_file_b([c for _, c in sh])) for k, sh in enumerate(shards_b)]
        outs = run.coq_eval_many(texts)
        for k, (rc, out) in enumerate(outs):
            bad = lib.parse_nat_list(out) if rc == 0 else None
            if bad is None:
                run.tie_broken("case file did not evaluate", detail=out[-1500:])
                continue
            for idx in bad[:2]:
                if k < len(shards):
                    case, obs = shards[k][idx]
                    run.tie_broken("observe (run cfg sch) = observation of the real ThreadedFactory", case=case, impl=obs)
                else:
                    spec, c = shards_b[k - len(shards)][idx]
                    run.tie_broken("model replay of the accesses of a real run = observed values", case=c, impl=spec)
    run.coverage["rule"] = (
        "C: real threads using one real ThreadedFactory through its public API, some of them ended, joined and collected before "
        "teardown_factory, teardown_object raising for the objects of some threads (exactly-once teardown of every created "
        "object, one object per thread, the first failure is what teardown_factory raises); non-trivial = both kinds present.  "
        "A: seeded schedules (1-8 threads; shapes: framework = random interleaving of first accesses then teardown with "
        "everybody idle, racy = teardown_factory interleaved with first accesses, prefix/random) with random setup_object / "
        "teardown_object failures (Exception for any subset of the objects; sometimes a BaseException), executed by real threads on the real ThreadedFactory paused before every source line, and by "
        "Model.Threaded.run inside Coq; non-trivial = at least two threads created an object, some access was a reuse and "
        "teardown tore something down.  B: generated projects with per-thread session/suite fixtures (plain and generator, "
        "teardown parts raising for the first / every / every second value) run by the real runner on N threads; non-trivial = "
        "at least two threads got their own value")


def replay(path):
    r = json.load(open(path))
    rp = r.get("replay") or {}
    if rp.get("probe") == "first_access_race_probe":
        explored, hits = first_access_race_probe()
        print(json.dumps({"preemption_points": explored, "oracle": hits}, indent=1))
        return 1 if hits else 0
    if rp.get("probe") in ("none_object_probe", "nested_per_thread_probe", "factory_as_fixture_value_probe"):
        hits = {"none_object_probe": lambda: none_object_probe(rp.get("threads", 3), rp.get("accesses", 2)),
                "nested_per_thread_probe": lambda: nested_per_thread_probe(rp.get("scope", "session")),
                "factory_as_fixture_value_probe": lambda: factory_as_fixture_value_probe(rp.get("scope", "session"))}[rp["probe"]]()
        print(json.dumps({"probe": rp["probe"], "oracle": hits}, indent=1))
        return 1 if hits else 0
    if rp.get("part") == "C":
        ev = run_lifetimes(rp["case"])
        hits = oracle_lifetimes(rp["case"], ev)
        print(json.dumps({"case": rp["case"], "events": ev, "oracle": hits}, indent=1))
        return 1 if hits else 0
    if rp.get("part") == "B":
        res = run_project(rp["spec"])
        hits = oracle_project(rp["spec"], res)
        print(json.dumps({"spec": rp["spec"], "oracle": hits}, indent=1))
        return 1 if any("oracle:" + h[0] == r.get("signature") for h in hits) or (hits and not r.get("signature")) else 0
    case = rp.get("case") or (r.get("broken") or [{}])[0].get("case")
    if not case or "sch" not in case:
        print("nothing to replay in", path)
        return 2
    obs, ev = run_schedule(case)
    hits = oracle(ev)
    print(json.dumps({"case": case, "observed": obs, "oracle": hits}, indent=1))
    sig = r.get("signature")
    return 1 if any("oracle:" + h[0] == sig for h in hits) or (hits and not sig) else 0
