"""C07 — reporting backends receive a well-formed event stream. Props/C07.v; ProtocolP.v, SchedP.v."""
import engine
import propcommon
import runoracle

PROFILE = {"p_spawn": 0.2, "script_len": 5, "p_hook": 0.45, "p_empty_suite": 0.06, "p_fail": 0.2}


def check(run):
    run.trusted += engine.TRUSTED + ["the event queue is FIFO with a single consumer thread (events.py): the order of `fire` is the order "
                                     "every backend sees; checked on every run by comparing the recorded backend stream with the trace"]
    run.assume += engine.ASSUME
    run.prove(extra_targets=engine.TARGETS)
    n = 120 if run.tier == "quick" else 3000
    cases = engine.gen_cases(run, n, profile=PROFILE, threads=(1, 1, 2, 3, 4) if run.tier == "quick" else (1, 1, 2, 3, 4, 6, 8), prefix="e")

    def oracle(c, r):
        hits = runoracle.c07_oracle(c, r)
        # the stream delivered to the backend is the stream put on the queue, in the same order
        if (r.get("outcome") or ["?"])[0] == "returned":
            fired = [a[2] for a in (r.get("trace") or []) if a[1] == "fire"]
            got = r.get("events") or []
            if [e[0] for e in fired] != [e[0] for e in got]:
                hits.append(("delivery-order-differs", "the backend did not receive the events in the order they were put on the queue"))
        return hits
    propcommon.run_cases(run, cases, oracle, lambda c, r: len(r.get("events") or []) > 30 and c["options"]["nb_threads"] > 1)
    run.coverage["rule"] = ("seeded random projects with user threads, empty steps and empty setup phases, 1..4 (thorough ..8) threads, "
                            "random/biased schedules; the stream recorded by a backend registered through the public interface is "
                            "checked against the grammar of DESIGN.md A.1; non-trivial = more than 30 events with more than one thread")


replay = propcommon.make_replay(runoracle.c07_oracle)
