"""C07 — reporting backends receive a well-formed event stream. Props/C07.v; ProtocolP.v, SchedP.v."""
import engine
import projgen
import propcommon
import runoracle

PROFILE = {"p_spawn": 0.2, "script_len": 5, "p_hook": 0.45, "p_empty_suite": 0.06, "p_fail": 0.2}


def check(run):
    run.trusted += engine.TRUSTED + ["the event queue is FIFO with a single consumer thread (events.py): the order of `fire` is the order "
                                     "every backend sees; checked on every run by comparing the recorded backend stream with the trace"]
    run.assume += engine.ASSUME
    run.prove(extra_targets=engine.TARGETS)
    n = 120 if run.tier == "quick" else 3000
    cases = engine.gen_cases(run, n, profile=PROFILE, threads=(1, 1, 2, 3, 4) if run.tier == "quick" else (1, 1, 2, 3, 4, 6, 8), prefix="e")

    def oracle(c, r):
        hits = runoracle.c07_oracle(c, r)
        # the stream delivered to the backend is the stream put on the queue, in the same order
        if (r.get("outcome") or ["?"])[0] == "returned":
            fired = [a[2] for a in (r.get("trace") or []) if a[1] == "fire"]
            got = r.get("events") or []
            if [e[0] for e in fired] != [e[0] for e in got]:
                hits.append(("delivery-order-differs", "the backend did not receive the events in the order they were put on the queue"))
        return hits
    propcommon.run_cases(run, cases, oracle, lambda c, r: len(r.get("events") or []) > 30 and c["options"]["nb_threads"] > 1)
    # API forms the script language of the Coq model does not have, judged by the stream grammar only (no model layer): user
    # code running INSIDE a `with lcc.prepare_attachment(...)` block (steps changed, logs, checks in it)
    import copy
    import sim
    ctx = engine.gen_cases(run, 40 if run.tier == "quick" else 800, profile=dict(PROFILE, p_spawn=0.1), threads=(1, 2, 3), prefix="ectx")

    def rewrite(script):
        out, n = [], 0
        for a in script:
            if a[0] == "attach" and run.rng.random() < 0.8:
                inner = [run.rng.choice([["step", 900 + a[1]], ["log", 1, 900 + a[1]], ["check", True, 900 + a[1]], ["url", 900 + a[1]]])
                         for _ in range(run.rng.randint(1, 3))]
                out.append(["attach_ctx", a[1], inner])
                n += 1
            elif a[0] == "spawn":
                sub, k = rewrite(a[1])
                out.append(["spawn", sub])
                n += k
            else:
                out.append(a)
        return out, n

    def rewrite_project(pd):
        n = 0
        def go(s):
            nonlocal n
            for t in s["tests"]:
                t["body"], k = rewrite(t["body"])
                if k == 0 and run.rng.random() < 0.5:
                    t["body"] = t["body"] + [["attach_ctx", 990, [["step", 991]]], ["log", 1, 992]]
                    k = 1
                n += k
            hk = s["hooks"]
            for h in ("teardown_suite", "setup_test", "teardown_test"):
                if hk.get(h):
                    hk[h], k = rewrite(hk[h])
                    n += k
            if hk.get("setup_suite"):
                hk["setup_suite"]["script"], k = rewrite(hk["setup_suite"]["script"])
                n += k
            for sub in s["subs"]:
                go(sub)
        for f in pd["fixtures"]:
            if f["scope"] != "pre_run":
                f["setup"], k = rewrite(f["setup"])
                n += k
                f["teardown"], k = rewrite(f["teardown"])
                n += k
        for s in pd["suites"]:
            go(s)
        return n
    ctx = [c for c in ctx if rewrite_project(c["project"]) > 0]
    cres = sim.run_cases(ctx)
    for c in ctx:
        r = cres.get(c["id"]) or {"outcome": ["hang", "no result"]}
        run.evaluations += 1
        run.count("runs_with_code_inside_prepare_attachment")
        hits = runoracle.c07_oracle(c, r) + runoracle._abnormal_end(r.get("outcome") or ["?"], "the stream is not delivered to its end")
        for sig, text in hits:
            run.violation(sig, text, {"case": c, "outcome": r.get("outcome")})
    # Ctrl-C while user threads are alive (oracle only: in-flight code after an interrupt is outside layer 3's fragment): every
    # step that was started is ended before its test / phase ends, also for an lcc.Thread that finishes after the stop
    icases = engine.gen_cases(run, 40 if run.tier == "quick" else 800, profile=dict(PROFILE, p_spawn=0.5, script_len=6, p_fail=0.05),
                              threads=(1, 2, 3), prefix="eint")
    for c in icases:
        c["interrupt_at"] = run.rng.randint(0, 12)
        c["options"]["stop_on_failure"] = False
    ires = sim.run_cases(icases)
    for c in icases:
        r = ires.get(c["id"]) or {"outcome": ["hang", "no result"]}
        run.evaluations += 1
        run.count("interrupted_runs_with_user_threads")
        if any(a[1] == "spawn" for a in (r.get("trace") or [])):
            run.count("interrupted_runs_in_which_a_user_thread_was_started")
        for sig, text in runoracle.c07_oracle(c, r):
            run.violation(sig, text, {"case": c, "outcome": r.get("outcome")})
    # ... and with ONE worker: while the interrupted test is still running, nothing of another test or suite may reach the
    # backends (the remaining tasks are skipped by the worker, after it)
    nohooks = {"setup_suite": None, "teardown_suite": None, "setup_test": None, "teardown_test": None}
    scases = []
    for k in range(12 if run.tier == "quick" else 120):
        tests = [{"name": "t%d" % (10 + i), "disabled": False, "rank": i, "deps": [], "args": [], "params": {},
                  "body": [["log", 1, 1], ["mark", 1], ["mark", 2], ["log", 1, 2], ["mark", 3], ["log", 1, 3]]} for i in range(3)]
        subs = [{"name": "s8", "disabled": False, "rank": 0, "hooks": nohooks, "injected": [], "subs": [],
                 "tests": [{"name": "t20", "disabled": False, "rank": 0, "deps": [], "args": [], "params": {}, "body": [["log", 1, 4]]}]}] if k % 2 else []
        scases.append({"id": "eone%d" % k, "project": {"fixtures": [], "suites": [
            {"name": "s6", "disabled": False, "rank": 0, "hooks": nohooks, "injected": [], "tests": tests, "subs": subs}]},
            "sched": projgen.gen_sched(run.rng, "random"), "interrupt_at": 1 + k % 3,
            "options": {"nb_threads": 1, "stop_on_failure": False, "force_disabled": False}})
    sres = sim.run_cases(scases)
    for c in scases:
        r = sres.get(c["id"]) or {"outcome": ["hang", "no result"]}
        run.evaluations += 1
        run.count("interrupted_runs_with_one_worker")
        for sig, text in runoracle.c07_oracle(c, r):
            run.violation(sig, text, {"case": c, "outcome": r.get("outcome")})
    run.coverage["rule"] = ("seeded random projects with user threads, empty steps and empty setup phases, 1..4 (thorough ..8) threads, "
                            "random/biased schedules; the stream recorded by a backend registered through the public interface is "
                            "checked against the grammar of DESIGN.md A.1; non-trivial = more than 30 events with more than one thread")


replay = propcommon.make_replay(runoracle.c07_oracle)
