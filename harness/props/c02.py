"""C02 — verdicts are sound. Models: TaskSem.v (+ Sched.v); proofs: VerdictP.v; Props/C02.v."""
import json
import subprocess
import os
import tempfile

import engine
import propcommon
import projgen
import runoracle
import sim

PROFILE = {"p_fail": 0.25, "p_spawn": 0.2, "script_len": 5, "p_hook": 0.45, "max_fixtures": 5, "p_fixture_arg": 0.5}


def check(run):
    run.trusted += engine.TRUSTED + ["the report writer's status computation (passed iff every log of every step is successful) "
                                     "is modelled in Model/Writer.v (C18) and checked here by the oracle on the real report"]
    run.assume += engine.ASSUME + ["threads started by a script are joined by it (lcc.Thread objects that outlive their test are excluded)"]
    run.prove(extra_targets=engine.TARGETS)
    n = 120 if run.tier == "quick" else 3000
    cases = engine.gen_cases(run, n, profile=PROFILE, threads=(1, 2, 3, 4) if run.tier == "quick" else (1, 2, 3, 4, 6, 8), prefix="v")
    results = engine.cosim(run, cases)
    for c in cases:
        r = results.get(c["id"]) or {"outcome": ["hang", "no result"]}
        run.evaluations += 1
        rep = r.get("report")
        if rep:
            res = runoracle._results_of_report(rep)
            for st in ("passed", "failed", "skipped", "disabled"):
                run.count("status:" + st, sum(1 for x in res.values() if x["status"] == st))
            if any(x["status"] == "failed" for x in res.values()) and any(x["status"] == "passed" for x in res.values()):
                run.nontrivial.add(c["id"])
        for sig, text in runoracle.c02_oracle(c, r):
            run.violation(sig, text, {"case": c, "outcome": r.get("outcome")})
        if len(run.samples) < 2 and rep:
            run.sample({"options": c["options"], "statuses": {"%s %s" % k: v["status"] for k, v in list(runoracle._results_of_report(rep).items())[:12]}})
    # directed family: two (three) tests running at the same time, each with a user thread of its own; one test's thread has
    # ended while the test goes on, the other test's thread starts afterwards (the OS hands out the identifier of the thread
    # that is gone again) and is the only one that fails -- under random schedules and real worker threads
    nohooks = {"setup_suite": None, "teardown_suite": None, "setup_test": None, "teardown_test": None}

    def tst(name, rank, body):
        return {"name": name, "disabled": False, "rank": rank, "deps": [], "args": [], "params": {}, "body": body}
    rcases = []
    for k in range(24 if run.tier == "quick" else 400):
        fails = run.rng.choice([["log", 3, 3], ["check", False, 3]])
        early = [["spawn", [["log", 1, 1]] + ([["step", 2], ["log", 1, 4]] if run.rng.random() < 0.5 else [])], ["join"]] + \
            [["mark", i] for i in range(run.rng.randint(2, 6))] + [["log", 1, 2]]
        late = [["mark", 10 + i] for i in range(run.rng.randint(1, 5))] + \
            [["spawn", ([["step", 5]] if run.rng.random() < 0.5 else []) + [fails]], ["join"]]
        tests = [tst("t7", 0, early), tst("t8", 1, late)]
        if run.rng.random() < 0.4:
            tests.append(tst("t9", 2, [["mark", 20], ["spawn", [["log", 1, 6]]], ["join"], ["mark", 21]]))
        run.rng.shuffle(tests)
        for i, t in enumerate(tests):
            t["rank"] = i
        rcases.append({"id": "vr%d" % k, "project": {"fixtures": [], "suites": [
            {"name": "s6", "disabled": False, "rank": 0, "hooks": nohooks, "injected": [], "tests": tests, "subs": []}]},
            "sched": projgen.gen_sched(run.rng, run.rng.choice(["random", "bursts", "last"])),
            "options": {"nb_threads": run.rng.choice([2, 2, 3]), "stop_on_failure": False, "force_disabled": False}})
    rres = engine.cosim(run, rcases)
    for c in rcases:
        r = rres.get(c["id"]) or {"outcome": ["hang", "no result"]}
        run.evaluations += 1
        run.count("user_thread_after_user_thread_runs")
        for sig, text in runoracle.c02_oracle(c, r):
            run.violation(sig, text, {"case": c, "outcome": r.get("outcome")})
    # directed family: every test passes and the ONLY failure is made by a teardown (teardown_suite hook, suite / session fixture
    # teardown) or by a suite setup nobody... : the run is not successful
    tcases = []
    for k, (where, how, nthreads) in enumerate([("teardown_suite", ["check", False, 1], 1), ("teardown_suite", ["log", 3, 1], 2),
                                               ("suite_fixture", ["raise", "Exception"], 1), ("session_fixture", ["log", 3, 1], 2),
                                               ("session_fixture", ["check", False, 1], 1), ("teardown_test", ["log", 3, 1], 1)]):
        hooks = dict(nohooks)
        fixtures, args = [], []
        if where in ("teardown_suite", "teardown_test"):
            hooks[where] = [["mark", 1], how]
        else:
            fixtures = [{"name": "f5", "scope": "suite" if where == "suite_fixture" else "session", "params": [], "per_thread": False,
                         "generator": True, "setup": [["mark", 1]], "teardown": [["mark", 2], how]}]
            args = ["f5"]
        tests = [dict(tst("t%d" % (7 + i), i, [["log", 1, 10 + i]]), args=list(args)) for i in range(2)]
        tcases.append({"id": "vt%d" % k, "project": {"fixtures": fixtures, "suites": [
            {"name": "s6", "disabled": False, "rank": 0, "hooks": hooks, "injected": [], "tests": tests, "subs": []}]},
            "sched": projgen.gen_sched(run.rng), "options": {"nb_threads": nthreads, "stop_on_failure": False, "force_disabled": False}})
    tres = engine.cosim(run, tcases)
    for c in tcases:
        r = tres.get(c["id"]) or {"outcome": ["hang", "no result"]}
        run.evaluations += 1
        run.count("only_a_teardown_fails_runs")
        for sig, text in runoracle.c02_oracle(c, r):
            run.violation(sig, text, {"case": c, "outcome": r.get("outcome")})
    # directed family: a test aborts its suite (or every test) while ANOTHER test of the suite, on another worker, is still inside its
    # (clean) setup: that other test has begun; it runs to its end and its verdict is what happened in it
    acases = []
    for k in range(16 if run.tier == "quick" else 300):
        hooks = dict(nohooks)
        hooks["setup_test"] = [["mark", 30 + i] for i in range(run.rng.randint(2, 6))]
        if run.rng.random() < 0.5:
            hooks["teardown_test"] = [["mark", 50]]
        aborts = tst("t7", 0, [["mark", i] for i in range(run.rng.randint(0, 3))] +
                     [["raise", run.rng.choice(["AbortSuite", "AbortAllTests"])]])
        others = [tst("t%d" % (8 + i), 1 + i, [["mark", 10 + i], run.rng.choice([["log", 3, 3 + i], ["check", False, 3 + i], ["log", 1, 3 + i]]),
                                               ["mark", 20 + i]]) for i in range(run.rng.randint(1, 2))]
        acases.append({"id": "va%d" % k, "project": {"fixtures": [], "suites": [
            {"name": "s6", "disabled": False, "rank": 0, "hooks": hooks, "injected": [], "tests": [aborts] + others, "subs": []}]},
            "sched": projgen.gen_sched(run.rng, run.rng.choice(["random", "bursts", "last"])),
            "options": {"nb_threads": run.rng.choice([2, 3]), "stop_on_failure": False, "force_disabled": False}})
    ares = engine.cosim(run, acases)
    for c in acases:
        r = ares.get(c["id"]) or {"outcome": ["hang", "no result"]}
        run.evaluations += 1
        run.count("abort_while_another_test_is_in_its_setup_runs")
        rep = r.get("report")
        if rep:
            res = runoracle._results_of_report(rep)
            if sum(1 for key, x in res.items() if key[0] == "test" and x["status"] in ("passed", "failed")) >= 2:
                run.count("aborted_suites_with_a_second_test_that_had_begun")
        for sig, text in runoracle.c02_oracle(c, r):
            run.violation(sig, text, {"case": c, "outcome": r.get("outcome")})
    # skipped although nothing failed: quiet projects interrupted by Ctrl-C at a random step of the main loop; only the success
    # flags are judged (in-flight code is outside the fragment of layer 3: layers 1 and 2 only)
    quiet = dict(PROFILE, p_fail=0.0, p_spawn=0.0)
    icases = engine.gen_cases(run, 30 if run.tier == "quick" else 600, profile=quiet, threads=(1, 2, 3), prefix="vi")
    for c in icases:
        c["interrupt_at"] = run.rng.randint(0, 8)
    ires = engine.cosim(run, icases, layers=(1, 2))
    for c in icases:
        r = ires.get(c["id"]) or {"outcome": ["hang", "no result"]}
        run.evaluations += 1
        run.count("interrupted_quiet_runs")
        rep = r.get("report")
        if rep:
            st = [x["status"] for x in runoracle._results_of_report(rep).values()]
            if "skipped" in st and "failed" not in st:
                run.count("skipped_without_failed")
                run.nontrivial.add(c["id"])
        for sig, text in runoracle.c02_success_oracle(c, r):
            run.violation(sig, text, {"case": c, "outcome": r.get("outcome")})
    # the exit code under --exit-error-on-failure, through the real CLI, for a passing and a failing project
    if run.tier == "thorough" or True:
        for fail in (False, True, "teardown_suite", "session_fixture_teardown", "disabled_only", "empty_error_log"):
            code = cli_exit_code(fail)
            run.count("cli_exit_code_checked")
            failing = fail not in (False, "disabled_only")
            if (code != 0) != failing:
                run.violation("exit-code-wrong", "lcc run --exit-error-on-failure returned %s for a project that %s" % (code, {
                    False: "passes", True: "has a failing test", "teardown_suite": "passes all its tests and fails in teardown_suite",
                    "session_fixture_teardown": "passes all its tests and fails in the teardown of a session fixture",
                    "disabled_only": "passes its only enabled test and has a disabled one",
                    "empty_error_log": "logs an error whose message is empty (log_error(str(exc)) for an exception without text)"}[fail]),
                    {"failing_project": fail, "exit_code": code})
    propcommon.search_failing_schedule(run, cases, runoracle.c02_oracle, results)
    run.coverage["rule"] = ("seeded random projects biased towards failures of every kind in every phase and towards user threads; "
                            "non-trivial = a run whose report holds at least one failed and one passed result")
    run.coverage["traces_validated_against_impl"] = len([c for c in cases if results.get(c["id"], {}).get("graph")])


def cli_exit_code(fail):
    import lib
    d = tempfile.mkdtemp(prefix="lccverif_cli_")
    try:
        os.mkdir(os.path.join(d, "suites"))
        with open(os.path.join(d, "suites", "mysuite.py"), "w") as f:
            src = ("import lemoncheesecake.api as lcc\nfrom lemoncheesecake.matching import *\n\n"
                   "@lcc.suite('s')\nclass mysuite:\n    @lcc.test('t')\n    def t(self%s):\n        check_that('v', 1, equal_to(%d))\n" % (
                       ", fx" if fail == "session_fixture_teardown" else "", 2 if fail is True else 1))
            if fail == "empty_error_log":
                src += "    @lcc.test('u')\n    def u(self):\n        lcc.log_error('')\n"
            if fail == "teardown_suite":
                src += "    def teardown_suite(self):\n        lcc.log_error('teardown fails')\n"
            if fail == "disabled_only":
                src += "    @lcc.test('u')\n    @lcc.disabled()\n    def u(self):\n        check_that('v', 1, equal_to(2))\n"
            f.write(src)
        if fail == "session_fixture_teardown":
            os.mkdir(os.path.join(d, "fixtures"))
            with open(os.path.join(d, "fixtures", "fx.py"), "w") as f:
                f.write("import lemoncheesecake.api as lcc\n\n@lcc.fixture(scope='session')\ndef fx():\n    yield 1\n    raise Exception('boom')\n")
        env = dict(os.environ, PYTHONPATH=lib.REPO)
        p = subprocess.run([lib.PY, "-c", "import sys; from lemoncheesecake.cli.main import main; sys.exit(main(sys.argv[1:]))",
                            "run", "--exit-error-on-failure"], cwd=d, env=env,
                           stdout=subprocess.DEVNULL, stderr=subprocess.DEVNULL, timeout=120)
        return p.returncode
    finally:
        import shutil
        shutil.rmtree(d, ignore_errors=True)


def replay(path):
    r = json.load(open(path))
    case = (r.get("replay") or {}).get("case") or ((r.get("broken") or [{}])[0].get("case"))
    if not case or "project" not in case:
        print("nothing to replay")
        return 2
    case.setdefault("id", "replay")
    case.setdefault("sched", [])
    res = sim.run_cases([case])[case["id"]]
    hits = runoracle.c02_oracle(case, res)
    print(json.dumps({"outcome": res.get("outcome"), "oracle": hits}, indent=1))
    return 1 if hits else 0
