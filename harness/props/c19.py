"""C19 — report directory rotation.  Model: coq/theories/Model/ReportDir.v ; theorems: Props/C19.v."""
import json
import os
import shutil
import sys
import tempfile

import lib
from lib import c_nat, c_opt, c_list, c_pair

LIMITS = [None, 0, 1, 2, 3, 4, 10, 11, 12, 20]


# ----------------------------------------------------------------------------- generator
def gen_history(rng, tier):
    if rng.random() < 0.04:
        # no limit at all: more runs than any default limit (20) would keep
        return [["run", None] for _ in range(rng.randint(22, 26))]
    if rng.random() < 0.2:
        # "fill" family: one limit kept for the whole history, enough consecutive runs to fill every slot and purge several
        # times (limits with two digits included: archive names do not sort like their numbers), a few deletions in between
        lim = rng.choice([2, 3, 4, 10, 11, 12, 20])
        ops = []
        foreign = rng.random() < 0.35
        for _ in range(lim + rng.randint(2, 6)):
            ops.append(["run", lim])
            if rng.random() < 0.06:
                ops.append(["drop"])
            if rng.random() < 0.08:
                k = rng.randint(1, lim + 1)
                ops.append(["delete", k])
                if foreign:       # the archive was packed / renamed rather than deleted: its slot is free, its name is still around
                    ops.append(["foreign", "report-%d%s" % (k, rng.choice([".tar.gz", "-keep"])), rng.choice(["file", "dir"])])
        return ops
    n = rng.choice([3, 6, 10, 16, 24] if tier == "quick" else [3, 6, 10, 16, 24, 30, 45])
    fixed = rng.random() < 0.7
    lim = rng.choice(LIMITS)
    ops = []
    p_foreign = rng.choice([0.0, 0.0, 0.08, 0.15])
    p_relink = rng.choice([0.0, 0.0, 0.0, 0.1])
    p_drop = rng.choice([0.0, 0.0, 0.08, 0.15])
    for _ in range(n):
        if ops and rng.random() < p_foreign:
            # an entry of reports/ that is NOT an archive slot although its name begins like one: a packed or renamed archive,
            # notes (the rotation must neither count it as a slot nor touch it)
            ops.append(["foreign", "report-%d%s" % (rng.choice([1, 1, 2, 2, 3, 4, 10, 20]),
                                                   rng.choice([".tar.gz", "-keep", ".bak", "_old", " (copy)", "x", ".d"])),
                        rng.choice(["file", "dir"])])
        elif ops and rng.random() < p_relink:
            # the user moved report/ elsewhere (another disk) and linked it back: still the current report, archived next time
            ops.append(["relink"])
        elif ops and rng.random() < p_drop:
            # the user removed report/ (or moved it out of the project): the next run has nothing to archive and must purge nothing
            ops.append(["drop"])
        elif rng.random() < 0.72 or not ops:
            ops.append(["run", lim if fixed else rng.choice(LIMITS)])
        else:
            # manual deletion, biased towards archives that exist
            ops.append(["delete", rng.choice([1, 1, 2, 2, 3, 3, 4, 5, 6, 19, 20, 21])])
    return ops


# ----------------------------------------------------------------------------- implementation driver
def read_marker(d):
    """The run a report directory belongs to; None when its marker OR its hidden resources directory is missing or of another run."""
    p, h = os.path.join(d, "marker"), os.path.join(d, ".html", "res")
    if not os.path.exists(p):
        return None
    m = int(open(p).read())
    if m != 777 and (not os.path.exists(h) or open(h).read() != str(m)):
        return None
    return m


def observe(top):
    cur = None
    rd = os.path.join(top, "report")
    if os.path.isdir(rd):
        cur = read_marker(rd)
    arch = []
    ad = os.path.join(top, "reports")
    if os.path.isdir(ad):
        for name in os.listdir(ad):
            if name in FOREIGN_SEEN:
                continue
            assert name.startswith("report-"), name
            arch.append([int(name[len("report-"):]), read_marker(os.path.join(ad, name))])
    return [cur, sorted(arch)]


FOREIGN_SEEN = set()      # names of the foreign entries of the history being run


def foreign_state(top, names):
    """What is left of the foreign entries: name -> content ('<missing>' when gone)."""
    res = {}
    for n in sorted(names):
        p = os.path.join(top, "reports", n)
        if os.path.isdir(p):
            res[n] = "dir:%s" % read_marker(p)
        elif os.path.isfile(p):
            res[n] = "file:" + open(p).read()
        else:
            res[n] = "<missing>"
    return res


def run_history(ops, via_project=False):
    """Runs the real create_report_dir_with_rotation on a scratch directory.
    Returns the list of observations (one per op) and per-run facts for the oracle."""
    from lemoncheesecake.reporting.reportdir import create_report_dir_with_rotation
    from lemoncheesecake.project import Project
    top = tempfile.mkdtemp(prefix="lccverif_c19_")
    obs, facts = [], []
    nxt = 0
    FOREIGN_SEEN.clear()
    FOREIGN_SEEN.update(op[1] for op in ops if op[0] == "foreign")
    made = {}
    try:
        for op in ops:
            if op[0] == "relink":
                rd = os.path.join(top, "report")
                if os.path.isdir(rd) and not os.path.islink(rd):
                    ext = os.path.join(top, "elsewhere_%d" % len(obs))
                    shutil.move(rd, ext)
                    os.symlink(ext, rd)
                facts.append({"foreign": dict(made), "foreign_now": foreign_state(top, made)})
                obs.append(observe(top))
                continue
            if op[0] == "drop":
                rd = os.path.join(top, "report")
                if os.path.islink(rd):
                    os.remove(rd)
                else:
                    shutil.rmtree(rd, ignore_errors=True)
                facts.append({"foreign": dict(made), "foreign_now": foreign_state(top, made)})
                obs.append(observe(top))
                continue
            if op[0] == "foreign":
                os.makedirs(os.path.join(top, "reports"), exist_ok=True)
                p = os.path.join(top, "reports", op[1])
                if op[1] not in made:
                    if op[2] == "dir":
                        os.mkdir(p)
                        with open(os.path.join(p, "marker"), "w") as f:
                            f.write("777")
                        made[op[1]] = "dir:777"
                    else:
                        with open(p, "w") as f:
                            f.write("packed")
                        made[op[1]] = "file:packed"
                facts.append({"foreign": dict(made), "foreign_now": foreign_state(top, made)})
                obs.append(observe(top))
                continue
            if op[0] == "run":
                try:
                    if via_project and op[1] == 20:
                        d = Project(top).create_report_dir()
                    else:
                        d = create_report_dir_with_rotation(top, op[1])
                except Exception as e:
                    obs.append(["exception", type(e).__name__, str(e)[:200]])
                    facts.append({"exception": type(e).__name__})
                    break
                facts.append({"new_dir_empty": os.listdir(d) == [], "dir_is_report": os.path.realpath(d) == os.path.realpath(os.path.join(top, "report")),
                              "foreign": dict(made), "foreign_now": foreign_state(top, made)})
                with open(os.path.join(d, "marker"), "w") as f:
                    f.write(str(nxt))
                # what the default HTML backend leaves in a report: a hidden resources directory (part of the report as well)
                os.mkdir(os.path.join(d, ".html"))
                with open(os.path.join(d, ".html", "res"), "w") as f:
                    f.write(str(nxt))
                nxt += 1
            else:
                victim = os.path.join(top, "reports", "report-%d" % op[1])
                if os.path.islink(victim):
                    os.remove(victim)          # an archive that is a link (the report had been moved and linked back)
                else:
                    shutil.rmtree(victim, ignore_errors=True)
                facts.append({"foreign": dict(made), "foreign_now": foreign_state(top, made)})
            obs.append(observe(top))
    finally:
        shutil.rmtree(top, ignore_errors=True)
    return obs, facts


def xdev_history(nruns, limit, other_fs):
    """reports/ is a link to a directory on ANOTHER file system (another disk, a volume): a run either archives the previous
    report entirely (hidden entries included) or refuses to start and leaves everything where it is.  Returns None or (sig, text)."""
    from lemoncheesecake.reporting.reportdir import create_report_dir_with_rotation
    top = tempfile.mkdtemp(prefix="lccverif_c19x_")
    ext = tempfile.mkdtemp(prefix="lccverif_c19x_", dir=other_fs)
    try:
        os.symlink(ext, os.path.join(top, "reports"))
        prev = [None, []]
        for k in range(nruns):
            try:
                d = create_report_dir_with_rotation(top, limit)
            except OSError:
                now = observe(top)
                if now != prev:
                    return ("refused-run-changed-something", "run %d refused to start (reports/ on another file system) but changed the project: %s -> %s" % (k, prev, now))
                return None
            with open(os.path.join(d, "marker"), "w") as f:
                f.write(str(k))
            os.mkdir(os.path.join(d, ".html"))
            with open(os.path.join(d, ".html", "res"), "w") as f:
                f.write(str(k))
            now = observe(top)
            if prev[0] is not None and [1, prev[0]] not in now[1]:
                return ("previous-not-archive-1", "reports/ on another file system: after run %d the previous report is not (entirely) reports/report-1: %s" % (k, now))
            if any(m is None for _, m in now[1]):
                return ("archive-corrupt", "reports/ on another file system: an archive lost part of its content after run %d: %s" % (k, now))
            prev = now
        return None
    finally:
        shutil.rmtree(top, ignore_errors=True)
        shutil.rmtree(ext, ignore_errors=True)


def other_fs_dir():
    try:
        here = os.stat(tempfile.gettempdir()).st_dev
        for cand in ("/dev/shm", "/run/shm", "/var/tmp", "/tmp"):
            if os.path.isdir(cand) and os.access(cand, os.W_OK) and os.stat(cand).st_dev != here:
                return cand
    except OSError:
        pass
    return None


# ----------------------------------------------------------------------------- oracle (independent of the model)
def oracle(ops, obs, facts):
    """The property evaluated directly on what the implementation did. Returns (signature, text, step) or None."""
    prev = [None, []]
    nxt = 0
    for i, op in enumerate(ops):
        if i >= len(obs):
            break
        o = obs[i]
        if o and o[0] == "exception":
            return ("exception:" + o[1], "rotation raised %s: %s" % (o[1], o[2]), i)
        cur, arch = o
        pcur, parch = prev
        if facts[i].get("foreign") != facts[i].get("foreign_now"):
            return ("foreign-entry-touched", "an entry of reports/ that is not an archive slot was removed or changed: %s -> %s" % (
                facts[i].get("foreign"), facts[i].get("foreign_now")), i)
        if op[0] in ("foreign", "relink"):
            if cur != pcur or arch != parch:
                return ("foreign-entry-changed-archives", "creating %s changed the report or an archive" % op[1], i)
        elif op[0] == "drop":
            if cur is not None or arch != parch:
                return ("drop-not-exact", "removing report/ changed something else", i)
        elif op[0] == "delete":
            want = [a for a in parch if a[0] != op[1]]
            if cur != pcur or arch != want:
                return ("delete-not-exact", "deleting archive %d changed something else" % op[1], i)
        else:
            limit = op[1]
            if not facts[i].get("new_dir_empty", True):
                return ("new-dir-not-empty", "the new report directory is not empty", i)
            if cur != nxt:
                return ("new-dir-wrong", "report/ does not hold the new run", i)
            nxt += 1
            old_m = [m for _, m in parch]
            new_m = [m for _, m in arch]
            if None in new_m or len(set(new_m)) != len(new_m):
                return ("archive-corrupt", "an archive lost its content or is duplicated", i)
            if pcur is None:
                if arch != parch:
                    return ("archives-touched-without-report", "archives changed although there was no previous report", i)
            else:
                if not arch or arch[0] != [1, pcur]:
                    return ("previous-not-archive-1", "the previous report did not become reports/report-1", i)
                for m in new_m:
                    if m != pcur and m not in old_m:
                        return ("archive-from-nowhere", "unknown archive content appeared", i)
                surv = [m for m in old_m if m in new_m]
                if [m for m in new_m if m != pcur] != surv:
                    return ("order-changed", "the relative recency order of the archives changed", i)
                removed = [(k, m) for k, m in parch if m not in new_m]
                if removed:
                    if limit is None:
                        return ("removed-without-limit", "an archive was removed although no limit is configured", i)
                    keys = [k for k, _ in parch]
                    if any(k < limit for k, _ in removed):
                        return ("removed-within-limit", "archive number below the limit %d was removed" % limit, i)
                    if not all(j in keys for j in range(1, limit + 1)):
                        return ("removed-while-not-full", "an archive was removed although the limit %d was not reached" % limit, i)
                    kept_keys = [k for k, m in parch if m in new_m]
                    if kept_keys and max(kept_keys) > min(k for k, _ in removed):
                        return ("removed-not-oldest", "a more recent archive was removed while an older one was kept", i)
        prev = [cur, arch]
    return None


def shrink(ops, pred):
    """Greedy one-op-at-a-time minimisation of a failing history."""
    changed = True
    while changed:
        changed = False
        for i in range(len(ops)):
            cand = ops[:i] + ops[i + 1:]
            if cand and pred(cand):
                ops, changed = cand, True
                break
    return ops


# ----------------------------------------------------------------------------- Gallina
def c_op(op):
    return "Run %s" % c_opt(op[1], c_nat) if op[0] == "run" else "Drop" if op[0] == "drop" else "Delete %s" % c_nat(op[1])


def c_obs(o):
    return "Some (%s, %s)" % (c_opt(o[0], c_nat), c_list(o[1], lambda p: "(%d, %d)" % (p[0], p[1])))


HEADER = """From Coq Require Import List Arith Bool.
Import ListNotations.
From LCC Require Import Base.Util Model.ReportDir.
Definition obs_eqb : option obs -> option obs -> bool :=
  option_eqb (pair_eqb (option_eqb Nat.eqb) (list_eqb (pair_eqb Nat.eqb Nat.eqb))).
Definition agrees (c : list op * list (option obs)) : bool :=
  list_eqb obs_eqb (exec_trace (fst c) 0 init_state) (snd c).
"""


def cases_file(cases):
    # entries of reports/ that are not archive slots do not exist for the model: the ops that create them and the (unchanged)
    # observations after them are left out
    cases = [([op for op in ops if op[0] not in ("foreign", "relink")], [o for op, o in zip(ops, obs) if op[0] not in ("foreign", "relink")])
             for ops, obs in cases]
    body = ";\n  ".join("(%s,\n   %s)" % (c_list(ops, c_op), c_list(obs, c_obs)) for ops, obs in cases)
    return HEADER + "Definition cases : list (list op * list (option obs)) := [\n  %s\n].\n" % body + \
        "Eval vm_compute in (find_indexes (fun c => negb (agrees c)) cases).\n"


# ----------------------------------------------------------------------------- the check
def check(run):
    run.trusted += [
        "modelled, not verified: glob listing, os.rename, shutil.rmtree, os.mkdir on a POSIX file system "
        "(Model/ReportDir.v abstracts the directories reports/report-<k> as an association list k -> content marker)",
    ]
    run.assume += ["only `lcc run`, manual deletion of whole reports/report-<k> directories and removal of report/ itself touch the project directory",
                   "POSIX platform (the Windows branch and report_dir_with_archiving are not modelled)"]
    run.prove(extra_targets=["theories/Base/Util.vo", "theories/Model/ReportDir.vo"])
    n = 300 if run.tier == "quick" else 20000
    cases = []
    for i in range(n):
        ops = gen_history(run.rng, run.tier)
        via = run.rng.random() < 0.3
        obs, facts = run_history(ops, via)
        run.evaluations += 1
        run.count("ops", len(ops))
        run.count("runs", sum(1 for o in ops if o[0] == "run"))
        run.count("deletes", sum(1 for o in ops if o[0] == "delete"))
        run.count("foreign_entries", sum(1 for o in ops if o[0] == "foreign"))
        run.count("report_moved_and_linked_back", sum(1 for o in ops if o[0] == "relink"))
        run.count("report_removed_by_hand", sum(1 for o in ops if o[0] == "drop"))
        if any(ops[j][0] == "run" and j and obs[j - 1][0] is None and obs[j - 1][1] for j in range(1, min(len(ops), len(obs))) if obs[j - 1][0] != "exception"):
            run.count("runs_started_without_report_but_with_archives")
        if any(o[0] == "foreign" for o in ops):
            run.count("histories_with_foreign_entries")
        # non-trivial: some run actually removed an archive, or rotated over a hole
        removed = any(ops[j][0] == "run" and j > 0 and isinstance(obs[j - 1][1], list) and
                      len(obs[j][1]) <= len(obs[j - 1][1]) and obs[j - 1][0] is not None
                      for j in range(1, min(len(obs), len(ops))) if obs[j][0] != "exception")
        if removed:
            run.nontrivial.add(json.dumps(ops))
            run.count("histories_with_removal")
        hit = oracle(ops, obs, facts)
        if hit:
            small = shrink(ops, lambda c: (lambda o, f: (oracle(c, o, f) or [None])[0] == hit[0])(*run_history(c, via)))
            so, sf = run_history(small, via)
            run.violation("oracle:" + hit[0], hit[1], {"history": small, "observed": so, "via_project": via,
                                                       "failing_step": (oracle(small, so, sf) or [0, 0, None])[2]})
        if all(o[0] != "exception" for o in obs):
            cases.append((ops, obs))
        else:
            run.tie_broken("exec_trace = observed directory listings", case=ops, impl=obs,
                           detail="the implementation raised; the model never fails (C19_histories_total)")
        if i < 2:
            run.sample({"history": ops, "observed_after_each_op": obs})
    ofs = other_fs_dir()
    if ofs:
        for nruns, limit in [(3, 20), (4, 2), (3, None)]:
            run.evaluations += 1
            run.count("histories_with_reports_on_another_file_system")
            hit = xdev_history(nruns, limit, ofs)
            if hit:
                run.violation("oracle:xdev:" + hit[0], hit[1], {"xdev": True, "runs": nruns, "limit": limit, "other_fs": ofs})
    else:
        run.count("no_other_file_system_available")
    if getattr(run, "model_ok", False):
        shards = [cases[i:i + 400] for i in range(0, len(cases), 400)]
        outs = run.coq_eval_many([("s%d" % k, cases_file(sh)) for k, sh in enumerate(shards)])
        for k, (rc, out) in enumerate(outs):
            bad = lib.parse_nat_list(out) if rc == 0 else None
            if bad is None:
                run.tie_broken("case file did not evaluate", detail=out[-1500:])
                continue
            for idx in bad[:1]:
                ops, obs = shards[k][idx]
                small = ops if run.oracle_hits else shrink(ops[:12], lambda c: model_disagrees(run, c)) if model_disagrees(run, ops[:12]) else ops
                run.tie_broken("exec_trace = observed directory listings", case=small, impl=run_history(small)[0])
    run.coverage["rule"] = ("seeded random histories (4%: 22-26 runs without any limit) of run(limit)/delete(k)/drop (report/ removed by hand)/foreign(name) -- entries of reports/ named report-<k><suffix> (packed or renamed archives, files and directories) that are no archive slots --, limits in {none,0,1,2,3,4,10,11,12,20}, 20% of the histories fill every slot of one limit and purge several times; every history is "
                            "executed by the real create_report_dir_with_rotation (30% through Project.create_report_dir when "
                            "limit=20) on a scratch directory with marker files and by Model.ReportDir.exec_trace inside Coq; "
                            "non-trivial = a run that removed at least one archive")


def model_disagrees(run, ops):
    obs, _ = run_history(ops)
    rc, out = run.coq_eval("shrink", cases_file([(ops, obs)]))
    bad = lib.parse_nat_list(out) if rc == 0 else None
    return bool(bad)


def replay(path):
    r = json.load(open(path))
    rp = r.get("replay") or {}
    if rp.get("xdev"):
        hit = xdev_history(rp["runs"], rp["limit"], rp.get("other_fs") or other_fs_dir())
        print(json.dumps({"xdev": True, "oracle": hit}))
        return 1 if hit else 0
    ops = rp.get("history") or (r.get("broken") or [{}])[0].get("case")
    if not ops:
        print("nothing to replay in", path)
        return 2
    obs, facts = run_history(ops, rp.get("via_project", False))
    hit = oracle(ops, obs, facts)
    print(json.dumps({"history": ops, "observed": obs, "oracle": hit}, indent=1))
    return 1 if hit else 0
