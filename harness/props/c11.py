"""C11 — a failing reporting backend is never silent and never hangs the run.
Props/C11.v; Handler.v / HandlerP.v (handler thread, re-raise), SchedP.v (pending failure read by the dispatcher)."""
import copy

import engine
import projgen
import propcommon
import runoracle
import sim

PROFILE = {"max_tests": 4, "max_top": 1, "max_depth": 2, "max_fixtures": 4, "p_hook": 0.6, "p_fail": 0.25, "script_len": 3, "p_spawn": 0.0,
           "p_fixture_arg": 0.7, "p_inject": 0.4, "p_generator": 0.85, "raise_kinds": ["Exception", "AbortTest"]}


def partial_setup_project(rng, scope, must_raise=False):
    """A setup phase that fails part-way: the first fixture of the scope is set up (and logs), a later one raises.
    What was set up must still be torn down when the run is being stopped by a backend failure."""
    a, b, c = 3, 4, 5
    fx = [{"name": "f%d" % a, "scope": scope, "params": [], "per_thread": False, "generator": True,
           "setup": [["log", 1, 1]], "teardown": [["log", 1, 2]]},
          {"name": "f%d" % b, "scope": scope, "params": ["f%d" % a], "per_thread": False, "generator": True,
           "setup": [["log", 1, 3]] + ([["raise", rng.choice(["Exception", "AbortTest"])]] if (rng.random() < 0.7 or must_raise) else [["log", 3, 4]]),
           "teardown": [["log", 1, 5]]}]
    hooks = {"setup_suite": None, "teardown_suite": [["log", 1, 6]] if rng.random() < 0.5 else None, "setup_test": None, "teardown_test": None}
    tests = [{"name": "t%d" % (10 + i), "disabled": False, "rank": i, "deps": [], "args": ["f%d" % b] if i == 0 else [], "params": {},
              "body": [["log", 1, 20 + i]]} for i in range(rng.randint(1, 3))]
    suite = {"name": "s8", "disabled": False, "rank": 0, "hooks": hooks, "injected": [], "tests": tests, "subs": []}
    if rng.random() < 0.5:
        suite = {"name": "s7", "disabled": False, "rank": 0, "hooks": {}, "injected": [],
                 "tests": [{"name": "t9", "disabled": False, "rank": 0, "deps": [], "args": [], "params": {}, "body": [["log", 1, 30]]}],
                 "subs": [suite]}
    return {"fixtures": fx, "suites": [suite]}


def check(run):
    run.trusted += engine.TRUSTED + ["the unbounded event queue and the single handler thread are modelled in Model/Handler.v; the "
                                     "deterministic scheduler's Queue double stands for queue.Queue"]
    run.assume += engine.ASSUME + ['"visible" = the pending failure was recorded before the worker took the task']
    run.prove(extra_targets=engine.TARGETS + ["theories/Model/Handler.vo"])
    nproj = 16 if run.tier == "quick" else 150
    base = engine.gen_cases(run, nproj, profile=PROFILE, threads=(1, 2, 3), prefix="p")
    for i in range(6 if run.tier == "quick" else 40):
        # both scopes in turn; the first four always raise in the second fixture
        base.append({"id": "ps%d" % i, "project": partial_setup_project(run.rng, ["suite", "session"][i % 2], must_raise=i < 4), "sched": [],
                     "options": {"nb_threads": run.rng.choice([1, 2]), "stop_on_failure": False, "force_disabled": False}})
    # first run without fault to know how many events each project produces
    res0 = sim.run_cases(base)
    cases = []
    for c in base:
        r0 = res0.get(c["id"]) or {}
        nev = len(r0.get("events") or [])
        if not nev or (r0.get("outcome") or ["?"])[0] != "returned":
            # without a fault every generated project runs to its end and delivers events: otherwise nothing can be injected
            run.tie_broken("the run of a generated project without any fault returns and delivers events", case=c,
                           impl={"outcome": r0.get("outcome"), "events": nev}, detail=(r0.get("traceback") or "")[-1500:])
            continue
        ks = range(nev) if (run.tier == "quick" and nev <= 40) or run.tier == "thorough" else sorted(run.rng.sample(range(nev), 40))
        for k in ks:
            cls = run.rng.choice(["one", "one", "empty", "multi", "unicode", "picky"])
            c2 = copy.deepcopy(c)
            c2["id"] = "%s_k%d" % (c["id"], k)
            c2["fault"] = {"at": k, "cls": cls, "again": run.rng.random() < 0.5}
            c2["sched"] = projgen.gen_sched(run.rng)
            cases.append(c2)
            run.count("fault:" + cls)
    if len(cases) > (400 if run.tier == "quick" else 20000):
        cases = run.rng.sample(cases, 400 if run.tier == "quick" else 20000)

    def nontrivial(c, r):
        return any(a[1] == "flag" and a[2] == "pending" for a in (r.get("trace") or [])) and \
            any(a[1] == "take" for a in (r.get("trace") or []))
    # the backend failure stops the report writer too (same handler thread): the per-task model still applies to what the
    # tasks emit, the runs end with an exception: layers 1 and 2, plus layer 3 on runs that ended by the re-raise
    results = propcommon.run_cases(run, cases, runoracle.c11_oracle, nontrivial, layers=(1, 2))
    engine.check_l3(run, cases, results, only_returned=False)
    # real queues and real threads (no scheduler double), many events still to come when the backend fails early: the
    # producers must not stay blocked on the event queue, the run must end and raise
    nohooks = {"setup_suite": None, "teardown_suite": None, "setup_test": None, "teardown_test": None}
    chatty = []
    for k, (n, at, nlogs) in enumerate([(1, 0, 80), (2, 0, 80), (1, 4, 200), (3, 2, 120)]):
        tests = [{"name": "t%d" % (6 + j), "disabled": False, "rank": j, "deps": [], "args": [], "params": {},
                  "body": [["log", 1, 1000 + 10 * j + i] for i in range(nlogs)]} for j in range(3)]
        pd = {"fixtures": [], "suites": [{"name": "s5", "disabled": False, "rank": 0, "hooks": dict(nohooks), "injected": [],
                                          "tests": tests, "subs": []}]}
        chatty.append({"id": "chatty%d" % k, "project": pd, "mode": "free", "sched": [],
                       "options": {"nb_threads": n, "stop_on_failure": False, "force_disabled": False},
                       "fault": {"at": at, "cls": "one", "again": False}})
    cres = sim.run_cases(chatty)
    for c in chatty:
        r = cres.get(c["id"]) or {"outcome": ["hang", "no result"]}
        run.evaluations += 1
        run.count("free_runs_with_many_events_after_the_failure")
        oc = r.get("outcome") or ["?"]
        if oc[0] in ("hang", "sched_abort"):
            run.violation("run-hangs-after-backend-failure", "the run does not terminate after a backend raised at event %d with %d "
                          "events still to come (real queue, %d threads): %s" % (c["fault"]["at"], 3 * len(c["project"]["suites"][0]["tests"][0]["body"]),
                                                                                c["options"]["nb_threads"], str(oc[1])[:200]),
                          {"case": c, "outcome": oc})
        elif oc[0] != "raised":
            run.violation("backend-failure-silent", "a backend raised at event %d and the run ended with %s" % (c["fault"]["at"], oc[:2]),
                          {"case": c, "outcome": oc})
    run.coverage["rule"] = ("for each generated project a fault is injected at EVERY event index k of its run (quick: projects with at most "
                            "40 events, else 40 sampled indexes) — the recording backend raises an exception whose class takes one "
                            "argument / no message / three arguments / is UnicodeEncodeError — with 1..3 threads and random schedules; "
                            "non-trivial = the failure became pending while tasks were still to be taken")


replay = propcommon.make_replay(runoracle.c11_oracle)
