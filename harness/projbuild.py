"""Builds real lemoncheesecake objects (Suite, Test, Fixture, Project) from an abstract project description and
interprets *scripts* (lists of actions, DESIGN.md section 3) as real user code calling the public API.

Abstract description (JSON-able):
  project = {"fixtures": [fixture], "suites": [suite]}
  fixture = {"name": "f7", "scope": "test|suite|session|pre_run", "params": ["f3", "fixture_name"], "per_thread": bool,
             "generator": bool, "setup": script, "teardown": script}
  suite   = {"name": "s4", "disabled": bool, "rank": int,
             "hooks": {"setup_suite": {"args": [...], "script": script} | None, "teardown_suite": script | None,
                       "setup_test": script | None, "teardown_test": script | None},
             "injected": ["f9"], "tests": [test], "subs": [suite]}
  test    = {"name": "t5", "disabled": bool, "rank": int, "deps": ["s4.t3"], "args": ["f7", "p"], "params": {"p": 1},
             "body": script}
  action  = ["log", level 0..3, payload] | ["check", ok, payload] | ["url", payload] | ["attach", payload] |
            ["step", payload] | ["mark", id] | ["use", fixture] | ["spawn", script] | ["join"] | ["raise", kind]
  kind    = "Exception" | "AbortTest" | "AbortSuite" | "AbortAllTests" | "UserError" | "Base"
Names carry a numeric suffix which is the identifier used by the Coq model (Model/Proj.v)."""
import itertools

import lemoncheesecake.api as lcc
from lemoncheesecake.exceptions import AbortTest, AbortSuite, AbortAllTests, UserError
from lemoncheesecake.fixture import Fixture
from lemoncheesecake.project import Project
from lemoncheesecake.session import log_check
from lemoncheesecake.suite.core import Suite, Test, InjectedFixture

LEVELS = ["debug", "info", "warn", "error"]


class Recorder:
    """Where user code records what it sees. `yield_` / `record` are rebound to the deterministic controller when present."""

    def __init__(self):
        self.trace = []
        self.value_counter = itertools.count(1)
        self.thread_class = None        # lcc.Thread or the controller's CThread
        self.body_starts = {}
        self.suffix = ""                # appended to the message of every log (text that is hard to write to a file)

    def record(self, *atom):
        self.trace.append(("?",) + atom)

    def yield_(self, label):
        pass


class ProjectAbortTest(AbortTest):          # project-defined subclasses: an `except AbortSuite` / isinstance world, not exact classes
    pass


class ProjectAbortSuite(AbortSuite):
    pass


class ProjectAbortAllTests(AbortAllTests):
    pass


def _raise(kind, subclasses=False):
    if kind == "Exception":
        raise RuntimeError("boom")
    if kind == "AbortTest":
        raise (ProjectAbortTest if subclasses else AbortTest)("abort-test")
    if kind == "AbortSuite":
        raise (ProjectAbortSuite if subclasses else AbortSuite)("abort-suite")
    if kind == "AbortAllTests":
        raise (ProjectAbortAllTests if subclasses else AbortAllTests)("abort-all")
    if kind == "UserError":
        raise UserError("user-error")
    if kind == "Base":
        raise SystemExit(3)
    raise ValueError(kind)


def interp(rec, owner, script, env, thread_path=()):
    """Run a script. owner: string identifying the piece of user code (e.g. 'body:s1.t2'); env: fixture values visible."""
    tag = owner + ("" if not thread_path else "#" + ".".join(map(str, thread_path)))
    spawned = []
    nspawn = 0
    try:
        for a in script:
            op = a[0]
            if op == "log":
                getattr(lcc, ["log_debug", "log_info", "log_warning", "log_error"][a[1]])("%s|%d%s" % (tag, a[2], rec.suffix))
            elif op == "check":
                log_check("%s|%d" % (tag, a[2]), bool(a[1]), None)
            elif op == "url":
                lcc.log_url("http://x/%d" % a[1], "%s|%d" % (tag, a[1]))
            elif op == "attach":
                lcc.save_attachment_content("%s|%d" % (tag, a[1]), "att%d.txt" % a[1], "%s|%d" % (tag, a[1]))
            elif op == "attach_ctx":
                # API form outside the Coq model (oracle-only batches): user code runs INSIDE the prepare_attachment block
                with lcc.prepare_attachment("att%d.txt" % a[1], "%s|%d" % (tag, a[1])) as path:
                    with open(path, "w") as fh:
                        fh.write("%s|%d" % (tag, a[1]))
                    interp(rec, owner, a[2], env, thread_path)
            elif op == "step":
                lcc.set_step("%s|step%d" % (tag, a[1]))
            elif op == "mark":
                rec.yield_(("mark", a[1]))
                rec.record("mark", tag, a[1])
            elif op == "use":
                rec.record("use", tag, a[1], env.get(a[1], "<absent>"))
            elif op == "spawn":
                child = thread_path + (nspawn,)
                nspawn += 1
                # every user thread gets the SAME explicit name: names are not identities (the framework must key its per-thread
                # state by the thread, not by what the user called it)
                th = rec.thread_class(target=interp, args=(rec, owner, a[1], env, child), name="worker")
                spawned.append((th, child))
                rec.record("spawn", owner, list(child), getattr(th, "_cname", None))
                th.start()
            elif op == "join":
                _join(rec, owner, spawned)
                spawned = []
            elif op == "raise":
                rec.record("raise", tag, a[1])
                _raise(a[1], getattr(rec, "abort_subclasses", False))
            else:
                raise ValueError(op)
    finally:
        _join(rec, owner, spawned)


def _join(rec, owner, threads):
    for th, child in threads:
        if hasattr(th, "cjoin"):
            th.cjoin()
        th.join()
        rec.record("join", owner, list(child))


def make_func(argnames, impl, generator=False):
    """A function whose signature has exactly `argnames`, delegating to impl(**kwargs)."""
    ns = {"impl": impl}
    call = "impl(%s)" % ", ".join("%s=%s" % (a, a) for a in argnames)
    body = "yield from " + call if generator else "return " + call
    exec("def f(%s):\n    %s\n" % (", ".join(argnames), body), ns)
    return ns["f"]


def num(name):
    """Numeric identifier of a generated name ('t12' -> 12); reserved names first."""
    if name == "fixture_name":
        return 0
    if name == "cli_args":
        return 1
    if name == "project_dir":
        return 2
    digits = "".join(ch for ch in name if ch.isdigit())
    return int(digits)


def build_fixture(rec, fd):
    name = fd["name"]

    def new_value():
        return "%s@%d" % (name, next(rec.value_counter))

    if fd.get("generator"):
        def impl(**kw):
            rec.record("fx_setup_begin", name)
            interp(rec, "fxsetup:" + name, fd["setup"], kw)
            v = new_value()
            rec.record("fx_setup_end", name, v)
            yield v
            rec.record("fx_teardown_begin", name, v)
            interp(rec, "fxteardown:" + name, fd["teardown"], kw)
            rec.record("fx_teardown_end", name, v)
    else:
        def impl(**kw):
            rec.record("fx_setup_begin", name)
            interp(rec, "fxsetup:" + name, fd["setup"], kw)
            v = new_value()
            rec.record("fx_setup_end", name, v)
            return v
    # half of the fixtures with a teardown part are "delegating": the fixture function is not itself a generator function, it
    # RETURNS a generator (a helper, a decorated function ...): the framework must find that out from the value, at run time
    func = make_func(fd["params"], impl, generator=bool(fd.get("generator")) and num(name) % 2 == 1)
    func.__name__ = name
    return Fixture(name, func, fd["scope"], list(fd["params"]), bool(fd.get("per_thread")))


def build_suite(rec, sd, prefix=""):
    path = prefix + sd["name"]
    hooks = sd.get("hooks") or {}
    injected = sd.get("injected") or []
    # dir() lists attributes alphabetically: the attribute names are numbered so that the injected fixtures are
    # registered in the order of the abstract description
    inj_attr = {n: "inj_%03d" % k for k, n in enumerate(injected)}
    obj = type("Obj_" + sd["name"], (), {inj_attr[n]: InjectedFixture(n) for n in injected})() if injected else None
    suite = Suite(obj, sd["name"], "desc of " + sd["name"])
    suite.rank = sd.get("rank", 0)
    suite.disabled = bool(sd.get("disabled"))
    if hooks.get("setup_suite"):
        h = hooks["setup_suite"]

        def setup_suite_impl(_h=h, **kw):
            rec.record("hook_begin", "setup_suite", path)
            interp(rec, "setup_suite:" + path, _h["script"], kw)
            rec.record("hook_end", "setup_suite", path)
        suite.add_hook("setup_suite", make_func(h["args"], setup_suite_impl))
    if hooks.get("teardown_suite") is not None:
        def teardown_suite(_s=hooks["teardown_suite"]):
            rec.record("hook_begin", "teardown_suite", path)
            interp(rec, "teardown_suite:" + path, _s, {})
            rec.record("hook_end", "teardown_suite", path)
        suite.add_hook("teardown_suite", teardown_suite)
    if hooks.get("setup_test") is not None:
        def setup_test(test, _s=hooks["setup_test"]):
            rec.record("hook_begin", "setup_test", test.path)
            interp(rec, "setup_test:" + test.path, _s, {})
            rec.record("hook_end", "setup_test", test.path)
        suite.add_hook("setup_test", setup_test)
    if hooks.get("teardown_test") is not None:
        def teardown_test(test, status, _s=hooks["teardown_test"]):
            rec.record("hook_begin", "teardown_test", test.path, status)
            interp(rec, "teardown_test:" + test.path, _s, {})
            rec.record("hook_end", "teardown_test", test.path)
        suite.add_hook("teardown_test", teardown_test)
    for td in sd.get("tests", []):
        tpath = path + "." + td["name"]

        def body_impl(_td=td, _tpath=tpath, _obj=obj, **kw):
            rec.body_starts[_tpath] = rec.body_starts.get(_tpath, 0) + 1
            env = dict(kw)
            if _obj is not None:
                for n in injected:
                    env["inj:" + n] = getattr(_obj, inj_attr[n])
            rec.record("body_begin", _tpath)
            interp(rec, "body:" + _tpath, _td["body"], env)
            rec.record("body_end", _tpath)
        test = Test(td["name"], "desc of " + td["name"], make_func(td["args"], body_impl))
        test.rank = td.get("rank", 0)
        test.disabled = bool(td.get("disabled"))
        test.dependencies = [_as_dependency(rec, d, tpath) for d in td.get("deps", [])]
        test.parameters = dict(td.get("params", {}))
        suite.add_test(test)
    for sub in sd.get("subs", []):
        suite.add_suite(build_suite(rec, sub, path + "."))
    return suite


def _as_dependency(rec, dep, own):
    """A dependency on a test of the project being built is declared by its path or -- one time in three -- by a predicate that
    designates the same test (depends_on accepts both; the model only knows the designated test)."""
    import zlib
    known = getattr(rec, "known_test_paths", None)
    if not known or dep == own or dep not in known:
        return dep
    if zlib.crc32(("%s<-%s" % (dep, own)).encode()) % 3 == 0:
        rec.predicate_deps = getattr(rec, "predicate_deps", 0) + 1
        return lambda t, dep=dep: t.path == dep
    return dep


def _group_into_predicates(rec, suites):
    """Two consecutive path dependencies that designate two tests in project order are declared -- one time in three -- by ONE
    predicate true of both and of the depending test itself: it yields exactly these two, in project order
    (Model/DepsPred.v: pred_yields), so the path form the model works with is unchanged."""
    import zlib
    from lemoncheesecake.testtree import flatten_tests
    tests = list(flatten_tests(suites))
    order = [t.path for t in tests]
    known = getattr(rec, "known_test_paths", set())
    for t in tests:
        deps, out, i = list(t.dependencies), [], 0
        while i < len(deps):
            a = deps[i]
            b = deps[i + 1] if i + 1 < len(deps) else None
            if (isinstance(a, str) and isinstance(b, str) and a != b and a in known and b in known and t.path not in (a, b)
                    and order.index(a) < order.index(b) and zlib.crc32(("%s+%s<-%s" % (a, b, t.path)).encode()) % 3 == 0):
                out.append(lambda x, ext=frozenset((a, b, t.path)): x.path in ext)
                rec.predicate_deps_multi = getattr(rec, "predicate_deps_multi", 0) + 1
                i += 2
            else:
                out.append(a)
                i += 1
        t.dependencies = out


class GeneratedProject(Project):
    def __init__(self, project_dir, suites, fixtures):
        super().__init__(project_dir)
        self._suites, self._fixtures = suites, fixtures
        self.show_command_line_in_report = False

    def load_suites(self):
        return self._suites

    def load_fixtures(self):
        return self._fixtures


def build_project(rec, pd, project_dir):
    import projgen
    paths = projgen.all_test_paths(pd)
    rec.known_test_paths = set(p for p in paths if paths.count(p) == 1)
    fixtures = [build_fixture(rec, fd) for fd in pd.get("fixtures", [])]
    suites = [build_suite(rec, sd) for sd in pd.get("suites", [])]
    _group_into_predicates(rec, suites)
    return GeneratedProject(project_dir, suites, fixtures)
