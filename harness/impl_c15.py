"""Driver for C15 part B: runs a generated project with per-thread fixtures through the real runner on N threads.
stdin: JSON spec {nb_threads, fixtures:[{name,scope,generator}], suites:[{name,tests:[{name,uses}]}], td_raise, barrier?}
  td_raise: which teardown parts (code after the yield) of a generator fixture raise: a list of fixture names (= mode "first")
  or {fixture: mode}; mode "first" = the first teardown of that fixture that is executed, "all" = every one, "odd" = every
  second one (the 2nd, 4th, ...), "second" = the second one only.  The exception text names the value.
stdout (last line): JSON {"events": [...], "report_failures": [...], "error_logs": [every error log message of the report]}"""
import json
import os
import shutil
import sys
import tempfile
import threading
import time

REPO = os.environ.get("VERIF_REPO", "/repo")
sys.path.insert(0, os.path.join(REPO, "tests"))


def names_arg(f):
    # a fixture declared under two names: every name is a per-thread fixture of its own; the tests use the second one
    return "names=[%r, %r], " % ("first_" + f["name"], f["name"]) if f.get("aliased") else ""


def build_source(spec):
    out = ["import threading, time", "import lemoncheesecake.api as lcc", ""]
    for f in spec["fixtures"]:
        delegating = f["generator"] and f.get("form") == "delegating"
        if delegating:
            # the fixture function is not a generator function itself: it RETURNS the generator of a helper
            out.append("def _gen_%s():" % f["name"])
        else:
            out.append("@lcc.fixture(%sscope=%r, per_thread=True)" % (names_arg(f), f["scope"]))
            out.append("def %s():" % f["name"])
        out.append("    v = Val()")
        out.append("    KEEP.append(v)")
        out.append("    EV.append(['setup', %r, TH(), id(v)])" % f["name"])
        if f["generator"]:
            out.append("    yield v")
            out.append("    EV.append(['teardown', %r, TH(), id(v)])" % f["name"])
            if f["name"] in spec.get("td_raise", []):
                out.append("    if TD_RAISES(%r):" % f["name"])
                out.append("        EV.append(['teardown_raise', %r, TH(), id(v)])" % f["name"])
                out.append("        raise Exception('teardown of %s fails for value <%%d>' %% id(v))" % f["name"])
        else:
            out.append("    return v")
        out.append("")
        if delegating:
            out.append("@lcc.fixture(%sscope=%r, per_thread=True)" % (names_arg(f), f["scope"]))
            out.append("def %s():" % f["name"])
            out.append("    return _gen_%s()" % f["name"])
            out.append("")
    for f in spec["fixtures"]:
        if f.get("via"):
            # a test-scoped fixture built on the per-thread one: it must receive the instance of the thread that runs the test
            out.append("@lcc.fixture(scope='test')")
            out.append("def via_%s(%s):" % (f["name"], f["name"]))
            out.append("    return %s" % f["name"])
            out.append("")
    for s in spec["suites"]:
        out.append("@lcc.suite(%r)" % s["name"])
        out.append("class %s:" % s["name"])
        for t in s["tests"]:
            out.append("    @lcc.test(%r)" % t["name"])
            out.append("    def %s(self%s):" % (t["name"], "".join(", " + u for u in t["uses"])))
            out.append("        WAVE()")
            for u in t["uses"]:
                base = u[4:] if u.startswith("via_") else u       # seen through a test-scoped fixture: same instance expected
                key = "session" if [f for f in spec["fixtures"] if f["name"] == base][0]["scope"] == "session" else s["name"]
                out.append("        EV.append(['use', %r, %r, TH(), id(%s), %r])" % (base, key, u, t["name"]))
            out.append("        time.sleep(0.002)")
        out.append("")
    return "\n".join(out)


def main():
    spec = json.loads(sys.stdin.read())
    import helpers.runner as hr
    hr.dump_report = lambda r: None
    events = []
    keep = []
    idents = {}
    lock = threading.Lock()

    def th():
        i = threading.get_ident()
        with lock:
            return idents.setdefault(i, len(idents))

    barrier = threading.Barrier(spec.get("barrier") or min(spec["nb_threads"], sum(len(s["tests"]) for s in spec["suites"])), timeout=1.0)

    def wave():
        try:
            barrier.wait()
        except threading.BrokenBarrierError:
            pass
    td_raise = spec.get("td_raise") or {}
    modes = td_raise if isinstance(td_raise, dict) else {name: "first" for name in td_raise}
    td_count = {}

    def td_raises(name):
        with lock:
            k = td_count.get(name, 0)
            td_count[name] = k + 1
        mode = modes.get(name)
        return {"first": k == 0, "all": True, "odd": k % 2 == 1, "second": k == 1}.get(mode, False)

    class Val(object):
        pass
    ns = {"EV": events, "KEEP": keep, "TH": th, "Val": Val, "WAVE": wave, "TD_RAISES": td_raises}
    exec(compile(build_source(spec), "<c15 project>", "exec"), ns)
    classes = [ns[s["name"]] for s in spec["suites"]]
    fixtures = [ns[f["name"]] for f in spec["fixtures"]] + [ns["via_" + f["name"]] for f in spec["fixtures"] if f.get("via")]
    tmp = tempfile.mkdtemp(prefix="lccverif_c15_")
    watchdog = threading.Timer(50, lambda: os._exit(3))
    watchdog.daemon = True
    watchdog.start()
    try:
        report = hr.run_suite_classes(classes, fixtures=fixtures, tmpdir=tmp, nb_threads=spec["nb_threads"])
    finally:
        shutil.rmtree(tmp, ignore_errors=True)
    failures = []
    for suite in report.get_suites():
        for test in suite.get_tests():
            if test.status != "passed":
                failures.append([test.name, test.status])
    error_logs = []
    for step in report.all_steps():
        for log in step.get_logs():
            if getattr(log, "level", None) == "error":
                error_logs.append(log.message)
    print(json.dumps({"events": events, "report_failures": failures, "error_logs": error_logs}))


main()
