"""Shared generator of report descriptions (C18 replay, C20 views).

A *description* is a plain JSON-able value (lists/dicts/str/int/bool/None only; times are int milliseconds or None):

  report = {"title": str, "info": [[k,v],...], "start": ms|None, "end": ms|None, "saving": ms|None, "nb_threads": int,
            "setup": result|None, "teardown": result|None, "suites": [suite,...]}
  suite  = {"name": str, "description": str, "tags": [str], "properties": [[k,v],...], "links": [[url, name|None],...],
            "start": ms|None, "end": ms|None, "setup": result|None, "teardown": result|None,
            "tests": [test,...], "suites": [suite,...]}
  test   = {"name","description","tags","properties","links", "result": result}
  result = {"start": ms|None, "end": ms|None, "status": str|None, "status_details": str|None, "steps": [step,...]}
  step   = {"description": str, "start": ms|None, "end": ms|None, "logs": [log,...]}
  log    = ["log", level, message, time] | ["check", description, is_successful, details|None, time]
         | ["attachment", description, filename, as_image, time] | ["url", description, url, time]

Functions: gen_report, build_report, describe_report, c_report (+ c_suite, c_test, c_result, c_step, c_log, c_meta), all_tests.
The Gallina printers target coq/theories/Model/Report.v.  Deterministic given the random.Random passed in.
Self-test: `PYTHONPATH=/repo /venv/bin/python harness/gen_reports_views.py [--coq]`.
"""
import os
import sys

sys.path.insert(0, os.path.dirname(os.path.abspath(__file__)))
from lib import c_str, c_Z, c_opt, c_list, c_bool  # noqa: E402

BASE_MS = 1600000000000
STATUSES = ("passed", "failed", "skipped", "disabled")
LEVELS = ("debug", "info", "warn", "error")
OK_LEVELS = ("debug", "info", "warn")

_WORDS = ["alpha", "beta", "gamma", "delta", "login", "logout", "cart", "order", "user", "admin", "api", "db", "net",
          "cache", "auth", "pay", "ship", "mail", "push", "sync", "load", "save", "open", "close", "x", "y1", "z_2"]
_ODD = ["été", "über", "日本", "\U0001F34B", "naïve", "λ", "\U00010348x"]
_TEXT = ["", "ok", "value is 42", "expected 'a' got 'b'", "<tag> & \"quotes\"", "café ✓", "line one, line two",
         "\U0001F34B cake", "100%", "{braces}", "a.b.c", "  padded  ", "something went wrong", "status code 500",
         "日本語"]


# ------------------------------------------------------------------------------------------------ generation
class _Clock:
    def __init__(self, rng):
        self.rng = rng
        self.t = BASE_MS + rng.randint(1, 10 ** 6)

    def tick(self):
        self.t += self.rng.choice([1, 1, 2, 7, 50, 333, 1000, 4321, 60000])
        return self.t


def _ident(rng):
    w = rng.choice(_WORDS)
    r = rng.random()
    if r < 0.12:
        w += "_" + rng.choice(_ODD)
    elif r < 0.5:
        w += "_%d" % rng.randint(0, 99)
    return w


def _fresh(rng, used):
    for _ in range(1000):
        w = _ident(rng)
        if w not in used:
            used.add(w)
            return w
    w = "n%d" % len(used)
    used.add(w)
    return w


def _text(rng):
    r = rng.random()
    if r < 0.75:
        return rng.choice(_TEXT)
    return rng.choice(_TEXT) + " " + rng.choice(_WORDS) + rng.choice(_ODD)


def _meta(rng, name):
    props, used = [], set()
    for _ in range(rng.choice([0, 0, 0, 1, 2])):
        props.append([_fresh(rng, used), _text(rng)])
    links = []
    for _ in range(rng.choice([0, 0, 0, 1, 2])):
        links.append(["http://example.com/" + _ident(rng), rng.choice([None, _text(rng)])])
    tags = [_ident(rng) for _ in range(rng.choice([0, 0, 1, 2]))]
    return {"name": name, "description": _text(rng) if rng.random() < 0.8 else name, "tags": tags,
            "properties": props, "links": links}


def _ok_log(rng, clock):
    r = rng.random()
    if r < 0.4:
        return ["log", rng.choice(OK_LEVELS), _text(rng), clock.tick()]
    if r < 0.75:
        return ["check", _text(rng), True, rng.choice([None, _text(rng)]), clock.tick()]
    if r < 0.9:
        return ["attachment", _text(rng), "attachments/" + _ident(rng) + ".txt", rng.random() < 0.3, clock.tick()]
    url = "http://example.com/" + _ident(rng)
    # lcc.log_url(url) without a description records the url itself as description
    return ["url", url if rng.random() < 0.3 else _text(rng), url, clock.tick()]


def _bad_log(rng, clock, mode):
    """mode: 'error' | 'check' | 'both' (caller alternates)"""
    if mode == "error":
        return ["log", "error", _text(rng), clock.tick()]
    return ["check", _text(rng), False, rng.choice([None, _text(rng)]), clock.tick()]


def _steps(rng, clock, failing, fail_mode, open_steps=0):
    """Steps of a started result.  failing: put at least one unsuccessful log, of the kind(s) given by fail_mode.
    open_steps: number of trailing steps left without end time (in-progress results only)."""
    n = rng.choice([0, 1, 1, 2, 2, 3, 4]) if not failing else rng.choice([1, 1, 2, 3, 4])
    n = max(n, open_steps)
    steps = []
    # which steps are left open: the trailing ones, or -- a snapshot taken while several lcc.Thread workers of one test are at
    # work, each in a step of its own -- any of them (an open step may be followed by steps that have ended)
    open_at = set(range(n - open_steps, n))
    if open_steps and rng.random() < 0.5:
        open_at = set(rng.sample(range(n), open_steps))
    for i in range(n):
        if steps and rng.random() < 0.25 and steps[-1]["end"] is not None:
            # a step from another thread: starts while the previous one is still running
            start = rng.randint(steps[-1]["start"], steps[-1]["end"])
        else:
            start = clock.tick()
        logs = [_ok_log(rng, clock) for _ in range(rng.choice([0, 1, 1, 2, 3]))]
        text = _text(rng) or "step"
        if steps and rng.random() < 0.3:
            # the step a thread started by the test opens bears the description of its creator's current step
            text = steps[-1]["description"]
        steps.append({"description": text, "start": start, "end": None, "logs": logs})
        if i not in open_at:
            steps[-1]["end"] = clock.tick()
            if not failing and rng.random() < 0.12:
                # began and ended within the same millisecond (saved reports round to the millisecond): finished, zero duration
                steps[-1]["end"] = start
                for l in logs:
                    l[-1] = start
    if failing:
        kinds = {"error": ["error"], "check": ["check"], "both": ["error", "check"]}[fail_mode]
        for kind in kinds:
            st = rng.choice(steps)
            st["logs"].insert(rng.randint(0, len(st["logs"])), _bad_log(rng, clock, kind))
        for _ in range(rng.choice([0, 0, 1, 2])):
            st = rng.choice(steps)
            st["logs"].insert(rng.randint(0, len(st["logs"])), _bad_log(rng, clock, rng.choice(kinds)))
        # keep log times non-decreasing inside each step and below the step end
        for st in steps:
            times = sorted(l[-1] for l in st["logs"])
            for l, t in zip(st["logs"], times):
                l[-1] = t
            if st["end"] is not None and times and times[-1] > st["end"]:
                st["end"] = times[-1]
    return steps


def _finished_result(rng, clock, status):
    """status in passed/failed: a complete result whose status agrees with its logs."""
    start = clock.tick()
    failing = status == "failed"
    steps = _steps(rng, clock, failing, rng.choice(["error", "check", "both"]))
    end = max([clock.tick()] + [s["end"] for s in steps])
    return {"start": start, "end": end, "status": status, "status_details": None, "steps": steps}


def _not_run_result(rng, clock, status):
    """skipped / disabled test: start == end, no step."""
    t = clock.tick()
    details = rng.choice([None, None, "", _text(rng), "Test is disabled", "because setup failed"])
    return {"start": t, "end": t, "status": status, "status_details": details, "steps": []}


def _in_progress_result(rng, clock, with_error=None):
    """status None, end None; with_error: None (random) | False | True | "error" (an error-level Log for sure)."""
    start = clock.tick()
    if with_error is None:
        with_error = rng.random() < 0.4
    open_steps = rng.choice([0, 1, 1, 1, 2, 3])
    if with_error == "error":
        steps = _steps(rng, clock, True, rng.choice(["error", "both"]), max(1, open_steps))
    else:
        steps = _steps(rng, clock, bool(with_error), rng.choice(["error", "error", "check", "both"]), open_steps)
    return {"start": start, "end": None, "status": None, "status_details": None, "steps": steps}


def _phase_result(rng, clock, unfinished):
    """setup / teardown result"""
    if unfinished and rng.random() < 0.2:
        return _in_progress_result(rng, clock)
    return _finished_result(rng, clock, "failed" if rng.random() < 0.25 else "passed")


def _test(rng, clock, used, unfinished):
    t = _meta(rng, _fresh(rng, used))
    r = rng.random()
    if unfinished and r < 0.22:
        t["result"] = _in_progress_result(rng, clock)
    else:
        status = rng.choice(STATUSES)
        t["result"] = _finished_result(rng, clock, status) if status in ("passed", "failed") \
            else _not_run_result(rng, clock, status)
    return t


_SIZES = {
    "small": dict(top=(1, 2), tests=(0, 3), subs=(0, 1), depth=2),
    "medium": dict(top=(1, 3), tests=(0, 6), subs=(0, 2), depth=3),
    "large": dict(top=(2, 5), tests=(0, 12), subs=(0, 3), depth=3),
}


def _suite(rng, clock, cfg, used, depth, unfinished):
    s = _meta(rng, _fresh(rng, used))
    s["start"] = clock.tick()
    shape = rng.random()
    has_tests = shape >= 0.2          # 10% empty suites, 10% suites with only setup and/or teardown
    only_phases = 0.1 <= shape < 0.2
    s["setup"] = _phase_result(rng, clock, unfinished) if (only_phases or (has_tests and rng.random() < 0.3)) else None
    tused = set()
    s["tests"] = [_test(rng, clock, tused, unfinished) for _ in range(rng.randint(*cfg["tests"]))] if has_tests else []
    sused = set()
    s["suites"] = []
    if depth < cfg["depth"] and shape >= 0.1:
        for _ in range(rng.randint(*cfg["subs"])):
            s["suites"].append(_suite(rng, clock, cfg, sused, depth + 1, unfinished))
    s["teardown"] = _phase_result(rng, clock, unfinished) if ((only_phases and rng.random() < 0.6) or
                                                              (has_tests and rng.random() < 0.3)) else None
    s["end"] = clock.tick()
    if unfinished and (rng.random() < 0.4 or _suite_has_open(s)):
        s["end"] = None
    return s


def _result_open(r):
    return r is not None and r["status"] is None


def _suite_has_open(s):
    return _result_open(s["setup"]) or _result_open(s["teardown"]) or any(_result_open(t["result"]) for t in s["tests"]) \
        or any(x["end"] is None for x in s["suites"])


def _walk_suites(suites):
    for s in suites:
        yield s
        yield from _walk_suites(s["suites"])


def _results_of(desc):
    """Every result description of the report, in all_results order."""
    if desc["setup"] is not None:
        yield desc["setup"]
    for s in _walk_suites(desc["suites"]):
        if s["setup"] is not None:
            yield s["setup"]
        for t in s["tests"]:
            yield t["result"]
        if s["teardown"] is not None:
            yield s["teardown"]
    if desc["teardown"] is not None:
        yield desc["teardown"]


def gen_report(rng, size="small", unfinished=False, wild=False):
    cfg = _SIZES[size]
    clock = _Clock(rng)
    desc = {"title": rng.choice(["Test Report", "My report", "Résultats \U0001F34B", ""]),
            "info": [[_ident(rng), _text(rng)] for _ in range(rng.choice([0, 1, 2, 3]))],
            "start": clock.tick(), "end": None, "saving": None, "nb_threads": rng.choice([1, 1, 1, 2, 3, 4]),
            "setup": None, "teardown": None, "suites": []}
    if rng.random() < 0.3:
        desc["setup"] = _phase_result(rng, clock, unfinished)
    used = set()
    for _ in range(rng.randint(*cfg["top"])):
        desc["suites"].append(_suite(rng, clock, cfg, used, 1, unfinished))
    if not unfinished:
        if rng.random() < 0.3:
            desc["teardown"] = _finished_result(rng, clock, "failed" if rng.random() < 0.25 else "passed")
        desc["end"] = clock.tick()
    else:
        # F12 shape: at least one in-progress test holding an error-level log
        tests = [(s, i) for s in _walk_suites(desc["suites"]) for i in range(len(s["tests"]))]
        if not tests:
            s = desc["suites"][0]
            s["tests"].append(dict(_meta(rng, "t_open"), result=_in_progress_result(rng, clock, with_error="error")))
            tests = [(s, len(s["tests"]) - 1)]
        if not any(_result_open(s["tests"][i]["result"]) and
                   any(l[0] == "log" and l[1] == "error" for st in s["tests"][i]["result"]["steps"] for l in st["logs"])
                   for s, i in tests):
            s, i = rng.choice(tests)
            s["tests"][i]["result"] = _in_progress_result(rng, clock, with_error="error")
        # suites containing something open cannot be ended
        changed = True
        while changed:
            changed = False
            for s in _walk_suites(desc["suites"]):
                if s["end"] is not None and _suite_has_open(s):
                    s["end"] = None
                    changed = True
    if rng.random() < 0.5:
        desc["saving"] = clock.tick()
    if wild:
        _make_wild(rng, desc)
    return desc


def _make_wild(rng, desc):
    """Arbitrary inconsistencies (C20 only): the views must still agree on them, or fail in the modelled way."""
    results = list(_results_of(desc))
    for r in results:
        x = rng.random()
        if x < 0.15:
            r["status"] = rng.choice(STATUSES + (None,))          # status unrelated to the logs
        elif x < 0.22:
            r["start"] = None
        elif x < 0.30:
            r["end"] = None if r["end"] is not None else (r["start"] or BASE_MS) + rng.randint(0, 5000)
        elif x < 0.35:
            r["status_details"] = rng.choice(["", "details", None])
        elif x < 0.40 and r["steps"]:
            st = rng.choice(r["steps"])
            st[rng.choice(["start", "end"])] = None
        elif x < 0.44:
            r["start"], r["end"] = r["end"], r["start"]           # negative duration
    for s in _walk_suites(desc["suites"]):
        x = rng.random()
        if x < 0.1:
            s["start"] = None
        elif x < 0.2:
            s["end"] = None
    x = rng.random()
    if x < 0.15:
        desc["start"] = None
    elif x < 0.3:
        desc["end"] = None
    elif x < 0.4 and desc["start"] is not None:
        desc["end"] = desc["start"]                               # zero duration
    elif x < 0.45 and desc["start"] is not None and desc["end"] is not None:
        desc["start"], desc["end"] = desc["end"], desc["start"]


# ------------------------------------------------------------------------------------------------ real objects
def _sec(ms):
    return None if ms is None else ms / 1000.0


def _ms(t):
    return None if t is None else int(round(t * 1000))


def _build_log(l):
    from lemoncheesecake.reporting.report import Log, Check, Attachment, Url
    if l[0] == "log":
        return Log(l[1], l[2], _sec(l[3]))
    if l[0] == "check":
        return Check(l[1], l[2], l[3], _sec(l[4]))
    if l[0] == "attachment":
        return Attachment(l[1], l[2], l[3], _sec(l[4]))
    if l[0] == "url":
        return Url(l[1], l[2], _sec(l[3]))
    raise ValueError(l)


def _fill_result(res, d):
    from lemoncheesecake.reporting.report import Step
    res.start_time, res.end_time = _sec(d["start"]), _sec(d["end"])
    res.status, res.status_details = d["status"], d["status_details"]
    for sd in d["steps"]:
        st = Step(sd["description"])
        st.start_time, st.end_time = _sec(sd["start"]), _sec(sd["end"])
        for l in sd["logs"]:
            st.add_log(_build_log(l))
        res.add_step(st)
    return res


def _build_result(d):
    from lemoncheesecake.reporting.report import Result
    return None if d is None else _fill_result(Result(), d)


def _fill_meta(node, d):
    node.tags.extend(d["tags"])
    node.properties.update({k: v for k, v in d["properties"]})
    node.links.extend((u, n) for u, n in d["links"])


def _build_suite(d):
    from lemoncheesecake.reporting.report import SuiteResult, TestResult
    s = SuiteResult(d["name"], d["description"])
    _fill_meta(s, d)
    s.start_time, s.end_time = _sec(d["start"]), _sec(d["end"])
    if d["setup"] is not None:
        s.suite_setup = _build_result(d["setup"])
    if d["teardown"] is not None:
        s.suite_teardown = _build_result(d["teardown"])
    for td in d["tests"]:
        t = TestResult(td["name"], td["description"])
        _fill_meta(t, td)
        _fill_result(t, td["result"])
        s.add_test(t)
    for sd in d["suites"]:
        s.add_suite(_build_suite(sd))
    return s


def build_report(desc):
    from lemoncheesecake.reporting.report import Report
    r = Report()
    r.title = desc["title"]
    for k, v in desc["info"]:
        r.add_info(k, v)
    r.start_time, r.end_time, r.saving_time = _sec(desc["start"]), _sec(desc["end"]), _sec(desc["saving"])
    r.nb_threads = desc["nb_threads"]
    if desc["setup"] is not None:
        r.test_session_setup = _build_result(desc["setup"])
    if desc["teardown"] is not None:
        r.test_session_teardown = _build_result(desc["teardown"])
    for sd in desc["suites"]:
        r.add_suite(_build_suite(sd))
    return r


def _describe_log(l):
    from lemoncheesecake.reporting.report import Log, Check, Attachment, Url
    if isinstance(l, Log):
        return ["log", l.level, l.message, _ms(l.time)]
    if isinstance(l, Check):
        return ["check", l.description, l.is_successful, l.details, _ms(l.time)]
    if isinstance(l, Attachment):
        return ["attachment", l.description, l.filename, l.as_image, _ms(l.time)]
    if isinstance(l, Url):
        return ["url", l.description, l.url, _ms(l.time)]
    raise ValueError(l)


def _describe_result(r):
    if r is None:
        return None
    return {"start": _ms(r.start_time), "end": _ms(r.end_time), "status": r.status, "status_details": r.status_details,
            "steps": [{"description": s.description, "start": _ms(s.start_time), "end": _ms(s.end_time),
                       "logs": [_describe_log(l) for l in s.get_logs()]} for s in r.get_steps()]}


def _describe_meta(n):
    return {"name": n.name, "description": n.description, "tags": list(n.tags),
            "properties": [[k, v] for k, v in n.properties.items()], "links": [[u, d] for u, d in n.links]}


def _describe_suite(s):
    d = _describe_meta(s)
    d.update({"start": _ms(s.start_time), "end": _ms(s.end_time),
              "setup": _describe_result(s.suite_setup), "teardown": _describe_result(s.suite_teardown),
              "tests": [dict(_describe_meta(t), result=_describe_result(t)) for t in s.get_tests()],
              "suites": [_describe_suite(x) for x in s.get_suites()]})
    return d


def describe_report(report):
    return {"title": report.title, "info": [[k, v] for k, v in report.info],
            "start": _ms(report.start_time), "end": _ms(report.end_time), "saving": _ms(report.saving_time),
            "nb_threads": report.nb_threads,
            "setup": _describe_result(report.test_session_setup), "teardown": _describe_result(report.test_session_teardown),
            "suites": [_describe_suite(s) for s in report.get_suites()]}


def all_tests(desc):
    """[(path tuple of names, test description)] in Report.all_tests() order."""
    out = []

    def rec(suites, prefix):
        for s in suites:
            p = prefix + (s["name"],)
            for t in s["tests"]:
                out.append((p + (t["name"],), t))
            rec(s["suites"], p)
    rec(desc["suites"], ())
    return out


# ------------------------------------------------------------------------------------------------ Gallina printers
def c_log(l):
    if l[0] == "log":
        return "LLog %s %s %s" % (c_str(l[1]), c_str(l[2]), c_Z(l[3]))
    if l[0] == "check":
        return "LCheck %s %s %s %s" % (c_str(l[1]), c_bool(l[2]), c_opt(l[3], c_str), c_Z(l[4]))
    if l[0] == "attachment":
        return "LAttachment %s %s %s %s" % (c_str(l[1]), c_str(l[2]), c_bool(l[3]), c_Z(l[4]))
    if l[0] == "url":
        return "LUrl %s %s %s" % (c_str(l[1]), c_str(l[2]), c_Z(l[3]))
    raise ValueError(l)


def c_step(s):
    return "mkStep %s %s %s %s" % (c_str(s["description"]), c_opt(s["start"], c_Z), c_opt(s["end"], c_Z),
                                   c_list(s["logs"], c_log))


def c_result(r):
    return "mkResult %s %s %s %s %s" % (c_opt(r["start"], c_Z), c_opt(r["end"], c_Z), c_opt(r["status"], c_str),
                                        c_opt(r["status_details"], c_str), c_list(r["steps"], c_step))


def _c_par(f):
    return lambda x: "(%s)" % f(x)


def c_meta(m):
    return "mkMeta %s %s %s %s %s" % (
        c_str(m["name"]), c_str(m["description"]), c_list(m["tags"], c_str),
        c_list(m["properties"], lambda p: "(%s, %s)" % (c_str(p[0]), c_str(p[1]))),
        c_list(m["links"], lambda p: "(%s, %s)" % (c_str(p[0]), c_opt(p[1], c_str))))


def c_test(t):
    return "mkTest (%s) (%s)" % (c_meta(t), c_result(t["result"]))


def c_suite(s):
    return "SuiteResult (%s) %s %s %s %s\n  %s\n  %s" % (
        c_meta(s), c_opt(s["start"], c_Z), c_opt(s["end"], c_Z),
        c_opt(s["setup"], _c_par(c_result)), c_opt(s["teardown"], _c_par(c_result)),
        c_list(s["tests"], c_test), c_list(s["suites"], c_suite))


def c_report(d):
    return "mkReport %s %s %s %s %s %s %s %s\n %s" % (
        c_str(d["title"]), c_list(d["info"], lambda p: "(%s, %s)" % (c_str(p[0]), c_str(p[1]))),
        c_opt(d["start"], c_Z), c_opt(d["end"], c_Z), c_opt(d["saving"], c_Z), c_Z(d["nb_threads"]),
        c_opt(d["setup"], _c_par(c_result)), c_opt(d["teardown"], _c_par(c_result)),
        c_list(d["suites"], c_suite))


# ------------------------------------------------------------------------------------------------ self-test
def check_writer_producible(desc, unfinished):
    """Assertions of the documented default (wild=False) shape."""
    assert desc["start"] is not None and desc["start"] > 0
    assert (desc["end"] is None) == unfinished
    if unfinished:
        assert desc["teardown"] is None
    kinds = []

    def chk_result(r, is_test):
        assert r["status"] in STATUSES + (None,)
        has_err = any((l[0] == "log" and l[1] == "error") or (l[0] == "check" and not l[2])
                      for s in r["steps"] for l in s["logs"])
        for s in r["steps"]:
            assert s["start"] is not None and s["start"] > 0
            for l in s["logs"]:
                assert l[-1] > 0
                if l[0] == "log":
                    assert l[1] in LEVELS
        if r["status"] in ("passed", "failed"):
            assert r["start"] and r["end"] and r["status_details"] is None
            assert (r["status"] == "failed") == has_err
            assert all(s["end"] is not None for s in r["steps"])
        elif r["status"] in ("skipped", "disabled"):
            assert is_test and r["start"] == r["end"] and r["start"] and r["steps"] == []
        else:
            assert unfinished and r["end"] is None and r["status_details"] is None and r["start"]
            kinds.append("open_err" if has_err else "open")
        if r["status"] is not None:
            assert all(s["end"] is not None for s in r["steps"])

    def chk_suites(suites):
        assert len({s["name"] for s in suites}) == len(suites)
        for s in suites:
            assert s["start"] and (s["end"] or unfinished)
            assert len({t["name"] for t in s["tests"]}) == len(s["tests"])
            for n in [s] + s["tests"]:
                assert len({k for k, _ in n["properties"]}) == len(n["properties"])
            for r in (s["setup"], s["teardown"]):
                if r is not None:
                    assert r["status"] in ("passed", "failed", None)
                    chk_result(r, False)
            for t in s["tests"]:
                chk_result(t["result"], True)
            chk_suites(s["suites"])
    for r in (desc["setup"], desc["teardown"]):
        if r is not None:
            chk_result(r, False)
    chk_suites(desc["suites"])
    if unfinished:
        assert "open_err" in kinds
    return kinds


def _selftest(coq):
    import json
    import random
    import subprocess
    stats = {"reports": 0, "tests": 0, "statuses": {}}
    coq_terms = []
    for seed in range(400):
        rng = random.Random(seed)
        size = ["small", "medium", "large"][seed % 3]
        unfinished = seed % 4 == 1
        wild = seed % 5 == 2
        d = gen_report(rng, size, unfinished=unfinished, wild=wild)
        d2 = gen_report(random.Random(seed), size, unfinished=unfinished, wild=wild)
        assert d == d2, "not deterministic"
        assert json.loads(json.dumps(d)) == d, "not JSON-able"
        if not wild:
            check_writer_producible(d, unfinished)
        rep = build_report(d)
        back = describe_report(rep)
        assert back == d, (seed, back, d)
        real = [(tuple(t.path.split(".")), t.name) for t in rep.all_tests()]
        mine = [(p, t["name"]) for p, t in all_tests(d)]
        assert real == mine, (seed, real, mine)
        stats["reports"] += 1
        for _, t in all_tests(d):
            stats["tests"] += 1
            st = t["result"]["status"]
            stats["statuses"][str(st)] = stats["statuses"].get(str(st), 0) + 1
        if seed < 24:
            coq_terms.append(c_report(d))
    print("selftest ok:", stats)
    if coq:
        root = os.path.dirname(os.path.dirname(os.path.abspath(__file__)))
        path = os.path.join(root, "coq", "theories", "Cases", "GenViewsSelftest_%d.v" % os.getpid())
        with open(path, "w", encoding="utf-8") as f:
            f.write("From Coq Require Import List NArith ZArith Bool.\nImport ListNotations.\n"
                    "From LCC Require Import Base.Util Model.Report.\n"
                    "Definition rs : list report := [\n%s\n].\n"
                    "Eval vm_compute in (map (fun r => length (all_tests r)) rs).\n" % ";\n".join(coq_terms))
        try:
            p = subprocess.run(["coqc", "-Q", "theories", "LCC", os.path.relpath(path, os.path.join(root, "coq"))],
                               cwd=os.path.join(root, "coq"), capture_output=True, text=True, timeout=300)
            print(p.stdout[-600:], p.stderr[-2000:])
            assert p.returncode == 0
        finally:
            base = path[:-2]
            for ext in (".v", ".vo", ".glob", ".vok", ".vos"):
                if os.path.exists(base + ext):
                    os.unlink(base + ext)
            aux = os.path.join(os.path.dirname(path), "." + os.path.basename(base) + ".aux")
            if os.path.exists(aux):
                os.unlink(aux)
        print("coq type-check ok")


if __name__ == "__main__":
    _selftest("--coq" in sys.argv)
