"""Seeded generator of matcher expressions (public constructors of lemoncheesecake.matching) and of a mixed value domain,
with the builders for the real objects and the printers for the Gallina terms of Model/PyVal.v / Model/Matcher.v.

Expression format (plain Python data, `repr` round-trips through ast.literal_eval for replays):
  ("equal_to", v) ... ("less_than_or_equal_to", v), ("is_between", lo, hi), ("is_none",), ("is_not_none",), ("is_true",),
  ("is_false",), ("has_length", arg), ("starts_with", s), ("ends_with", s), ("contains_string", s), ("has_item", arg),
  ("has_items", [v]), ("has_only_items", [v]), ("has_all_items", arg), ("is_in", [v]), ("has_entry", key, arg|None),
  ("is_integer"|"is_bool"|"is_str"|"is_dict"|"is_list", arg|None), ("all_of", [arg]), ("any_of", [arg]),
  ("anything",), ("something",), ("existing",), ("present",), ("is_", arg), ("not_", arg),
  ("hide", expr), ("override", expr, s)
  arg := ("$", value)  (a plain value, goes through is_())  |  expr
"""
import ast

from lib import c_Z, c_bool, c_list, c_opt, c_str

# ----------------------------------------------------------------------------- values
# (several strings ARE verb phrases of the description language, in the forms the transformer rewrites them into: an expected
#  value must never be touched by the conjugation / negation of the sentence around it)
STRS = ["", "a", "ab", "abc", "b", "ba", "é", 'q"t', "to be", "l\nm", "x and y", "to not be", "is", "is not", "to have", "has",
        "to match", "can"]
INTS = [0, 1, 2, 3, -1, 10, 100, 2 ** 70]
ATOMS = [None, True, False] + INTS + STRS
KEYS = ["a", "b", "ab", "", 0, 1, 2, True, None]


def gen_atom(rng):
    r = rng.random()
    if r < 0.1:
        return None
    if r < 0.25:
        return rng.choice([True, False])
    if r < 0.6:
        return rng.choice(INTS) if rng.random() < 0.9 else rng.randint(-1000, 1000)
    return rng.choice(STRS)


def gen_value(rng, depth=2):
    r = rng.random()
    if depth <= 0 or r < 0.55:
        return gen_atom(rng)
    if r < 0.82:
        return [gen_value(rng, depth - 1) for _ in range(rng.choice([0, 1, 1, 2, 2, 3, 4]))]
    d = {}
    for _ in range(rng.choice([0, 1, 1, 2, 3])):
        k = rng.choice(KEYS) if rng.random() < 0.35 else rng.choice(["a", "b", "ab"])
        d[k] = gen_value(rng, depth - 1)
    return d


def value_domain(rng, n):
    """A mixed list of n actual values; the first ones are a fixed separating core."""
    core = [None, True, False, 0, 1, 2, 3, -1, "", "a", "ab", "abc", [], [1], [1, 2], ["a"], [[1]], [1, "a", None],
            {}, {"a": 1}, {"a": 1, "b": 2}, {"a": {"b": 2}}, {1: "a"}, [True], "b", 10, [2, 1], {"a": None}, {"a": [1, 2]}]
    vals = list(core[:n])
    while len(vals) < n:
        vals.append(gen_value(rng))
    return vals


def c_key(k):
    if k is None:
        return "KNone"
    if isinstance(k, bool):
        return "(KBool %s)" % c_bool(k)
    if isinstance(k, int):
        return "(KInt %s)" % c_Z(k)
    if isinstance(k, str):
        return "(KStr %s)" % c_str(k)
    raise ValueError("unsupported dict key %r" % (k,))


def c_val(v):
    if v is None:
        return "VNone"
    if isinstance(v, bool):
        return "(VBool %s)" % c_bool(v)
    if isinstance(v, int):
        return "(VInt %s)" % c_Z(v)
    if isinstance(v, str):
        return "(VStr %s)" % c_str(v)
    if isinstance(v, list):
        return "(VList %s)" % c_list(v, c_val)
    if isinstance(v, dict):
        return "(VDict %s)" % c_list(list(v.items()), lambda kv: "(%s, %s)" % (c_key(kv[0]), c_val(kv[1])))
    raise ValueError("unsupported value %r" % (v,))


# ----------------------------------------------------------------------------- expressions
VALUE_LEAVES = ["equal_to", "not_equal_to", "greater_than", "greater_than_or_equal_to", "less_than", "less_than_or_equal_to"]
NULLARY = ["is_none", "is_not_none", "is_true", "is_false", "anything", "something", "existing", "present"]
STRING_LEAVES = ["starts_with", "ends_with", "contains_string"]
LIST_LEAVES = ["has_items", "has_only_items", "is_in"]
TYPES = ["is_integer", "is_bool", "is_str", "is_dict", "is_list"]
UNARY = ["has_length", "has_item", "has_all_items", "is_", "not_"]
ALL_CONSTRUCTORS = (VALUE_LEAVES + NULLARY + STRING_LEAVES + LIST_LEAVES + TYPES + UNARY +
                    ["is_between", "has_entry", "all_of", "any_of", "hide", "override"])
OVERRIDES = ["to be fine", "to have x", "to match y", "can do", "to work well", "nothing special", "", "to behave",
             "to be a\nb"]


def gen_leaf(rng, simple_values=False):
    r = rng.random()
    if r < 0.34:
        v = gen_atom(rng) if (simple_values or rng.random() < 0.75) else gen_value(rng, 1)
        return (rng.choice(VALUE_LEAVES), v)
    if r < 0.52:
        return (rng.choice(NULLARY),)
    if r < 0.64:
        return (rng.choice(STRING_LEAVES), rng.choice(STRS))
    if r < 0.76:
        return (rng.choice(LIST_LEAVES), [gen_atom(rng) if rng.random() < 0.85 else gen_value(rng, 1)
                                          for _ in range(rng.choice([0, 1, 2, 2, 3]))])
    if r < 0.84:
        lo = rng.choice([-1, 0, 1, 2])
        return ("is_between", lo, lo + rng.choice([-1, 0, 1, 2, 10]))
    if r < 0.92:
        return (rng.choice(TYPES), None)
    return ("has_entry", gen_key(rng), None)


def gen_key(rng):
    r = rng.random()
    if r < 0.7:
        return rng.choice(["a", "b", "ab", 0, 1, -1, True])
    if r < 0.85:
        return [rng.choice(["a", "b", 0, 1]) for _ in range(rng.choice([0, 1, 2, 2]))]
    return rng.choice([None, 2, "", [["a"]]])


def gen_arg(rng, depth, opts):
    """A constructor argument: a plain value (wrapped by is_) or a matcher."""
    if rng.random() < 0.25:
        return ("$", gen_atom(rng) if rng.random() < 0.8 else gen_value(rng, 1))
    return gen_expr(rng, depth, opts)


def gen_expr(rng, depth, opts=None):
    """opts: {"wrappers": bool, "override": bool}"""
    opts = opts or {"wrappers": True, "override": True}
    if depth <= 0 or rng.random() < 0.18:
        e = gen_leaf(rng)
    else:
        r = rng.random()
        if r < 0.22:
            e = ("all_of", [gen_arg(rng, depth - 1, opts) for _ in range(rng.choice([0, 1, 2, 2, 2, 3, 3, 4]))])
        elif r < 0.44:
            e = ("any_of", [gen_arg(rng, depth - 1, opts) for _ in range(rng.choice([0, 1, 2, 2, 2, 3, 3, 4]))])
        elif r < 0.60:
            e = ("not_", gen_arg(rng, depth - 1, opts))
        elif r < 0.64:
            e = ("is_", gen_arg(rng, depth - 1, opts))
        elif r < 0.71:
            e = ("has_length", gen_arg(rng, depth - 1, opts))
        elif r < 0.79:
            e = ("has_item", gen_arg(rng, depth - 1, opts))
        elif r < 0.86:
            e = ("has_all_items", gen_arg(rng, depth - 1, opts))
        elif r < 0.93:
            e = ("has_entry", gen_key(rng), gen_arg(rng, depth - 1, opts))
        else:
            e = (rng.choice(TYPES), gen_arg(rng, depth - 1, opts))
    if opts.get("wrappers") and rng.random() < 0.12:
        e = ("hide", e)
    if opts.get("override") and rng.random() < 0.05:
        e = ("override", e, rng.choice(OVERRIDES))
    return e


def is_value_arg(a):
    return isinstance(a, tuple) and len(a) == 2 and a[0] == "$"


def sub_args(e):
    """The constructor arguments of e that are args (values or matchers)."""
    op = e[0]
    if op in ("all_of", "any_of"):
        return list(e[1])
    if op in UNARY:
        return [e[1]]
    if op == "has_entry" or op in TYPES:
        a = e[-1]
        return [] if a is None else [a]
    if op in ("hide", "override"):
        return [e[1]]
    return []


def depth_of(e):
    if is_value_arg(e):
        return 0
    subs = sub_args(e)
    return 0 if not subs else 1 + max(depth_of(s) for s in subs)


def constructors_of(e, acc=None):
    acc = set() if acc is None else acc
    if is_value_arg(e):
        acc.add("$value")
        return acc
    acc.add(e[0])
    for s in sub_args(e):
        constructors_of(s, acc)
    return acc


def size_of(e):
    if is_value_arg(e):
        return 1
    return 1 + sum(size_of(s) for s in sub_args(e))


# ----------------------------------------------------------------------------- real objects
def build_arg(a):
    return a[1] if is_value_arg(a) else build(a)


def build(e):
    import lemoncheesecake.matching as M
    op = e[0]
    if op in VALUE_LEAVES or op in STRING_LEAVES or op in LIST_LEAVES:
        return getattr(M, op)(e[1])
    if op in NULLARY:
        return getattr(M, op)()
    if op == "is_between":
        return M.is_between(e[1], e[2])
    if op in UNARY:
        return getattr(M, op)(build_arg(e[1]))
    if op in TYPES:
        return getattr(M, op)() if e[1] is None else getattr(M, op)(build_arg(e[1]))
    if op == "has_entry":
        return M.has_entry(e[1]) if e[2] is None else M.has_entry(e[1], build_arg(e[2]))
    if op in ("all_of", "any_of"):
        return getattr(M, op)(*[build_arg(a) for a in e[1]])
    if op == "hide":
        return build(e[1]).hide_result_details()
    if op == "override":
        return build(e[1]).override_description(e[2])
    raise ValueError("unknown constructor %r" % (op,))


# ----------------------------------------------------------------------------- Gallina
def c_arg(a):
    return "(AVal %s)" % c_val(a[1]) if is_value_arg(a) else "(AMat %s)" % c_expr(a)


def c_expr(e):
    op = e[0]
    if op in VALUE_LEAVES:
        return "(%s %s)" % (op, c_val(e[1]))
    if op in STRING_LEAVES:
        return "(%s %s)" % (op, c_str(e[1]))
    if op in LIST_LEAVES:
        return "(%s %s)" % (op, c_list(e[1], c_val))
    if op in NULLARY:
        return op
    if op == "is_between":
        return "(is_between %s %s)" % (c_Z(e[1]), c_Z(e[2]))
    if op in UNARY:
        return "(%s %s)" % (op, c_arg(e[1]))
    if op in TYPES:
        return "(%s %s)" % (op, c_opt(e[1], c_arg))
    if op == "has_entry":
        return "(has_entry %s %s)" % (c_val(e[1]), c_opt(e[2], c_arg))
    if op in ("all_of", "any_of"):
        return "(%s %s)" % (op, c_list(e[1], c_arg))
    if op == "hide":
        return "(hide_result_details %s)" % c_expr(e[1])
    if op == "override":
        return "(override_description %s %s)" % (c_expr(e[1]), c_str(e[2]))
    raise ValueError("unknown constructor %r" % (op,))


def parse(text):
    return ast.literal_eval(text)


# ----------------------------------------------------------------------------- observing the implementation
ERRS = {"TypeError": "TypeError", "IndexError": "IndexError", "KeyError": "KeyError", "AbortTest": "AbortTest",
        "AssertionError": "AssertionError"}


def err_class(e):
    return ERRS.get(type(e).__name__, "OtherError")


def details_class(d):
    if d is None:
        return "DNone"
    if isinstance(d, str):
        return "DEmpty" if d == "" else "DText"
    return "D?%s" % type(d).__name__


def observe_matches(m, v):
    """('ok', bool, details class) or ('err', class) from the real matcher."""
    try:
        r = m.matches(v)
    except Exception as e:
        return ("err", err_class(e))
    if not isinstance(r.is_successful, bool):
        return ("err", "NonBool:%s" % type(r.is_successful).__name__)
    return ("ok", bool(r), details_class(r.description))


def c_mres(o):
    return "(Err %s)" % o[1] if o[0] == "err" else "(Ok (%s, %s))" % (c_bool(o[1]), o[2])


# ----------------------------------------------------------------------------- shrinking
def _replace_arg(e, i, new):
    """e with its i-th constructor argument (in sub_args order) replaced by new."""
    op = e[0]
    if op in ("all_of", "any_of"):
        return (op, e[1][:i] + [new] + e[1][i + 1:])
    if op in UNARY or op == "hide":
        return (op, new)
    if op == "override":
        return (op, new, e[2])
    if op == "has_entry":
        return (op, e[1], new)
    if op in TYPES:
        return (op, new)
    return e


def shrink_candidates(e):
    """Structurally smaller variants of e, most aggressive first."""
    subs = sub_args(e)
    for s in subs:                                   # an operand instead of the whole expression
        if not is_value_arg(s):
            yield s
    if e[0] in ("all_of", "any_of"):                 # drop an operand
        for i in range(len(e[1])):
            yield (e[0], e[1][:i] + e[1][i + 1:])
    for i, s in enumerate(subs):                     # simplify an operand
        if not is_value_arg(s):
            if s != ("is_none",) and not (e[0] in ("hide", "override")):
                yield _replace_arg(e, i, ("is_none",))
            for c in shrink_candidates(s):
                if e[0] in ("hide", "override") and is_value_arg(c):
                    continue
                yield _replace_arg(e, i, c)


def shrink(e, pred, limit=400):
    """Greedy minimisation of expression e under pred (pred(e) is assumed true)."""
    budget = [limit]
    changed = True
    while changed and budget[0] > 0:
        changed = False
        for c in shrink_candidates(e):
            budget[0] -= 1
            if budget[0] <= 0:
                break
            try:
                ok = size_of(c) < size_of(e) and pred(c)
            except Exception:
                ok = False
            if ok:
                e, changed = c, True
                break
    return e
