"""F5 / crash-consistency of report saving — drives the real `backend.save_report` of the tree under test and kills the
process (os._exit in a forked child) immediately before each file-system operation of the save, then observes what a
later reader finds in the report directory.

Driver protocol (lib.run_impl): JSON payload on stdin, result JSON as the last line of stdout.
  payload: {"backend": "json"|"xml"|"junit", "old": <report description>|null, "new": <report description>}
  result : {"backend", "final", "ops", "chunks_len", "states": [{"k","exit","fs","present","loadable","loaded","error"}],
            "old_given"} + a few extra diagnostic keys ("encoding", "ref_exit", "save_error", "old_equals_new").
           When the OLD report cannot even be saved normally: ops = states = [] and "setup_error": "<class>: <message>".
           "save_error": exception class name raised by the (uncrashed) save of the NEW report, or null.
`--selftest` prints the op sequence and the per-crash-point observations for each backend, with and without an old report.

Operations (paths relative to the report directory D; only paths under D are traced):
  ["open_trunc"|"open_append"|"open_other", name]   builtins.open / io.open in a writing mode
  ["write", name, i]      .write(data) on such a handle; i indexes `chunks` (the data, in order of writing)
  ["flush", name]  ["fsync", name]  ["close", name]  ["rename", src, dst]  ["unlink", name]
An operation that raised has "_failed" appended to its kind (it still counts as one crash point).
The proxy flushes the real file right after each write, so a write has reached the OS when the operation is over.

Everything that saves runs with time.time frozen (T_OLD for the old report, T_NEW for the new one): the json and xml
serializers stamp the file with the current time, frozen clocks make the bytes of the crashing runs equal those of the
reference run and keep the old and the new normal forms apart.
"""
import builtins
import io
import json
import os
import pickle
import shutil
import signal
import sys
import tempfile
import time
import traceback
import warnings
import xml.etree.ElementTree as ET

warnings.simplefilter("ignore")

import lemoncheesecake.api  # noqa: F401,E402  (import order: breaks the reporting <-> filter import cycle)
from lemoncheesecake.reporting.backends import JsonBackend, XmlBackend, JunitBackend  # noqa: E402

import gen_reports  # noqa: E402

BACKENDS = {"json": JsonBackend, "xml": XmlBackend, "junit": JunitBackend}
T_OLD = 1700000000.0
T_NEW = 1700000060.0
CRASH_EXIT = 17
CHILD_TIMEOUT = 60  # seconds, per forked child

_REAL = {"open": builtins.open, "io_open": io.open, "replace": os.replace, "rename": os.rename, "fsync": os.fsync,
         "unlink": os.unlink, "remove": os.remove, "time": time.time}


# ------------------------------------------------------------------------------------------------------- interposition
class _Proxy:
    """Stands for a real file object opened for writing under D."""

    def __init__(self, tracer, real, name):
        self.__dict__["_t"] = tracer
        self.__dict__["_f"] = real
        self.__dict__["_name"] = name
        self.__dict__["_closed"] = False

    def write(self, data):
        t, f = self._t, self._f
        op = t.before(["write", self._name, len(t.chunks)])
        t.chunks.append(data)
        t.chunk_bytes.append(_to_bytes(data, f))
        try:
            r = f.write(data)
            f.flush()
        except BaseException:
            t.failed(op)
            raise
        return r

    def writelines(self, lines):
        for line in lines:
            self.write(line)

    def flush(self):
        op = self._t.before(["flush", self._name])
        try:
            return self._f.flush()
        except BaseException:
            self._t.failed(op)
            raise

    def close(self):
        if self._closed:
            return None
        op = self._t.before(["close", self._name])
        self.__dict__["_closed"] = True
        self._t.fds.pop(self.__dict__.get("_fd"), None)
        try:
            return self._f.close()
        except BaseException:
            self._t.failed(op)
            raise

    def fileno(self):
        return self._f.fileno()

    def __enter__(self):
        self._f.__enter__()
        return self

    def __exit__(self, *exc):
        self.close()
        return False

    def __iter__(self):
        return iter(self._f)

    def __getattr__(self, attr):
        return getattr(self._f, attr)

    def __setattr__(self, attr, value):
        setattr(self._f, attr, value)


def _to_bytes(data, f):
    """The bytes a write of `data` puts into the file (None when it cannot be told)."""
    try:
        if isinstance(data, str):
            return data.encode(getattr(f, "encoding", None) or "utf-8", getattr(f, "errors", None) or "strict")
        return bytes(data)
    except Exception:
        return None


class Tracer:
    def __init__(self, root, crash_at=None):
        self.root = root
        self.crash_at = crash_at
        self.count = 0
        self.ops = []
        self.chunks = []
        self.chunk_bytes = []
        self.encodings = {}
        self.fds = {}

    # -- bookkeeping
    def before(self, op):
        """Called immediately BEFORE an operation is performed."""
        if self.crash_at is not None and self.count == self.crash_at:
            os._exit(CRASH_EXIT)
        self.count += 1
        self.ops.append(op)
        return op

    @staticmethod
    def failed(op):
        op[0] += "_failed"

    def rel(self, path):
        """Name relative to D, or None for a path outside D (or not a path)."""
        try:
            if isinstance(path, int):
                return None
            p = os.fspath(path)
            if isinstance(p, bytes):
                p = os.fsdecode(p)
            p = os.path.abspath(p)
            d = os.path.dirname(p)
            if os.path.isdir(d):
                p = os.path.join(os.path.realpath(d), os.path.basename(p))
        except Exception:
            return None
        if p == self.root or not p.startswith(self.root + os.sep):
            return None
        return os.path.relpath(p, self.root)

    # -- wrappers
    def _open(self, real_open):
        def traced_open(file, mode="r", *args, **kwargs):
            name = self.rel(file)
            m = mode if isinstance(mode, str) else "r"
            if name is None or not any(c in m for c in "wax+"):
                return real_open(file, mode, *args, **kwargs)
            kind = "open_trunc" if "w" in m else "open_append" if "a" in m else "open_other"
            op = self.before([kind, name])
            try:
                f = real_open(file, mode, *args, **kwargs)
            except BaseException:
                self.failed(op)
                raise
            proxy = _Proxy(self, f, name)
            try:
                proxy.__dict__["_fd"] = f.fileno()
                self.fds[f.fileno()] = name
            except Exception:
                pass
            self.encodings[name] = getattr(f, "encoding", None)
            return proxy
        return traced_open

    def _rename(self, real):
        def traced_rename(src, dst, *args, **kwargs):
            s, d = self.rel(src), self.rel(dst)
            if s is None and d is None:
                return real(src, dst, *args, **kwargs)
            op = self.before(["rename", s if s is not None else os.fspath(src), d if d is not None else os.fspath(dst)])
            try:
                return real(src, dst, *args, **kwargs)
            except BaseException:
                self.failed(op)
                raise
        return traced_rename

    def _unlink(self, real):
        def traced_unlink(path, *args, **kwargs):
            name = self.rel(path)
            if name is None:
                return real(path, *args, **kwargs)
            op = self.before(["unlink", name])
            try:
                return real(path, *args, **kwargs)
            except BaseException:
                self.failed(op)
                raise
        return traced_unlink

    def _fsync(self, real):
        def traced_fsync(fd):
            try:
                n = fd if isinstance(fd, int) else fd.fileno()
            except Exception:
                n = None
            name = self.fds.get(n)
            if name is None:
                return real(fd)
            op = self.before(["fsync", name])
            try:
                return real(fd)
            except BaseException:
                self.failed(op)
                raise
        return traced_fsync

    def install(self):
        builtins.open = self._open(_REAL["open"])
        io.open = builtins.open if _REAL["io_open"] is _REAL["open"] else self._open(_REAL["io_open"])
        os.replace = self._rename(_REAL["replace"])
        os.rename = self._rename(_REAL["rename"])
        os.unlink = self._unlink(_REAL["unlink"])
        os.remove = self._unlink(_REAL["remove"])
        os.fsync = self._fsync(_REAL["fsync"])

    @staticmethod
    def uninstall():
        builtins.open = _REAL["open"]
        io.open = _REAL["io_open"]
        os.replace, os.rename = _REAL["replace"], _REAL["rename"]
        os.unlink, os.remove = _REAL["unlink"], _REAL["remove"]
        os.fsync = _REAL["fsync"]


# ------------------------------------------------------------------------------------------------------------ processes
def _child(root, final, backend, report, crash_at, result_path):
    """Body of a forked child: never returns."""
    code = 4
    try:
        signal.alarm(CHILD_TIMEOUT)
        tracer = Tracer(root, crash_at)
        time.time = lambda: T_NEW
        tracer.install()
        err = None
        try:
            backend.save_report(final, report)
        except BaseException as e:  # the outcome of the save is data, not a failure of the driver
            err = type(e).__name__
        tracer.uninstall()
        if result_path is not None:
            with _REAL["open"](result_path, "wb") as fh:
                pickle.dump({"ops": tracer.ops, "chunks_len": [len(c) for c in tracer.chunks],
                             "chunk_bytes": tracer.chunk_bytes, "encodings": tracer.encodings, "save_error": err}, fh)
        code = 0 if err is None else 3
    except BaseException:
        try:
            traceback.print_exc()
            sys.stderr.flush()
        except BaseException:
            pass
    finally:
        os._exit(code)


def _fork_save(root, final, backend, report, crash_at, result_path=None):
    """Exit status of a child that saves `report` into `final` and dies before operation number `crash_at`."""
    sys.stdout.flush()
    sys.stderr.flush()
    pid = os.fork()
    if pid == 0:
        _child(root, final, backend, report, crash_at, result_path)
    deadline = time.monotonic() + CHILD_TIMEOUT + 5
    while True:
        done, status = os.waitpid(pid, os.WNOHANG)
        if done == pid:
            return os.waitstatus_to_exitcode(status)
        if time.monotonic() > deadline:
            try:
                os.kill(pid, signal.SIGKILL)
            except OSError:
                pass
            os.waitpid(pid, 0)
            return "timeout"
        time.sleep(0.0005)


# ---------------------------------------------------------------------------------------------------------- observation
def _reset(root, final, old_bytes):
    for entry in os.listdir(root):
        p = os.path.join(root, entry)
        if os.path.isdir(p) and not os.path.islink(p):
            shutil.rmtree(p)
        else:
            os.unlink(p)
    if old_bytes is not None:
        with open(final, "wb") as fh:
            fh.write(old_bytes)


def _files(root):
    out = {}
    for d, _dirs, names in os.walk(root):
        for n in names:
            p = os.path.join(d, n)
            with open(p, "rb") as fh:
                out[os.path.relpath(p, root)] = fh.read()
    return out


def _segments(ops):
    """Chunk indexes written through each (re)creation of a file, in order: [[i0, i1, ...], ...]."""
    segs, cur = [], {}
    for op in ops:
        if op[0] == "open_trunc":
            cur[op[1]] = []
            segs.append(cur[op[1]])
        elif op[0] in ("open_append", "open_other") and op[1] not in cur:
            cur[op[1]] = []
            segs.append(cur[op[1]])
        elif op[0] == "write":
            if op[1] not in cur:
                cur[op[1]] = []
                segs.append(cur[op[1]])
            cur[op[1]].append(op[2])
    return segs


def _classify(data, old_bytes, segs, chunk_bytes):
    if old_bytes is not None and data == old_bytes:
        return "old"
    for seg in segs:  # shortest matching prefix (prefixes only coincide when a chunk is empty)
        acc = b""
        if data == acc:
            return []
        for j, i in enumerate(seg):
            if chunk_bytes[i] is None:
                break
            acc += chunk_bytes[i]
            if data == acc:
                return list(seg[:j + 1])
            if not data.startswith(acc):
                break
    return "other"


def _load(backend_name, backend, final):
    """(loadable, normal form or None, error class name or None); junit: well-formedness only."""
    try:
        if backend_name == "junit":
            ET.parse(final)
            return True, None, None
        report = backend.load_report(final)
        return True, gen_reports.normal_form(report), None
    except Exception as e:
        return False, None, type(e).__name__


def run(payload):
    backend_name = payload["backend"]
    backend = BACKENDS[backend_name]()
    old, new = payload.get("old"), payload["new"]
    root = os.path.realpath(tempfile.mkdtemp(prefix="lcc_crash_"))
    scratch = tempfile.mkdtemp(prefix="lcc_crash_ref_")
    if payload.get("tmpdir"):
        # the system temporary directory lies on ANOTHER file system than the report directory (tmpfs /tmp, /dev/shm): code that
        # prepares the report there cannot install it by a rename
        os.environ["TMPDIR"] = payload["tmpdir"]
        tempfile.tempdir = None
    try:
        final_name = backend.get_report_filename()
        final = os.path.join(root, final_name)

        # 2. the previous complete report, saved normally
        old_bytes = old_nf = None
        if old is not None:
            time.time = lambda: T_OLD
            try:
                backend.save_report(final, gen_reports.build_report(old))
            except Exception as e:  # the old report itself cannot be saved: nothing to experiment on
                return {"backend": backend_name, "final": final_name, "ops": [], "chunks_len": [], "states": [],
                        "old_given": True, "setup_error": "%s: %s" % (type(e).__name__, e)}
            finally:
                time.time = _REAL["time"]
            old_bytes = _files(root)[final_name]
            _ok, old_nf, _err = _load(backend_name, backend, final)
        _reset(root, final, old_bytes)

        # 3. reference run (traced, no crash), in a forked child
        new_report = gen_reports.build_report(new)
        ref_path = os.path.join(scratch, "ref.pkl")
        ref_exit = _fork_save(root, final, backend, new_report, None, ref_path)
        with open(ref_path, "rb") as fh:
            ref = pickle.load(fh)
        ops, chunk_bytes = ref["ops"], ref["chunk_bytes"]
        after = _files(root)
        new_bytes = after.get(final_name)
        new_nf = _load(backend_name, backend, final)[1] if new_bytes is not None else None
        segs = _segments(ops)

        # 4. crash before operation k, for every k
        states = []
        for k in range(len(ops) + 1):
            _reset(root, final, old_bytes)
            code = _fork_save(root, final, backend, new_report, k)
            found = _files(root)
            st = {"k": k, "exit": code,
                  "fs": {n: _classify(b, old_bytes, segs, chunk_bytes) for n, b in sorted(found.items())},
                  "present": final_name in found, "loadable": None, "loaded": None, "error": None}
            if st["present"]:
                ok, nf, err = _load(backend_name, backend, final)
                st["loadable"], st["error"] = ok, err
                if ok:
                    if backend_name == "junit":
                        got, was, will = found[final_name], old_bytes, new_bytes
                    else:
                        got, was, will = nf, old_nf, new_nf
                    st["loaded"] = "old" if (was is not None and got == was) else \
                                   "new" if (will is not None and got == will) else "other"
            states.append(st)

        return {"backend": backend_name, "final": final_name, "ops": ops, "chunks_len": ref["chunks_len"],
                "states": states, "old_given": old is not None,
                # diagnostics
                "encoding": ref["encodings"], "ref_exit": ref_exit, "save_error": ref["save_error"],
                "old_equals_new": old_bytes is not None and old_bytes == new_bytes}
    finally:
        time.time = _REAL["time"]
        shutil.rmtree(root, ignore_errors=True)
        shutil.rmtree(scratch, ignore_errors=True)


# ------------------------------------------------------------------------------------------------------------ self-test
def _selftest():
    import random
    print("tree under test: %s" % os.path.dirname(os.path.dirname(lemoncheesecake.__file__)))
    bad = 0
    for backend_name in ("json", "xml", "junit"):
        for with_old in (False, True):
            rng = random.Random(5)
            old = gen_reports.gen_report(rng, size="small", strings="plain", unfinished=0.0) if with_old else None
            new = gen_reports.gen_report(rng, size="small", strings="plain", unfinished=0.0)
            t0 = time.monotonic()
            res = run({"backend": backend_name, "old": old, "new": new})
            json.dumps(res)
            n = len(res["ops"])
            print("== %s, old %s: final=%s chunks_len=%s ref_exit=%s save_error=%s (%.2fs)" % (
                backend_name, "given" if with_old else "absent", res["final"], res["chunks_len"], res["ref_exit"],
                res["save_error"], time.monotonic() - t0))
            print("   ops: %s" % " ; ".join(" ".join(str(x) for x in op) for op in res["ops"]))
            for st in res["states"]:
                broken = st["present"] and not st["loadable"]
                bad += broken
                print("   k=%d exit=%s fs=%s present=%s loadable=%s loaded=%s%s%s" % (
                    st["k"], st["exit"], json.dumps(st["fs"]), st["present"], st["loadable"], st["loaded"],
                    " error=%s" % st["error"] if st["error"] else "", "   <-- UNLOADABLE" if broken else ""))
            last = res["states"][-1]
            assert [st["k"] for st in res["states"]] == list(range(n + 1))
            assert all(st["exit"] == CRASH_EXIT for st in res["states"][:-1]) and last["exit"] == 0, "exit statuses"
            assert last["present"] and last["loadable"] and last["loaded"] == "new", "complete save"
            first = res["states"][0]
            assert first["fs"] == ({res["final"]: "old"} if with_old else {}), "state before the first operation"
            assert first["loaded"] == ("old" if with_old else None)
            assert all("other" not in st["fs"].values() for st in res["states"]), "unexplained file content"
    print("crash points leaving an unloadable report file: %d" % bad)
    print("selftest OK")


def main():
    if "--selftest" in sys.argv[1:]:
        _selftest()
        return
    payload = json.loads(sys.stdin.read())
    print(json.dumps(run(payload)))


if __name__ == "__main__":
    main()
