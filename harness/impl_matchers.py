"""Drivers that run the real lemoncheesecake.matching code for C16 / C17 (in-process; nothing here can loop or block)."""
import os
import sys

import gen_matchers as G
import lib


def _runner():
    tests = os.path.join(lib.REPO, "tests")
    if tests not in sys.path:
        sys.path.insert(0, tests)
    import helpers.runner as hr
    hr.dump_report = lambda r: None
    return hr


def run_operations(cases):
    """cases: list of (op, expr, value, quiet, hint) with op in check_that/require_that/assert_that.
    Runs them all inside ONE real test of a real suite (tests/helpers/runner.py), each under its own step, and reads what
    was recorded from the report.  Returns, per case:
      {"checks": [(description, is_successful, details)], "outcome": ("ret", bool) | ("exc", class name, err class)}"""
    hr = _runner()
    import lemoncheesecake.api as lcc
    import lemoncheesecake.matching as M
    outcomes = [None] * len(cases)

    def body():
        for i, (op, expr, value, quiet, hint) in enumerate(cases):
            matcher = G.build(expr)
            lcc.set_step("case %d" % i)
            try:
                r = getattr(M, op)(hint, value, matcher, quiet=quiet)
                outcomes[i] = ("ret", bool(r))
            except Exception as e:   # AbortTest included: the body goes on with the next case
                outcomes[i] = ("exc", type(e).__name__, G.err_class(e))

    report = hr.run_func_in_test(body)
    tests = list(report.all_tests())
    if len(tests) != 1:
        raise RuntimeError("expected one test in the report, got %d" % len(tests))
    recorded = {}
    for step in tests[0].get_steps():
        if not step.description.startswith("case "):
            continue
        idx = int(step.description[5:])
        for entry in step.get_logs():
            if type(entry).__name__ != "Check":
                raise RuntimeError("unexpected log entry %r in step %r" % (entry, step.description))
            recorded.setdefault(idx, []).append((entry.description, entry.is_successful, entry.details))
    res = []
    for i in range(len(cases)):
        if outcomes[i] is None:
            raise RuntimeError("case %d was not executed (the test body was interrupted)" % i)
        res.append({"checks": recorded.get(i, []), "outcome": outcomes[i]})
    return res


def run_operations_in(cases):
    """cases: list of (op, actual, py_args, base_key, quiet) with op in check_that_in/require_that_in/assert_that_in and py_args
    the positional "expected" arguments (real matcher objects inside). Same real test as run_operations.
    Returns, per case: {"checks": [...], "outcome": ("ret", [bool, ...]) | ("exc", class name, err class)}"""
    hr = _runner()
    import lemoncheesecake.api as lcc
    import lemoncheesecake.matching as M
    outcomes = [None] * len(cases)

    def body():
        for i, (op, actual, py_args, base_key, quiet) in enumerate(cases):
            lcc.set_step("case %d" % i)
            kwargs = {"quiet": quiet}
            if base_key is not None:
                kwargs["base_key"] = base_key
            try:
                r = getattr(M, op)(actual, *py_args, **kwargs)
                outcomes[i] = ("ret", [bool(x) for x in r])
            except BaseException as e:   # AbortTest, AssertionError, ValueError included: the body goes on with the next case
                if isinstance(e, KeyboardInterrupt):
                    raise
                outcomes[i] = ("exc", type(e).__name__, G.err_class(e))

    report = hr.run_func_in_test(body)
    tests = list(report.all_tests())
    if len(tests) != 1:
        raise RuntimeError("expected one test in the report, got %d" % len(tests))
    recorded = {}
    for step in tests[0].get_steps():
        if not step.description.startswith("case "):
            continue
        idx = int(step.description[5:])
        for entry in step.get_logs():
            if type(entry).__name__ != "Check":
                raise RuntimeError("unexpected log entry %r in step %r" % (entry, step.description))
            recorded.setdefault(idx, []).append((entry.description, entry.is_successful, entry.details))
    res = []
    for i in range(len(cases)):
        if outcomes[i] is None:
            raise RuntimeError("case %d was not executed (the test body was interrupted)" % i)
        res.append({"checks": recorded.get(i, []), "outcome": outcomes[i]})
    return res


def describe(matcher, conjugate=False, negative=False):
    from lemoncheesecake.matching.matcher import MatcherDescriptionTransformer
    return matcher.build_description(MatcherDescriptionTransformer(conjugate=conjugate, negative=negative))
