"""C12 — drives the real lemoncheesecake code: builds Suite/Test objects and a saved JSON report from the abstract case,
parses the filter expression with the real argparse definitions (or builds the namespace when the expression cannot be typed
as is, e.g. values starting with `-`), then make_test_filter + load_suites_from_project."""
import argparse
import os
import shutil
import tempfile
import warnings

import lemoncheesecake.api  # noqa: F401  (import order: breaks the reporting <-> filter import cycle)
from lemoncheesecake.suite import Suite, Test
from lemoncheesecake.filter import add_test_filter_cli_args, make_test_filter
from lemoncheesecake.cli.utils import load_suites_from_project
from lemoncheesecake.exceptions import UserError
from lemoncheesecake.reporting.report import Report, SuiteResult, TestResult, Step, Log, Check, Attachment, Url
from lemoncheesecake.reporting.backends.json_ import save_report_into_file

import gen_filter

warnings.simplefilter("ignore")


def _set_meta(obj, n):
    obj.tags = list(n["tags"])
    obj.properties = {k: v for k, v in n["props"]}
    obj.links = [(u, nm) for u, nm in n["links"]]


def build_suite(s):
    suite = Suite(None, s["name"], s["desc"])
    _set_meta(suite, s)
    suite.disabled = s["disabled"]
    for t in s["tests"]:
        test = Test(t["name"], t["desc"], lambda: None)
        _set_meta(test, t)
        test.disabled = t["disabled"]
        suite.add_test(test)
    for x in s["suites"]:
        suite.add_suite(build_suite(x))
    return suite


def build_report(r):
    rep = Report()
    rep.start_time, rep.end_time = 1000.0, 2000.0

    def rs(s):
        sr = SuiteResult(s["name"], s["desc"])
        _set_meta(sr, s)
        sr.start_time, sr.end_time = 1000.0, 2000.0
        for t in s["tests"]:
            tr = TestResult(t["name"], t["desc"])
            _set_meta(tr, t)
            tr.status = t["status"]
            tr.start_time, tr.end_time = 1000.0, 1500.0
            for st in t["steps"]:
                step = Step(st["desc"])
                step.start_time, step.end_time = 1000.0, 1100.0
                for l in st["logs"]:
                    if l[0] == "log":
                        step.add_log(Log(l[1], l[2], 1001.0))
                    elif l[0] == "check":
                        step.add_log(Check(l[1], l[2], l[3], 1001.0))
                    elif l[0] == "att":
                        step.add_log(Attachment(l[1], l[2], False, 1001.0))
                    else:
                        step.add_log(Url(l[1], l[2], 1001.0))
                tr.add_step(step)
            sr.add_test(tr)
        for x in s["suites"]:
            sr.add_suite(rs(x))
        return sr
    for s in r["suites"]:
        rep.add_suite(rs(s))
    return rep


def make_namespace(f, from_report_path):
    return argparse.Namespace(
        path=list(f["path"]), desc=[list(g) for g in f["desc"]], tag=[list(g) for g in f["tag"]],
        property=[[list(kv) for kv in g] for g in f["property"]], link=[list(g) for g in f["link"]],
        passed=f["passed"], failed=f["failed"], skipped=f["skipped"], non_passed=f["non_passed"],
        disabled=f["disabled"], enabled=f["enabled"], grep=f["grep"], from_report=from_report_path)


def observe_suite(s):
    return [s.name, [t.name for t in s.get_tests()], [observe_suite(x) for x in s.get_suites()]]


class _Project:
    def __init__(self, suites):
        self._suites = suites

    def load_suites(self):
        return self._suites


def run_case(tree, f, report, via_argparse):
    """Returns {"ok": [otree]} | {"err": EExclusive|ENoTests|ENoMatch} | {"exc": text}; plus the flat list of selected paths."""
    from lemoncheesecake.testtree import flatten_tests
    suites = [build_suite(s) for s in tree]
    tmp = tempfile.mkdtemp(prefix="lccverif_c12_")
    cwd = os.getcwd()
    try:
        from_path = None
        if report is not None:
            os.mkdir(os.path.join(tmp, "report"))
            save_report_into_file(build_report(report), os.path.join(tmp, "report", "report.json"),
                                  javascript_compatibility=False)
            # --from-report given: an explicit path; otherwise the default "report" directory of the cwd is used by the code
            from_path = os.path.join(tmp, "report") if f["from_report"] else None
        os.chdir(tmp)
        try:
            if via_argparse:
                parser = argparse.ArgumentParser()
                add_test_filter_cli_args(parser)
                argv = gen_filter.to_argv(f) + (["--from-report", from_path] if from_path else [])
                try:
                    ns = parser.parse_args(argv)
                except SystemExit:
                    return {"exc": "argparse rejected %r" % (argv,)}, None
            else:
                ns = make_namespace(f, from_path)
            flt = make_test_filter(ns)
            res = load_suites_from_project(_Project(suites), flt)
            return {"ok": [observe_suite(s) for s in res]}, [t.path for t in flatten_tests(res)]
        except UserError as e:
            msg = str(e)
            if "mutually exclusive" in msg:
                return {"err": "EExclusive"}, None
            if "No test is defined" in msg:
                return {"err": "ENoTests"}, None
            if "does not match any test" in msg:
                return {"err": "ENoMatch"}, None
            return {"exc": "UserError: " + msg[:200]}, None
        except Exception as e:
            return {"exc": "%s: %s" % (type(e).__name__, str(e)[:200])}, None
    finally:
        os.chdir(cwd)
        shutil.rmtree(tmp, ignore_errors=True)


def run_fnmatch(pattern, name):
    import fnmatch
    return fnmatch.fnmatch(name, pattern)
