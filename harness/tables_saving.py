"""C10 translator:  lemoncheesecake/reporting/savingstrategy.py, reporting/backend.py (FileReportSession), session.py
(Session.create), events.py (class hierarchy, EventType.handle, add_listener) and the three `save_report_into_file`
->  coq/theories/gen/TablesSaving.v

What is DATA in the source is extracted by walking the Python `ast` (fail-closed: any statement that is not of the expected
shape raises TranslationError = broken tie):
  * FileReportSession: the list of `on_<event> = _handle_event` class attributes                       -> t_handle_kinds
  * _is_end_of_result_event: the `if isinstance(event, K): return ReportLocation.in_x(...)` rows         -> t_end_of_result
  * save_at_each_suite_strategy / save_at_each_log_strategy: the class tested by isinstance, expanded
    through the class hierarchy of events.py to the concrete event classes                            -> t_suite_kinds / t_log_kinds
  * make_report_saving_strategy: the `static_expressions` dict literal                                  -> t_names
  * DEFAULT_REPORT_SAVING_STRATEGY                                                                      -> t_default
  * save_report_into_file of json_.py / xml.py / junit.py: in-place (`with open(filename, "w")`) or atomic
    (`with atomic_write(filename)`, the helper being pinned)                                            -> save_ops_<backend>
What is CONTROL FLOW modelled by hand in Model/Saving.v is pinned: the function must be, statement for statement, the text
recorded below (compared as `ast.dump` after dropping docstrings), otherwise the model is not known to describe it."""
import ast
import os

from tables import TranslationError

PROPS = ["C10"]

BASE = "lemoncheesecake"

# concrete event classes -> constructor of Model/Saving.v `ekind`
KIND = {
    "TestSessionStartEvent": "KSessionStart", "TestSessionEndEvent": "KSessionEnd",
    "TestSessionSetupStartEvent": "KSessionSetupStart", "TestSessionSetupEndEvent": "KSessionSetupEnd",
    "TestSessionTeardownStartEvent": "KSessionTeardownStart", "TestSessionTeardownEndEvent": "KSessionTeardownEnd",
    "SuiteStartEvent": "KSuiteStart", "SuiteEndEvent": "KSuiteEnd", "SuiteSetupStartEvent": "KSuiteSetupStart",
    "SuiteSetupEndEvent": "KSuiteSetupEnd", "SuiteTeardownStartEvent": "KSuiteTeardownStart",
    "SuiteTeardownEndEvent": "KSuiteTeardownEnd", "TestStartEvent": "KTestStart", "TestEndEvent": "KTestEnd",
    "TestSkippedEvent": "KTestSkipped", "TestDisabledEvent": "KTestDisabled", "StepStartEvent": "KStepStart",
    "StepEndEvent": "KStepEnd", "LogEvent": "KLog", "CheckEvent": "KCheck", "LogAttachmentEvent": "KLogAttachment",
    "LogUrlEvent": "KLogUrl",
}
ABSTRACT = {"RuntimeEvent", "SteppedEvent"}           # public Event subclasses that are never instantiated (events.py says so)
HANDLER = {  # Event.get_name() of each concrete class (camel_case_to_snake_case minus _event)
    "test_session_start": "KSessionStart", "test_session_end": "KSessionEnd", "test_session_setup_start": "KSessionSetupStart",
    "test_session_setup_end": "KSessionSetupEnd", "test_session_teardown_start": "KSessionTeardownStart",
    "test_session_teardown_end": "KSessionTeardownEnd", "suite_start": "KSuiteStart", "suite_end": "KSuiteEnd",
    "suite_setup_start": "KSuiteSetupStart", "suite_setup_end": "KSuiteSetupEnd", "suite_teardown_start": "KSuiteTeardownStart",
    "suite_teardown_end": "KSuiteTeardownEnd", "test_start": "KTestStart", "test_end": "KTestEnd", "test_skipped": "KTestSkipped",
    "test_disabled": "KTestDisabled", "step_start": "KStepStart", "step_end": "KStepEnd", "log": "KLog", "check": "KCheck",
    "log_attachment": "KLogAttachment", "log_url": "KLogUrl",
}
LOCCTOR = {"in_test_session_setup": ("InSessionSetup", None), "in_test_session_teardown": ("InSessionTeardown", None),
           "in_suite_setup": ("InSuiteSetup", "suite"), "in_suite_teardown": ("InSuiteTeardown", "suite"),
           "in_test": ("InTest", "test")}
SFUN = {"save_at_each_suite_strategy": "FSuite", "save_at_each_test_strategy": "FTest",
        "save_at_each_failed_test_strategy": "FFailedTest", "save_at_each_log_strategy": "FLog"}


def terr(msg, node=None):
    where = " (line %s): %s" % (getattr(node, "lineno", "?"), ast.unparse(node)[:200]) if node is not None else ""
    raise TranslationError("tables_saving: " + msg + where)


def parse(repo, rel):
    path = os.path.join(repo, BASE, rel)
    try:
        return ast.parse(open(path, encoding="utf-8").read(), filename=path)
    except (OSError, SyntaxError) as e:
        terr("cannot parse %s: %s" % (path, e))


def strip_doc(node):
    for n in ast.walk(node):
        if isinstance(n, (ast.FunctionDef, ast.ClassDef, ast.Module)) and n.body and isinstance(n.body[0], ast.Expr) \
                and isinstance(n.body[0].value, ast.Constant) and isinstance(n.body[0].value.value, str):
            n.body = n.body[1:] or [ast.Pass()]
        if isinstance(n, ast.FunctionDef):
            n.returns = None
            for a in n.args.args + n.args.kwonlyargs + n.args.posonlyargs:
                a.annotation = None
    return node


def dump(node):
    import copy
    return ast.dump(strip_doc(copy.deepcopy(node)), annotate_fields=False, include_attributes=False)


def find(body, name, kind=(ast.FunctionDef, ast.ClassDef, ast.Assign)):
    found = []
    for n in body:
        if isinstance(n, (ast.FunctionDef, ast.ClassDef)) and n.name == name and isinstance(n, kind):
            found.append(n)
        elif isinstance(n, ast.Assign) and len(n.targets) == 1 and isinstance(n.targets[0], ast.Name) \
                and n.targets[0].id == name and isinstance(n, kind):
            found.append(n)
    if len(found) != 1:
        terr("%s: expected exactly one definition, found %d" % (name, len(found)))
    return found[0]


def pinned(node, expected_src, what):
    exp = ast.parse(expected_src).body[0]
    if dump(node) != dump(exp):
        terr("%s is not the code the model describes; expected\n%s\nfound" % (what, expected_src), node)


# ------------------------------------------------------------------------------------------------ events.py
def event_hierarchy(repo):
    tree = parse(repo, "events.py")
    bases = {}
    for n in tree.body:
        if isinstance(n, ast.ClassDef):
            bs = []
            for b in n.bases:
                if not isinstance(b, ast.Name):
                    terr("events.py: base class is not a name", n)
                bs.append(b.id)
            bases[n.name] = bs

    def ancestors(c, seen=()):
        res = {c}
        for b in bases.get(c, []):
            if b not in seen:
                res |= ancestors(b, seen + (c,))
        return res
    public = [c for c in bases if not c.startswith("_") and c != "Event" and "Event" in ancestors(c)]
    for c in public:
        if c not in KIND and c not in ABSTRACT:
            terr("events.py: event class %s is not known to the model (Model/Events.v has no constructor for it)" % c)
    for c in KIND:
        if c not in public:
            terr("events.py: event class %s has disappeared" % c)
    for c in ABSTRACT:
        subclasses = [k for k in KIND if c in ancestors(k)]
        if c in public and not subclasses:
            terr("events.py: %s has no concrete subclass any more" % c)
    pinned(find(find(tree.body, "EventType", ast.ClassDef).body, "handle"),
           "def handle(self, event):\n    for handler in self._handlers:\n        handler(event)\n", "EventType.handle")
    pinned(find(find(tree.body, "EventType", ast.ClassDef).body, "subscribe"),
           "def subscribe(self, handler):\n    self._handlers.append(handler)\n", "EventType.subscribe")
    pinned(find(find(tree.body, "EventManager", ast.ClassDef).body, "add_listener"),
           "def add_listener(self, listener):\n    for event_name in self._event_types:\n"
           "        handler_name = 'on_%s' % event_name\n        handler = getattr(listener, handler_name, None)\n"
           "        if handler and callable(handler):\n            self.subscribe_to_event(event_name, handler)\n",
           "EventManager.add_listener")
    pinned(find(find(tree.body, "EventManager", ast.ClassDef).body, "handle_event"),
           "def handle_event(self, event):\n    self._event_types[event.__class__.get_name()].handle(event)\n",
           "EventManager.handle_event")
    # one handler thread consumes the queue and handles one event at a time (what makes a save see whole events)
    aem = find(tree.body, "AsyncEventManager", ast.ClassDef)
    he = find(aem.body, "handle_events", ast.FunctionDef)
    threads = [n for n in ast.walk(tree) if isinstance(n, ast.Call) and ast.unparse(n.func) in ("threading.Thread", "Thread")]
    if len(threads) != 1 or threads[0] not in list(ast.walk(he)) or ast.unparse(threads[0]) != "threading.Thread(target=self._handler_loop)":
        terr("events.py: expected exactly one thread, threading.Thread(target=self._handler_loop), started by handle_events", he)
    hl = find(aem.body, "_handler_loop", ast.FunctionDef)
    gets = [n for n in ast.walk(hl) if isinstance(n, ast.Assign) and ast.unparse(n) == "event = self._queue.get()"]
    handles = [n for n in ast.walk(hl) if isinstance(n, ast.Call) and ast.unparse(n.func).endswith("handle_event")]
    if len(gets) != 1 or len(handles) != 1 or ast.unparse(handles[0]) != "self.handle_event(event)" \
            or not (len(hl.body) == 1 and isinstance(hl.body[0], ast.While)):
        terr("AsyncEventManager._handler_loop: expected one loop doing `event = self._queue.get()` ... `self.handle_event(event)`", hl)
    return lambda cls: sorted((KIND[k] for k in KIND if cls in ancestors(k)), key=list(KIND.values()).index)


def isinstance_classes(expr, argname):
    """`isinstance(<argname>, C)` or `isinstance(<argname>, (C1, C2))` -> [class names]"""
    if not (isinstance(expr, ast.Call) and isinstance(expr.func, ast.Name) and expr.func.id == "isinstance"
            and len(expr.args) == 2 and not expr.keywords and isinstance(expr.args[0], ast.Name) and expr.args[0].id == argname):
        terr("expected isinstance(%s, <class>)" % argname, expr)
    c = expr.args[1]
    if isinstance(c, ast.Name):
        return [c.id]
    if isinstance(c, ast.Tuple) and all(isinstance(x, ast.Name) for x in c.elts):
        return [x.id for x in c.elts]
    terr("isinstance: class expression not recognised", expr)


# ------------------------------------------------------------------------------------------------ savingstrategy.py
def saving_strategy(repo, expand):
    tree = parse(repo, "reporting/savingstrategy.py")
    out = {}
    d = find(tree.body, "DEFAULT_REPORT_SAVING_STRATEGY", ast.Assign)
    if not (isinstance(d.value, ast.Constant) and isinstance(d.value.value, str)):
        terr("DEFAULT_REPORT_SAVING_STRATEGY is not a string literal", d)
    out["default"] = d.value.value

    f = strip_doc(find(tree.body, "_is_end_of_result_event", ast.FunctionDef))
    if [a.arg for a in f.args.args] != ["event"]:
        terr("_is_end_of_result_event: unexpected parameters", f)
    rows = []
    body = list(f.body)
    last = body.pop()
    if not (isinstance(last, ast.Return) and isinstance(last.value, ast.Constant) and last.value.value is None):
        terr("_is_end_of_result_event must end with `return None`", last)
    for st in body:
        if not (isinstance(st, ast.If) and not st.orelse and len(st.body) == 1 and isinstance(st.body[0], ast.Return)):
            terr("_is_end_of_result_event: expected `if isinstance(event, K): return ReportLocation.in_x(..)`", st)
        classes = isinstance_classes(st.test, "event")
        call = st.body[0].value
        if not (isinstance(call, ast.Call) and isinstance(call.func, ast.Attribute) and isinstance(call.func.value, ast.Name)
                and call.func.value.id == "ReportLocation" and call.func.attr in LOCCTOR and not call.keywords):
            terr("_is_end_of_result_event: unknown location constructor", st)
        ctor, attr = LOCCTOR[call.func.attr]
        if attr is None:
            if call.args:
                terr("_is_end_of_result_event: %s takes no argument" % call.func.attr, st)
        else:
            if not (len(call.args) == 1 and isinstance(call.args[0], ast.Attribute) and isinstance(call.args[0].value, ast.Name)
                    and call.args[0].value.id == "event" and call.args[0].attr == attr):
                terr("_is_end_of_result_event: expected event.%s as the argument" % attr, st)
        for c in classes:
            kinds = expand(c)
            if not kinds:
                terr("_is_end_of_result_event: %s has no concrete event class" % c, st)
            for k in kinds:
                # event.suite exists on suite events only, event.test on test events only (else AttributeError at run time)
                if attr == "suite" and not k.startswith("KSuite"):
                    terr("_is_end_of_result_event: event.suite read on %s" % k, st)
                if attr == "test" and not k.startswith("KTest"):
                    terr("_is_end_of_result_event: event.test read on %s" % k, st)
                rows.append((k, ctor))
    out["end_of_result"] = rows

    def isinstance_strategy(name):
        g = strip_doc(find(tree.body, name, ast.FunctionDef))
        if len(g.args.args) != 3 or g.args.args[0].arg != "event":
            terr("%s: unexpected parameters" % name, g)
        if not (len(g.body) == 1 and isinstance(g.body[0], ast.Return)):
            terr("%s: expected a single `return isinstance(event, K)`" % name, g)
        kinds = []
        for c in isinstance_classes(g.body[0].value, "event"):
            kinds += expand(c)
        return kinds
    out["suite_kinds"] = isinstance_strategy("save_at_each_suite_strategy")
    out["log_kinds"] = isinstance_strategy("save_at_each_log_strategy")

    pinned(find(tree.body, "save_at_each_test_strategy"),
           "def save_at_each_test_strategy(event, _, __):\n    return _is_end_of_result_event(event) is not None\n",
           "save_at_each_test_strategy")
    pinned(find(tree.body, "save_at_each_failed_test_strategy"),
           "def save_at_each_failed_test_strategy(event, report, _):\n"
           "    location = _is_end_of_result_event(event)\n"
           "    if location:\n"
           "        result = report.get(location)\n"
           "        return result and result.status == 'failed'\n"
           "    else:\n"
           "        return False\n", "save_at_each_failed_test_strategy")
    pinned(find(tree.body, "SaveAtInterval"),
           "class SaveAtInterval:\n"
           "    def __init__(self, interval):\n"
           "        self.interval = interval\n"
           "    def __call__(self, event, report, last_saved_time):\n"
           "        return last_saved_time + self.interval < time.time()\n", "SaveAtInterval")

    m = strip_doc(find(tree.body, "make_report_saving_strategy", ast.FunctionDef))
    if not (m.body and isinstance(m.body[0], ast.Assign) and len(m.body[0].targets) == 1
            and isinstance(m.body[0].targets[0], ast.Name) and m.body[0].targets[0].id == "static_expressions"
            and isinstance(m.body[0].value, ast.Dict)):
        terr("make_report_saving_strategy: first statement must be the static_expressions dict literal", m)
    names = []
    for k, v in zip(m.body[0].value.keys, m.body[0].value.values):
        if not (isinstance(k, ast.Constant) and isinstance(k.value, str)):
            terr("static_expressions: key is not a string literal", k)
        if isinstance(v, ast.Constant) and v.value is None:
            names.append((k.value, None))
        elif isinstance(v, ast.Name) and v.id in SFUN:
            names.append((k.value, SFUN[v.id]))
        else:
            terr("static_expressions: value is neither None nor a known strategy function", v)
    if len(set(n for n, _ in names)) != len(names):
        terr("static_expressions: duplicate key")
    out["names"] = names
    import copy
    rest = copy.deepcopy(m)
    rest.name = "rest"
    rest.body = rest.body[1:]
    pinned(rest,
           "def rest(expression):\n"
           "    try:\n"
           "        return static_expressions[expression]\n"
           "    except KeyError:\n"
           "        pass\n"
           "    m = re.compile('^every[_ ](\\\\d+)s$').match(expression)\n"
           "    if m:\n"
           "        return SaveAtInterval(int(m.group(1)))\n"
           "    raise ValueError(\"Invalid expression '%s' for report saving strategy\" % expression)\n",
           "make_report_saving_strategy (after the table)")
    return out


# ------------------------------------------------------------------------------------------------ backend.py
ATOMIC_WRITE = (
    "@contextmanager\n"
    "def atomic_write(filename):\n"
    "    tmp_filename = filename + '.tmp'\n"
    "    try:\n"
    "        with open(tmp_filename, 'w') as fh:\n"
    "            yield fh\n"
    "            fh.flush()\n"
    "            os.fsync(fh.fileno())\n"
    "        os.replace(tmp_filename, filename)\n"
    "    except BaseException:\n"
    "        try:\n"
    "            os.remove(tmp_filename)\n"
    "        except OSError:\n"
    "            pass\n"
    "        raise\n")


def file_session(repo):
    tree = parse(repo, "reporting/backend.py")
    cls = strip_doc(find(tree.body, "FileReportSession", ast.ClassDef))
    if [ast.unparse(b) for b in cls.bases] != ["ReportingSession"]:
        terr("FileReportSession: unexpected bases", cls)
    kinds = []
    seen_defs = set()
    for st in cls.body:
        if isinstance(st, ast.FunctionDef):
            seen_defs.add(st.name)
            if st.name == "__init__":
                pinned(st, "def __init__(self, path, report, backend, saving_strategy):\n"
                           "    self.path = path\n    self.report = report\n    self.backend = backend\n"
                           "    self.saving_strategy = saving_strategy\n    self.last_saved_time = time.time()\n",
                       "FileReportSession.__init__")
            elif st.name == "_save":
                pinned(st, "def _save(self):\n    self.backend.save_report(self.path, self.report)\n"
                           "    self.last_saved_time = time.time()\n", "FileReportSession._save")
            elif st.name == "_handle_event":
                pinned(st, "def _handle_event(self, event):\n"
                           "    report_must_be_saved = self.saving_strategy and "
                           "self.saving_strategy(event, self.report, self.last_saved_time)\n"
                           "    if report_must_be_saved:\n        self._save()\n", "FileReportSession._handle_event")
            elif st.name == "on_test_session_end":
                pinned(st, "def on_test_session_end(self, event):\n    self._save()\n", "FileReportSession.on_test_session_end")
            else:
                terr("FileReportSession: method %s is not modelled" % st.name, st)
        elif isinstance(st, ast.Assign):
            if not (len(st.targets) == 1 and isinstance(st.targets[0], ast.Name) and st.targets[0].id.startswith("on_")
                    and isinstance(st.value, ast.Name) and st.value.id == "_handle_event"):
                terr("FileReportSession: expected `on_<event> = _handle_event`", st)
            name = st.targets[0].id[3:]
            if name not in HANDLER:
                terr("FileReportSession: on_%s does not name a concrete event" % name, st)
            if HANDLER[name] == "KSessionEnd":
                terr("FileReportSession: on_test_session_end assigned twice", st)
            kinds.append(HANDLER[name])
        elif isinstance(st, ast.Pass):
            pass
        else:
            terr("FileReportSession: statement not recognised", st)
    for need in ("__init__", "_save", "_handle_event", "on_test_session_end"):
        if need not in seen_defs:
            terr("FileReportSession.%s is missing" % need, cls)
    if len(set(kinds)) != len(kinds):
        terr("FileReportSession: an on_<event> attribute is assigned twice", cls)
    fb = find(tree.body, "FileReportBackend", ast.ClassDef)
    pinned(find(fb.body, "create_reporting_session"),
           "def create_reporting_session(self, report_dir, report, parallel, report_saving_strategy):\n"
           "    return FileReportSession(os.path.join(report_dir, self.get_report_filename()), report, self, "
           "report_saving_strategy)\n", "FileReportBackend.create_reporting_session")
    has_atomic = any(isinstance(n, ast.FunctionDef) and n.name == "atomic_write" for n in tree.body)
    if has_atomic:
        pinned(find(tree.body, "atomic_write", ast.FunctionDef), ATOMIC_WRITE, "reporting.backend.atomic_write")
    return kinds, has_atomic


def session_create(repo):
    tree = parse(repo, "session.py")
    cls = find(tree.body, "Session", ast.ClassDef)
    f = strip_doc(find(cls.body, "create", ast.FunctionDef))
    # the order of add_listener calls: ReportWriter(report) first, then one session per backend in list order
    calls = []
    for n in ast.walk(f):
        if isinstance(n, ast.Call) and isinstance(n.func, ast.Attribute) and n.func.attr == "add_listener":
            calls.append(n)
    calls.sort(key=lambda n: (n.lineno, n.col_offset))
    if len(calls) != 2:
        terr("Session.create: expected exactly two add_listener calls", f)
    if ast.unparse(calls[0]) != "event_manager.add_listener(ReportWriter(report))":
        terr("Session.create: the first listener is not ReportWriter(report)", calls[0])
    if ast.unparse(calls[1]) != ("event_manager.add_listener(backend.create_reporting_session(report_dir, report, "
                                 "parallelized, report_saving_strategy))"):
        terr("Session.create: the second add_listener is not the backend session", calls[1])
    loops = [n for n in f.body if isinstance(n, ast.For)]
    if not (len(loops) == 1 and ast.unparse(loops[0].target) == "backend" and ast.unparse(loops[0].iter) == "reporting_backends"
            and calls[1] in list(ast.walk(loops[0])) and calls[0] not in list(ast.walk(loops[0]))):
        terr("Session.create: the backend sessions are not added by `for backend in reporting_backends` after the writer", f)
    # the writer and the sessions share the same Report object
    if "report = Report()" not in [ast.unparse(s) for s in f.body]:
        terr("Session.create: `report = Report()` not found", f)
    # ReportWriter has a handler for every concrete event
    wtree = parse(repo, "reporting/writer.py")
    w = find(wtree.body, "ReportWriter", ast.ClassDef)
    have = {n.name[3:] for n in w.body if isinstance(n, ast.FunctionDef) and n.name.startswith("on_")}
    if have != set(HANDLER):
        terr("ReportWriter: handlers %s differ from the concrete events" % sorted(have ^ set(HANDLER)))


def save_shape(repo, rel, has_atomic):
    tree = parse(repo, rel)
    f = strip_doc(find(tree.body, "save_report_into_file", ast.FunctionDef))
    withs = [n for n in ast.walk(f) if isinstance(n, ast.With)]
    opens = [n for n in ast.walk(f) if isinstance(n, ast.Call) and isinstance(n.func, ast.Name) and n.func.id in ("open", "atomic_write")]
    if len(withs) != 1 or len(opens) != 1 or len(withs[0].items) != 1 or withs[0].items[0].context_expr is not opens[0]:
        terr("%s save_report_into_file: expected exactly one `with open(..)/atomic_write(..) as fh`" % rel, f)
    if ast.unparse(withs[0].items[0].optional_vars) != "fh":
        terr("%s save_report_into_file: the handle is not named fh" % rel, f)
    # everything written goes through fh.write inside the with block; nothing else touches the file system
    for n in ast.walk(f):
        if isinstance(n, ast.Call):
            fn = ast.unparse(n.func)
            if fn.startswith("os.") or fn.startswith("shutil.") or fn in ("fh.close", "fh.truncate", "fh.seek"):
                terr("%s save_report_into_file: unexpected file-system call" % rel, n)
    call = opens[0]
    src = ast.unparse(call)
    if src == "open(filename, 'w')":
        return "inplace"
    if src == "atomic_write(filename)":
        if not has_atomic:
            terr("%s: atomic_write is used but reporting/backend.py does not define it" % rel, call)
        imported = any(isinstance(n, ast.ImportFrom) and n.module == "lemoncheesecake.reporting.backend"
                       and any(a.name == "atomic_write" and a.asname is None for a in n.names) for n in tree.body)
        if not imported:
            terr("%s: atomic_write is not imported from lemoncheesecake.reporting.backend" % rel, call)
        return "atomic"
    terr("%s save_report_into_file: the file is opened in a way the model does not know" % rel, call)


def c_str(s):
    return "[" + "; ".join("%d" % ord(ch) for ch in s) + "]%N"


def generate(repo):
    expand = event_hierarchy(repo)
    st = saving_strategy(repo, expand)
    kinds, has_atomic = file_session(repo)
    session_create(repo)
    shapes = {b: save_shape(repo, "reporting/backends/%s.py" % f, has_atomic)
              for b, f in (("json", "json_"), ("xml", "xml"), ("junit", "junit"))}
    out = [
        "(* GENERATED by harness/tables_saving.py from lemoncheesecake/reporting/savingstrategy.py, reporting/backend.py,",
        "   session.py, events.py, reporting/backends/{json_,xml,junit}.py -- DO NOT EDIT: regenerated by every check run. *)",
        "From Coq Require Import List NArith ZArith.", "Import ListNotations.",
        "From LCC Require Import Model.Report Model.Saving Model.CrashFS.", "",
        "Definition T : tables := mkTables",
        "  (* on_<event> = _handle_event *) [%s]" % "; ".join(kinds),
        "  (* _is_end_of_result_event *) [%s]" % "; ".join("(%s, %s)" % r for r in st["end_of_result"]),
        "  (* save_at_each_suite_strategy *) [%s]" % "; ".join(st["suite_kinds"]),
        "  (* save_at_each_log_strategy *) [%s]" % "; ".join(st["log_kinds"]),
        "  (* static_expressions *) [%s]" % ";\n     ".join(
            "(%s (* %s *), %s)" % (c_str(n), n, "None" if f is None else "Some %s" % f) for n, f in st["names"]),
        "  (* DEFAULT_REPORT_SAVING_STRATEGY = %s *) %s." % (st["default"], c_str(st["default"])), "",
        "(* Session.create subscribes ReportWriter(report) first, then one session per backend (checked by the translator) *)",
        "Definition listeners : list listener := [LWriter; LFile].", "",
    ]
    for b in ("json", "xml", "junit"):
        if shapes[b] == "atomic":
            out.append("Definition save_ops_%s (tmp final : fpath) (chunks : list data) : list op := save_atomic tmp final chunks." % b)
        else:
            out.append("Definition save_ops_%s (tmp final : fpath) (chunks : list data) : list op := save_inplace final chunks." % b)
    return {"TablesSaving.v": "\n".join(out) + "\n"}


if __name__ == "__main__":
    import sys
    print(generate(sys.argv[1] if len(sys.argv) > 1 else os.environ.get("VERIF_REPO", "/repo"))["TablesSaving.v"])
