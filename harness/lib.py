"""Common machinery of the checks: Coq build and obligations, audit, case files evaluated inside Coq,
verdict / known findings / evidence.  See DESIGN.md section 2.2 and 8."""
import fcntl
import glob
import json
import os
import random
import re
import shutil
import subprocess
import sys
import tempfile
import time
from concurrent.futures import ThreadPoolExecutor

ROOT = os.path.dirname(os.path.dirname(os.path.abspath(__file__)))
COQ = os.path.join(ROOT, "coq")
TH = os.path.join(COQ, "theories")
REPO = os.environ.get("VERIF_REPO", "/repo")
PY = "/venv/bin/python"
LOCK = os.path.join(ROOT, ".build.lock")
NCPU = min(16, os.cpu_count() or 4)

FORBIDDEN = re.compile(
    r"\b(Admitted|admit|Axiom|Axioms|Parameter|Parameters|Conjecture|Conjectures)\b"
    r"|Unset\s+Guard|Unset\s+Positivity|Unset\s+Universe|bypass_check|type-in-type|impredicative-set"
    r"|Admit\s+Obligations|\bgive_up\b|\bhammer\b")


def strip_comments(src):
    """Remove (* ... *) comments (nested) from Coq source."""
    out, depth, i, n = [], 0, 0, len(src)
    while i < n:
        if src.startswith("(*", i):
            depth += 1
            i += 2
        elif src.startswith("*)", i) and depth > 0:
            depth -= 1
            i += 2
        else:
            if depth == 0:
                out.append(src[i])
            elif src[i] == "\n":
                out.append("\n")
            i += 1
    return "".join(out)


def dep_closure(start_files):
    """Transitive closure of `From LCC Require ...` / `Require Import LCC....` dependencies inside theories/."""
    seen, todo = set(), list(start_files)
    while todo:
        f = todo.pop()
        if f in seen or not os.path.exists(f):
            continue
        seen.add(f)
        src = strip_comments(open(f, encoding="utf-8").read())
        for m in re.finditer(r"From\s+LCC\s+Require\s+(?:Import\s+|Export\s+)?(.*?)\.(?:\s|$)", src, re.S):
            for mod in m.group(1).split():
                todo.append(os.path.join(TH, *mod.split(".")) + ".v")
        for m in re.finditer(r"\bLCC\.([A-Za-z_]\w*(?:\.[A-Za-z_]\w*)*)", src):
            todo.append(os.path.join(TH, *m.group(1).split(".")) + ".v")
    return sorted(seen)


def audit_sources(prop=None):
    """Grep the development (the dependency closure of Props/<prop>.v, or everything) for anything that would declare
    an axiom or switch off a kernel check. Returns the list of offending 'file:line: text'."""
    bad = []
    if prop:
        files = dep_closure([os.path.join(TH, "Props", prop + ".v")])
    else:
        files = sorted(glob.glob(os.path.join(TH, "**", "*.v"), recursive=True))
    for path in files:
        if os.sep + "Cases" + os.sep in path:
            continue
        src = strip_comments(open(path, encoding="utf-8").read())
        depth = 0
        for ln, line in enumerate(src.split("\n"), 1):
            if re.match(r"\s*(Section|Module)\s+\w+\s*\.", line):
                depth += 1
            elif re.match(r"\s*End\s+\w+\s*\.", line):
                depth = max(0, depth - 1)
            if FORBIDDEN.search(line):
                bad.append("%s:%d: %s" % (os.path.relpath(path, ROOT), ln, line.strip()))
            if depth == 0 and re.match(r"\s*(Variable|Variables|Hypothesis|Hypotheses|Context)\b", line):
                bad.append("%s:%d: %s (outside a section)" % (os.path.relpath(path, ROOT), ln, line.strip()))
    return bad


def sh(cmd, timeout=600, cwd=None, env=None):
    try:
        p = subprocess.run(cmd, shell=isinstance(cmd, str), cwd=cwd, env=env, timeout=timeout,
                           stdout=subprocess.PIPE, stderr=subprocess.STDOUT, text=True, errors="replace")
        return p.returncode, p.stdout
    except subprocess.TimeoutExpired as e:
        out = e.stdout or ""
        if isinstance(out, bytes):
            out = out.decode("utf-8", "replace")
        return 124, out + "\n[timeout after %ss]" % timeout


class BuildLock:
    def __enter__(self):
        self.f = open(LOCK, "w")
        fcntl.flock(self.f, fcntl.LOCK_EX)
        return self

    def __exit__(self, *a):
        fcntl.flock(self.f, fcntl.LOCK_UN)
        self.f.close()


def coq_sources():
    files = []
    for sub in ("Base", "gen", "Model", "Proofs", "Props"):
        files += sorted(glob.glob(os.path.join(TH, sub, "*.v")))
    return [os.path.relpath(f, COQ) for f in files]


def ensure_makefile():
    """(Re)generate _CoqProject and the coq_makefile Makefile when the list of sources changed."""
    want = "-Q theories LCC\n" + "\n".join(coq_sources()) + "\n"
    cp = os.path.join(COQ, "_CoqProject")
    have = open(cp).read() if os.path.exists(cp) else None
    if have != want or not os.path.exists(os.path.join(COQ, "Makefile")):
        open(cp, "w").write(want)
        rc, out = sh("coq_makefile -f _CoqProject -o Makefile", cwd=COQ, timeout=120)
        if rc != 0:
            raise RuntimeError("coq_makefile failed:\n" + out)


def make(targets, timeout=1500):
    """Full .vo build (never -vos/-vok) of the given targets (paths relative to coq/), under the build lock."""
    with BuildLock():
        ensure_makefile()
        rc, out = sh(["make", "-j%d" % NCPU, "-k"] + list(targets), cwd=COQ, timeout=timeout)
    return rc, out


def failed_files(make_output):
    """Files whose compilation failed, with the error text, from coqc's messages in make's output."""
    res = []
    for m in re.finditer(r'File "\./?([^"]+)", line (\d+), characters [\d-]+:\s*\n(Error:?.*?)(?=\n(?:make|COQC|File |\Z))',
                         make_output, re.S):
        res.append({"file": m.group(1), "line": int(m.group(2)), "error": m.group(3).strip()[:1500]})
    return res


def theorem_names(props_file):
    src = strip_comments(open(props_file, encoding="utf-8").read())
    return re.findall(r"^\s*Theorem\s+(\w+)", src, re.M)


def example_names(props_file):
    src = strip_comments(open(props_file, encoding="utf-8").read())
    return re.findall(r"^\s*Example\s+(\w+)", src, re.M)


def check_props_file(prop, scratch):
    """Compile Props/<prop>.v on its own and collect, per theorem, what Print Assumptions reports.
    Returns (ok, {theorem: 'closed' | [axioms]}, raw output)."""
    src = os.path.join(TH, "Props", prop + ".v")
    out_vo = os.path.join(scratch, prop + ".vo")
    rc, out = sh(["coqc", "-Q", "theories", "LCC", "-o", out_vo, os.path.relpath(src, COQ)], cwd=COQ, timeout=900)
    names = theorem_names(src)
    # Print Assumptions output blocks come in order, one per `Print Assumptions` command
    text = strip_comments(open(src, encoding="utf-8").read())
    printed = re.findall(r"Print\s+Assumptions\s+(\w+)\s*\.", text)
    blocks = []
    cur = None
    for line in out.split("\n"):
        if line.startswith("Closed under the global context"):
            blocks.append("closed")
            cur = None
        elif line.startswith("Axioms:"):
            cur = []
            blocks.append(cur)
        elif cur is not None and line.strip():
            m = re.match(r"^(\S+)\s*:", line)
            if m:
                cur.append(m.group(1))
        elif cur is not None and not line.strip():
            cur = None
    assumptions = {}
    for i, name in enumerate(printed):
        if i < len(blocks):
            assumptions[name] = blocks[i]
    return rc == 0, names, assumptions, out


# ---------------------------------------------------------------- Gallina printers
def c_nat(n):
    assert isinstance(n, int) and 0 <= n < 5000, n
    return str(n)


def c_N(n):
    assert isinstance(n, int) and n >= 0
    return "%d%%N" % n


def c_Z(n):
    assert isinstance(n, int)
    return "(%d)%%Z" % n


def c_bool(b):
    return "true" if b else "false"


def c_opt(x, f):
    return "None" if x is None else "(Some %s)" % f(x)


def c_list(xs, f):
    return "[" + "; ".join(f(x) for x in xs) + "]"


def c_pair(p, f, g):
    return "(%s, %s)" % (f(p[0]), g(p[1]))


def c_str(s):
    """Python str -> list N of code points."""
    return "[" + "; ".join("%d" % ord(ch) for ch in s) + "]%N"


def parse_nat_list(out):
    """Parse the `= [..] : list nat` printed by Eval vm_compute."""
    m = re.search(r"=\s*(\[[^\]]*\]|nil)\s*:\s*list nat", out, re.S)
    if not m:
        return None
    body = m.group(1)
    if body == "nil":
        return []
    body = body.strip()[1:-1].strip()
    if not body:
        return []
    return [int(x) for x in re.split(r"\s*;\s*", body)]


class Run:
    """One invocation of a check."""

    def __init__(self, prop, tier, seed, level="proof"):
        self.prop, self.tier, self.seed, self.level = prop, tier, seed, level
        self.t0 = time.time()
        self.rng = random.Random(seed)
        self.scratch = tempfile.mkdtemp(prefix="lccverif_%s_" % prop)
        self.obligations = []          # theorem names
        self.discharged = []
        self.assumptions = {}
        self.broken = []               # broken obligations / correspondences: dicts
        self.oracle_hits = []          # property violations seen on the implementation: dicts with 'signature'
        self.notes = []
        self.coverage = {}
        self.samples = []
        self.case_files = 0
        self.evaluations = 0
        self.nontrivial = set()
        self.dist = {}
        self.trusted = [
            "Coq 8.16.1 kernel (coqc, full .vo build); vm_compute in correspondence case files and in witness Examples; no native_compute",
            "correspondence harness (Python generators, drivers, Gallina printers, canonicalisation) in /verif/harness",
        ]
        self.assume = []

    # ------------------------------------------------------------ proof obligations
    def prove(self, extra_targets=()):
        prop = self.prop
        props_rel = os.path.join("theories", "Props", prop + ".vo")
        t = time.time()
        self.model_ok = False
        try:
            import tables
            with BuildLock():
                self.generated = [os.path.relpath(f, ROOT) for f in tables.regenerate(prop)]
        except Exception as e:   # fail-closed translator: an unrecognised source shape is a broken tie
            self.broken.append({"kind": "translator", "what": "table regeneration from %s failed: %s: %s" % (REPO, type(e).__name__, e)})
            self.generated = []
        rc, out = make([props_rel] + list(extra_targets))
        self.obligations = theorem_names(os.path.join(TH, "Props", prop + ".v"))
        self.examples = example_names(os.path.join(TH, "Props", prop + ".v"))
        if rc != 0:
            ff = failed_files(out)
            self.broken.append({"kind": "proof", "what": "make %s failed" % props_rel, "failed": ff,
                                "log_tail": out[-3000:]})
            self.model_ok = all(os.path.exists(os.path.join(COQ, t)) for t in extra_targets) and \
                not any(f["file"].startswith(("theories/Model", "theories/Base", "theories/gen")) for f in ff)
            self.notes.append("coq build failed in %.1fs" % (time.time() - t))
            return False
        ok, names, assumptions, raw = check_props_file(prop, self.scratch)
        self.assumptions = assumptions
        if not ok:
            self.broken.append({"kind": "proof", "what": "Props/%s.v does not compile" % prop, "log_tail": raw[-3000:]})
            self.model_ok = True
            return False
        self.discharged = [n for n in names if n in assumptions]
        missing = [n for n in names if n not in assumptions]
        if missing:
            self.broken.append({"kind": "proof", "what": "no Print Assumptions output for %s" % missing})
        bad = audit_sources(prop)
        self.audited_files = [os.path.relpath(f, ROOT) for f in dep_closure([os.path.join(TH, 'Props', prop + '.v')])]
        if bad:
            self.broken.append({"kind": "audit", "what": "forbidden declarations", "lines": bad[:20]})
        self.model_ok = True
        self.notes.append("coq obligations checked in %.1fs" % (time.time() - t))
        chk_ok = True
        if self.tier == "thorough" or os.environ.get("VERIF_COQCHK") == "1":
            chk_ok = self.coqchk()
        return not missing and not bad and chk_ok

    def coqchk(self):
        """Independent re-check of the compiled theorems of this property and of everything they depend on (coqchk), with the
        list of axioms, type-in-type / unsafe fixpoint / assumed-positivity uses it reports (-o).  Thorough tier only."""
        t = time.time()
        rc, out = sh("ulimit -s unlimited 2>/dev/null; exec coqchk -silent -o -Q theories LCC LCC.Props.%s" % self.prop,
                     cwd=COQ, timeout=3000)
        summary = {}
        cur = None
        for line in out.splitlines():
            m = re.match(r"^\* ([^:]+):\s*(.*)$", line.strip())
            if m:
                cur = m.group(1).strip()
                summary[cur] = m.group(2).strip()
            elif cur and line.strip() and not line.startswith("CONTEXT") and not line.startswith("="):
                summary[cur] = (summary[cur] + " " + line.strip()).strip()
        self.coqchk_summary = summary
        self.trusted.append("coqchk -o LCC.Props.%s (rc=%d, %.0fs): %s" % (self.prop, rc, time.time() - t, json.dumps(summary, sort_keys=True)))
        bad = [k for k, v in summary.items() if k != "Theory" and v and v != "<none>"]
        if rc != 0 or not summary or bad:
            self.broken.append({"kind": "proof", "what": "coqchk does not accept Props/%s.vo or reports assumptions: %s" % (self.prop, bad or "no summary"),
                                "log_tail": out[-2000:]})
            return False
        return True

    def _model_built(self):
        return True

    # ------------------------------------------------------------ evaluation inside Coq
    def coq_eval(self, name, text, timeout=900):
        """Compile a generated case file; returns (rc, output)."""
        d = os.path.join(TH, "Cases")
        os.makedirs(d, exist_ok=True)
        base = "%s_%s_%d" % (self.prop, name, os.getpid())
        path = os.path.join(d, base + ".v")
        with open(path, "w", encoding="utf-8") as f:
            f.write(text)
        try:
            rc, out = sh("ulimit -s unlimited 2>/dev/null; exec coqc -Q theories LCC theories/Cases/%s.v" % base,
                         cwd=COQ, timeout=timeout)
        finally:
            for ext in (".v", ".vo", ".glob", ".vok", ".vos"):
                try:
                    os.unlink(os.path.join(d, base + ext))
                except OSError:
                    pass
            try:
                os.unlink(os.path.join(d, "." + base + ".aux"))
            except OSError:
                pass
        self.case_files += 1
        return rc, out

    def coq_eval_many(self, texts, timeout=900):
        """texts: list of (name, text). Runs them in parallel; returns list of (rc, out)."""
        with ThreadPoolExecutor(max_workers=max(1, NCPU // 2)) as ex:
            return list(ex.map(lambda nt: self.coq_eval(nt[0], nt[1], timeout), texts))

    # ------------------------------------------------------------ bookkeeping
    def count(self, key, n=1):
        self.dist[key] = self.dist.get(key, 0) + n

    def sample(self, s, limit=5):
        if len(self.samples) < limit:
            self.samples.append(s)

    def tie_broken(self, relation, case=None, model=None, impl=None, detail=None):
        self.broken.append({"kind": "correspondence", "what": relation, "case": case, "model": model, "impl": impl,
                            "detail": detail})

    def violation(self, signature, what, replay):
        """A concrete failing input on the implementation (from an oracle)."""
        for h in self.oracle_hits:
            if h["signature"] == signature:
                return
        self.oracle_hits.append({"signature": signature, "what": what, "replay": replay})

    # ------------------------------------------------------------ verdict
    def finish(self, coverage_extra=None, checker_cmd=None):
        prop = self.prop
        if self.evaluations == 0 and not self.broken:
            # a check that exercised the implementation on nothing has shown nothing: never "ok"
            self.broken.append({"kind": "correspondence", "what": "no case at all was evaluated on the implementation: the model is not tied "
                                                                 "to the code by this run"})
        kf = load_findings()
        known = {f["signature"]: f for f in kf.get("findings", []) if f["property"] == prop}
        lines = []
        violations = 0
        os.makedirs(os.path.join(ROOT, "replays"), exist_ok=True)
        for old in glob.glob(os.path.join(ROOT, "replays", "%s_%s_*.json" % (prop, self.tier))):
            os.unlink(old)
        unlisted = [h for h in self.oracle_hits if h["signature"] not in known]
        listed = [h for h in self.oracle_hits if h["signature"] in known]
        for h in listed:
            lines.append("KNOWN-FINDING: property=%s %s [%s]" % (prop, known[h["signature"]]["what"], h["signature"]))
        for i, h in enumerate(unlisted):
            path = os.path.join(ROOT, "replays", "%s_%s_%d.json" % (prop, self.tier, i))
            json.dump({"property": prop, "kind": "failing-input", "signature": h["signature"], "what": h["what"],
                       "replay": h["replay"], "seed": self.seed,
                       "broken": self.broken[:3]}, open(path, "w"), indent=1, default=str)
            lines.append("VIOLATION property=%s replay=%s" % (prop, path))
            violations += 1
        if self.broken and not unlisted:
            path = os.path.join(ROOT, "replays", "%s_%s_tie.json" % (prop, self.tier))
            json.dump({"property": prop, "kind": "no-failing-input-found",
                       "what": "a proof obligation or the model/implementation correspondence no longer checks; "
                               "the property is no longer shown to hold",
                       "broken": self.broken[:10], "seed": self.seed}, open(path, "w"), indent=1, default=str)
            lines.append("VIOLATION property=%s replay=%s no-failing-input-found" % (prop, path))
            violations += 1
        cov = {
            "obligations": len(self.obligations),
            "discharged": len(self.discharged),
            "checker_cmd": checker_cmd or ("make -C coq theories/Props/%s.vo && coqc -Q theories LCC theories/Props/%s.v "
                                           "(Print Assumptions under every theorem) ; then %d generated case file(s) "
                                           "evaluated with vm_compute" % (prop, prop, self.case_files)),
            "trusted_base": self.trusted + ["Print Assumptions %s: %s" % (k, "Closed under the global context" if v == "closed" else
                                                                         "Axioms " + ", ".join(v))
                                            for k, v in sorted(self.assumptions.items())],
            "theorems": self.obligations,
            "non_vacuity_examples": getattr(self, "examples", []),
            "evaluations": self.evaluations,
            "distinct_nontrivial": len(self.nontrivial),
            "samples": self.samples or ["(no case generated: the obligations failed before the correspondence ran)"],
            "input_distribution": self.dist,
            "correspondence_mismatches": len([b for b in self.broken if b["kind"] == "correspondence"]),
            "known_findings_reproduced": [h["signature"] for h in listed],
            "notes": self.notes,
            "coq_files_audited": getattr(self, "audited_files", []),
        }
        cov.update(self.coverage)
        if coverage_extra:
            cov.update(coverage_extra)
        ev = {"property_id": prop, "tier": self.tier, "seed": self.seed, "level": self.level, "coverage": cov,
              "assumptions": self.assume, "wall_s": round(time.time() - self.t0, 2), "violations": violations}
        os.makedirs(os.path.join(ROOT, "evidence"), exist_ok=True)
        json.dump(ev, open(os.path.join(ROOT, "evidence", prop + ".json"), "w"), indent=1, default=str)
        for l in lines:
            print(l)
        print("%s %s tier=%s seed=%d obligations=%d/%d cases=%d nontrivial=%d mismatches=%d wall=%.1fs" % (
            prop, "FAIL" if violations else "ok", self.tier, self.seed, len(self.discharged), len(self.obligations),
            self.evaluations, len(self.nontrivial), cov["correspondence_mismatches"], time.time() - self.t0))
        shutil.rmtree(self.scratch, ignore_errors=True)
        sys.stdout.flush()
        return 1 if violations else 0


def load_findings():
    res = {"findings": [], "fixed": []}
    for p in [os.path.join(ROOT, "known_findings.json")] + sorted(glob.glob(os.path.join(ROOT, "known_findings.d", "*.json"))):
        if os.path.exists(p):
            d = json.load(open(p))
            res["findings"] += d.get("findings", [])
            res["fixed"] += d.get("fixed", [])
    return res


def run_impl(script, payload, timeout=600):
    """Run an implementation driver in a fresh subprocess of /venv's python against REPO.
    `script` is a path under harness/; payload is JSON on stdin; result JSON on stdout (last line)."""
    env = dict(os.environ)
    env.update({"PYTHONPATH": REPO + os.pathsep + os.path.join(ROOT, "harness"), "PYTHONHASHSEED": "0",
                "PYTHONDONTWRITEBYTECODE": "1", "LCC_VERIF": "1", "VERIF_REPO": REPO})
    p = subprocess.run([PY, os.path.join(ROOT, "harness", script)], input=json.dumps(payload), env=env, timeout=timeout,
                       stdout=subprocess.PIPE, stderr=subprocess.PIPE, text=True, cwd=tempfile.gettempdir())
    if p.returncode != 0:
        raise RuntimeError("driver %s failed (rc=%d):\n%s\n%s" % (script, p.returncode, p.stdout[-2000:], p.stderr[-4000:]))
    return json.loads(p.stdout.strip().split("\n")[-1])
