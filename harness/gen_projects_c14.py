"""C14 — abstract projects (valid and invalid), the builder of real lemoncheesecake objects, and the Gallina printer.

Abstract project (JSON-able):
  {"fixtures": [ {"name": int, "scope": "test|suite|session|pre_run", "params": [int], "per_thread": bool} ],
   "all_suites": [suite], "suites": [suite],            # scheduled suites = all_suites after an optional test filter
   "policy": {"props": [ {"name","values":None|[int],"on_test","on_suite","required"} ], "tags": [ {"name","on_test","on_suite"} ],
              "no_unknown_props": bool, "no_unknown_tags": bool}}
  suite = {"name": int, "disabled": bool, "setup_suite": None|[int], "teardown_suite": bool, "setup_test": bool,
           "teardown_test": bool, "injected": [int], "tests": [test], "subs": [suite], "props": [[k, v]], "tags": [int]}
  test  = {"name": int, "disabled": bool, "deps": [[int]], "args": [int], "params": [int], "props": [[k, v]], "tags": [int]}
Names are the nat ids of Model/Proj.v: 0 = "fixture_name", 1 = "cli_args", 2 = "project_dir".
"""
import copy
import re

SCOPES = ["test", "suite", "session", "pre_run"]
LEVEL = {"test": 1, "suite": 2, "session": 3, "pre_run": 4}

REASONS = ["RPolUnknownProp", "RPolForbiddenProp", "RPolMissingProp", "RPolBadValue", "RPolUnknownTag", "RPolForbiddenTag",
           "RDepUnknown", "RDepCircular", "RDepNotScheduled",
           "RFxBuiltinClash", "RFxForbiddenName", "RFxCircular", "RFxUnknownParam", "RFxPerThreadParam", "RFxScopeParam",
           "RSuiteUnknownFx", "RSuitePerThreadFx", "RSuiteScopeFx", "RTestUnknownFx"]

# the messages of the ValidationErrors, to classify what the implementation raised
MESSAGES = [
    ("RPolUnknownProp", r"the property '.*' is not allowed \("),
    ("RPolForbiddenProp", r"the property '.*' is not allowed on a "),
    ("RPolMissingProp", r"the mandatory property '.*' is missing"),
    ("RPolBadValue", r"is not among accepted values"),
    ("RPolUnknownTag", r"the tag '.*' is not allowed \("),
    ("RPolForbiddenTag", r"the tag '.*' is not allowed on a "),
    ("RDepUnknown", r"Cannot find dependency test"),
    ("RDepCircular", r"Got circular dependency on test"),
    ("RDepNotScheduled", r"is not going to be run"),
    ("RFxBuiltinClash", r"is a builtin fixture name"),
    ("RFxForbiddenName", r"Fixture name '.*' is forbidden"),
    ("RFxCircular", r"have circular dependency on a fixture"),
    ("RFxUnknownParam", r"used by fixture '.*' does not exist"),
    ("RFxPerThreadParam", r"is incompatible with per-thread fixture"),
    ("RFxScopeParam", r"is incompatible with scope"),
    ("RSuiteUnknownFx", r"uses an unknown fixture"),
    ("RSuitePerThreadFx", r"uses per-thread fixture"),
    ("RSuiteScopeFx", r"which has an incompatible scope"),
    ("RTestUnknownFx", r"Unknown fixture '.*' used in test"),
]


def classify(exc):
    """-> code: 0 accepted is never produced here; 1 + index of the reason for a ValidationError; 200+ for anything else."""
    if type(exc).__name__ != "ValidationError":
        return 200
    msg = str(exc)
    hits = [r for r, pat in MESSAGES if re.search(pat, msg)]
    if len(hits) != 1:
        return 201
    return 1 + REASONS.index(hits[0])


# ------------------------------------------------------------------------------------------------ names
# ordinary fixtures whose names are pieces of the reserved names: valid names, only equality with a reserved name matters
# (a membership test written against a string instead of a tuple would reject them)
FX_NAMES = {0: "fixture_name", 1: "cli_args", 2: "project_dir",
            3: "name", 4: "fixture", 5: "args", 6: "cli", 7: "project", 8: "dir", 9: "e"}
FX_IDS = {v: k for k, v in FX_NAMES.items()}


def fx_str(n):
    return FX_NAMES.get(n, "f%d" % n)


def path_str(p):
    return ".".join(["s%d" % x for x in p[:-1]] + ["t%d" % p[-1]]) if p else ""


def suite_path_str(p):
    return ".".join("s%d" % x for x in p)


# ------------------------------------------------------------------------------------------------ traversal
def flatten_suites(suites, prefix=(), inh=False):
    """pre-order: (path, inherited_disabled (ancestors only), suite)"""
    for s in suites:
        p = tuple(prefix) + (s["name"],)
        yield p, inh, s
        yield from flatten_suites(s["subs"], p, inh or s["disabled"])


def flatten_tests(suites):
    """(test path, disabled incl. inherited, test, suite path, suite)"""
    for p, inh, s in flatten_suites(suites):
        for t in s["tests"]:
            yield p + (t["name"],), (inh or s["disabled"] or t["disabled"]), t, p, s


def test_fixtures(t):
    return [a for a in t["args"] if a not in t["params"]]


def oset(xs):
    out = []
    for x in xs:
        if x not in out:
            out.append(x)
    return out


def suite_fixtures(s):
    return oset(list(s["injected"]) + list(s["setup_suite"] or []))


# ------------------------------------------------------------------------------------------------ generator
def gen_valid(rng, size=None):
    """A project that satisfies every rule (by construction)."""
    size = size or rng.choice([1, 2, 3, 4, 6])
    nfx = rng.randint(0, 2 + 2 * size)
    fixtures = []
    ids = list(range(3, 3 + nfx))
    rng.shuffle(ids)
    for i, n in enumerate(ids):
        scope = rng.choice(SCOPES)
        per_thread = scope in ("suite", "session") and rng.random() < 0.25
        cands = [f for f in fixtures if LEVEL[f["scope"]] >= LEVEL[scope] and (scope == "test" or not f["per_thread"])]
        if scope == "pre_run" or True:
            cands = cands + [{"name": 1}, {"name": 2}] * (1 if rng.random() < 0.3 else 0)
        k = min(len(cands), rng.choice([0, 0, 1, 1, 2, 3]))
        params = [c["name"] for c in rng.sample(cands, k)]
        if rng.random() < 0.15:
            params.insert(rng.randint(0, len(params)), 0)       # the pseudo parameter fixture_name
        fixtures.append({"name": n, "scope": scope, "params": params, "per_thread": per_thread})
    # registry insertion order is independent from the dependency order
    if rng.random() < 0.6:
        rng.shuffle(fixtures)
    if fixtures and rng.random() < 0.15:        # a second definition of the same name replaces the first one
        f = copy.deepcopy(rng.choice(fixtures))
        fixtures.insert(rng.randint(0, len(fixtures)), f)
    by_name = {}
    for f in fixtures:
        by_name[f["name"]] = f
    usable = list(by_name.values()) + [{"name": 1, "scope": "pre_run", "per_thread": False},
                                       {"name": 2, "scope": "pre_run", "per_thread": False}]
    suite_ok = [f["name"] for f in usable if LEVEL[f["scope"]] >= 2 and not f["per_thread"]]
    any_ok = [f["name"] for f in usable]

    policy, mk_md = gen_policy(rng)
    counter = [0]
    earlier_tests = []

    def gen_test(spath, dis):
        counter[0] += 1
        name = counter[0]
        k = min(len(any_ok), rng.choice([0, 0, 1, 1, 2, 3]))
        args = rng.sample(any_ok, k)
        params = []
        if rng.random() < 0.2:
            pn = 900 + rng.randint(0, 3)
            args.insert(rng.randint(0, len(args)), pn)
            params.append(pn)
        if args and rng.random() < 0.1:       # a parameter that shadows a fixture name
            params.append(args[0])
        deps = []
        if earlier_tests and rng.random() < 0.35:
            for d in rng.sample(earlier_tests, min(len(earlier_tests), rng.choice([1, 1, 2, 3]))):
                deps.append(list(d))
        t = {"name": name, "disabled": rng.random() < 0.12, "deps": deps, "args": args, "params": params}
        t.update(mk_md(rng, True))
        earlier_tests.append(tuple(spath) + (name,))
        return t

    def gen_suite(prefix, depth):
        counter[0] += 1
        name = counter[0]
        p = tuple(prefix) + (name,)
        s = {"name": name, "disabled": rng.random() < 0.1,
             "setup_suite": None, "teardown_suite": rng.random() < 0.2, "setup_test": rng.random() < 0.2,
             "teardown_test": rng.random() < 0.2, "injected": [], "tests": [], "subs": []}
        if rng.random() < 0.4:
            s["setup_suite"] = rng.sample(suite_ok, min(len(suite_ok), rng.choice([0, 1, 1, 2])))
        if rng.random() < 0.3:
            s["injected"] = rng.sample(suite_ok, min(len(suite_ok), rng.choice([1, 1, 2])))
        s.update(mk_md(rng, False))
        for _ in range(rng.choice([0, 1, 1, 2, 3]) if depth else rng.choice([1, 1, 2, 3])):
            s["tests"].append(gen_test(p, False))
        if depth < 2:
            for _ in range(rng.choice([0, 0, 0, 1, 2])):
                s["subs"].append(gen_suite(p, depth + 1))
        return s

    all_suites = [gen_suite((), 0) for _ in range(rng.choice([1, 1, 2, 3]) if size > 1 else 1)]
    proj = {"fixtures": fixtures, "all_suites": all_suites, "suites": copy.deepcopy(all_suites), "policy": policy}
    if rng.random() < 0.2:
        apply_filter(rng, proj, keep_deps=True)
    return proj


def gen_policy(rng):
    """A policy and a generator of compliant metadata."""
    if rng.random() < 0.45:
        pol = {"props": [], "tags": [], "no_unknown_props": False, "no_unknown_tags": False}
        if rng.random() < 0.5:
            return pol, lambda r, on_test: {"props": [], "tags": []}
        return pol, lambda r, on_test: {"props": [[r.randint(1, 4), r.randint(1, 4)] for _ in range(r.choice([0, 0, 1]))][:1],
                                        "tags": [r.randint(1, 4) for _ in range(r.choice([0, 0, 1, 2]))]}
    props, tags = [], []
    for n in rng.sample(range(1, 7), rng.choice([1, 2, 3])):
        on = rng.choice([(True, False), (False, True), (True, True)])
        props.append({"name": n, "values": rng.choice([None, [], [1, 2], [3], [1, 2, 3, 4]]), "on_test": on[0], "on_suite": on[1],
                      "required": rng.random() < 0.35})
    for n in rng.sample(range(1, 7), rng.choice([0, 1, 2, 3])):
        on = rng.choice([(True, False), (False, True), (True, True)])
        tags.append({"name": n, "on_test": on[0], "on_suite": on[1]})
    pol = {"props": props, "tags": tags, "no_unknown_props": rng.random() < 0.5, "no_unknown_tags": rng.random() < 0.5}

    def mk_md(r, on_test):
        key = "on_test" if on_test else "on_suite"
        ps, ts = [], []
        for p in props:
            if p[key] and (p["required"] or r.random() < 0.4):
                ps.append([p["name"], r.choice(p["values"]) if p["values"] else r.randint(1, 5)])
        if not pol["no_unknown_props"] and r.random() < 0.3:
            ps.append([r.randint(7, 9), r.randint(1, 5)])
        r.shuffle(ps)
        for t in tags:
            if t[key] and r.random() < 0.4:
                ts.append(t["name"])
        if not pol["no_unknown_tags"] and r.random() < 0.3:
            ts.append(r.randint(7, 9))
        if ts and r.random() < 0.1:
            ts.append(ts[0])
        return {"props": ps, "tags": ts}
    return pol, mk_md


def apply_filter(rng, proj, keep_deps):
    """Scheduled suites = all_suites without some tests (what `lcc run <filter>` passes to PreparedProject.create).
    keep_deps: never remove a test another kept test depends on (stays valid)."""
    needed = set()
    if keep_deps:
        for _, _, t, _, _ in flatten_tests(proj["all_suites"]):
            for d in t["deps"]:
                needed.add(tuple(d))
    suites = copy.deepcopy(proj["all_suites"])
    removed = []
    for p, _, s in list(flatten_suites(suites)):
        kept = []
        for t in s["tests"]:
            tp = p + (t["name"],)
            if tp not in needed and rng.random() < 0.4:
                removed.append(tp)
            else:
                kept.append(t)
        s["tests"] = kept
    if rng.random() < 0.5:       # the real filter also drops suites left without any test
        def prune(l):
            out = []
            for s in l:
                s["subs"] = prune(s["subs"])
                if s["tests"] or s["subs"]:
                    out.append(s)
            return out
        suites = prune(suites)
    proj["suites"] = suites
    return removed


def both(proj, path):
    """the suite/test dicts at a suite path in all_suites and (if present) in suites"""
    res = []
    for forest in (proj["all_suites"], proj["suites"]):
        for p, _, s in flatten_suites(forest):
            if p == tuple(path):
                res.append(s)
    return res


def both_tests(proj, tpath):
    res = []
    for s in both(proj, tpath[:-1]):
        for t in s["tests"]:
            if t["name"] == tpath[-1]:
                res.append(t)
    return res


MUTATIONS = ["fx_cycle", "fx_unknown_param", "fx_scope", "fx_per_thread", "fx_forbidden", "fx_builtin",
             "test_unknown_fx", "test_param_row", "suite_unknown_fx", "suite_per_thread", "suite_scope",
             "dep_unknown", "dep_cycle", "dep_lasso", "dep_filtered",
             "pol_unknown_prop", "pol_forbidden_prop", "pol_missing_prop", "pol_bad_value", "pol_unknown_tag", "pol_forbidden_tag"]


def mutate(rng, proj, kind):
    """Apply one malformation; returns a short description or None when it does not apply to this project."""
    fxs = proj["fixtures"]
    tests = [tp for tp, _, _, _, _ in flatten_tests(proj["all_suites"])]
    suites = [p for p, _, _ in flatten_suites(proj["all_suites"])]
    if kind == "fx_cycle":
        names = oset(f["name"] for f in fxs)
        if not names:
            return None
        k = rng.choice([1, 1, 2, 2, 3, 4, 5, len(names)])
        k = max(1, min(k, len(names)))
        cyc = rng.sample(names, k)
        for i, n in enumerate(cyc):
            for f in fxs:
                if f["name"] == n:
                    f["params"] = list(f["params"]) + [cyc[(i + 1) % k]]
                    if rng.random() < 0.5:
                        rng.shuffle(f["params"])
        return "fixture cycle of length %d" % k
    if kind == "fx_unknown_param":
        if not fxs:
            return None
        f = rng.choice(fxs)
        f["params"].insert(rng.randint(0, len(f["params"])), 500 + rng.randint(0, 3))
        return "unknown fixture parameter"
    if kind == "fx_scope":
        pairs = [(a, b) for a in fxs for b in fxs if LEVEL[b["scope"]] < LEVEL[a["scope"]]]
        if not pairs:
            if not fxs:
                return None
            a = rng.choice(fxs)
            a["scope"] = rng.choice(["suite", "session", "pre_run"])
            a["per_thread"] = False
            b = {"name": 600 + rng.randint(0, 3), "scope": "test", "params": [], "per_thread": False}
            fxs.insert(rng.randint(0, len(fxs)), b)
        else:
            a, b = rng.choice(pairs)
        a["params"].insert(rng.randint(0, len(a["params"])), b["name"])
        return "scope inversion"
    if kind == "fx_per_thread":
        if not fxs:
            return None
        a = rng.choice(fxs)
        if a["scope"] == "test":
            a["scope"] = rng.choice(["suite", "session"])
        if a["scope"] in ("suite", "session") and rng.random() < 0.4:
            a["per_thread"] = True        # a per-thread fixture built on another per-thread fixture is just as wrong
        b = {"name": 610 + rng.randint(0, 3), "scope": rng.choice(["session", "pre_run", "suite"]), "params": [], "per_thread": True}
        fxs.insert(rng.randint(0, len(fxs)), b)
        a["params"].insert(rng.randint(0, len(a["params"])), b["name"])
        return "per-thread fixture used by a non-test fixture"
    if kind == "fx_forbidden":
        fxs.insert(rng.randint(0, len(fxs)), {"name": 0, "scope": rng.choice(SCOPES), "params": [], "per_thread": False})
        return "fixture named fixture_name"
    if kind == "fx_builtin":
        fxs.insert(rng.randint(0, len(fxs)), {"name": rng.choice([1, 2]), "scope": rng.choice(SCOPES), "params": [], "per_thread": False})
        return "fixture named like a builtin"
    if kind == "test_unknown_fx":
        if not tests:
            return None
        for t in both_tests(proj, rng.choice(tests)):
            t["args"] = t["args"] + [520]
        return "unknown fixture in a test"
    if kind == "test_param_row":
        # a parametrized function one of whose rows lacks a key: the later sibling test has the same arguments (same function)
        # but one parameter less, so that argument is looked up as a fixture -- and there is none of that name
        cands = [(tp, t) for tp, _, t, _, _ in flatten_tests(proj["all_suites"])]
        if not cands:
            return None
        tp, t0 = rng.choice(cands)
        if not t0["params"]:
            pn = 950 + rng.randint(0, 3)
            for t in both_tests(proj, tp):
                t["args"] = t["args"] + [pn]
                t["params"] = t["params"] + [pn]
        new_name = 700 + rng.randint(0, 20)
        for st in both(proj, tp[:-1]):
            orig = next((t for t in st["tests"] if t["name"] == tp[-1]), None)
            if orig is None:          # the test is filtered out of the scheduled forest
                continue
            twin = dict(orig, name=new_name, deps=[], params=list(orig["params"][:-1]), props=list(orig["props"]), tags=list(orig["tags"]),
                        args=list(orig["args"]))
            st["tests"].insert(st["tests"].index(orig) + 1 + (rng.randint(0, 1) if len(st["tests"]) > 1 else 0), twin)
        return "parametrized rows with different keys"
    if kind in ("suite_unknown_fx", "suite_per_thread", "suite_scope"):
        if not suites:
            return None
        if kind == "suite_unknown_fx":
            n = 530
        elif kind == "suite_per_thread":
            n = 620
            fxs.append({"name": n, "scope": rng.choice(["suite", "session"]), "params": [], "per_thread": True})
        else:
            n = 630
            fxs.append({"name": n, "scope": "test", "params": [], "per_thread": False})
        where = rng.choice(["setup_suite", "injected"])
        for s in both(proj, rng.choice(suites)):
            if where == "setup_suite":
                s["setup_suite"] = list(s["setup_suite"] or []) + [n]
            else:
                s["injected"] = list(s["injected"]) + [n]
        if kind in ("suite_per_thread", "suite_scope") and tests and rng.random() < 0.6:
            # the same fixture is ALSO used, legitimately, by a test (the first test of the project half of the time: visited
            # before every later suite): a use that is fine for a test says nothing about the use by a suite
            for t in both_tests(proj, tests[0] if rng.random() < 0.5 else rng.choice(tests)):
                t["args"] = t["args"] + [n]
        return kind
    if kind == "dep_unknown":
        if not tests:
            return None
        tp = rng.choice(tests)
        bad = rng.choice([[999], list(tp[:-1]) + [998], [tp[0]], []]) if rng.random() < 0.8 else list(tp) + [1]
        for t in both_tests(proj, tp):
            t["deps"].insert(rng.randint(0, len(t["deps"])), bad)
        return "unknown dependency"
    if kind == "dep_cycle":
        if not tests:
            return None
        k = max(1, min(rng.choice([1, 1, 2, 2, 3, 4, 5, len(tests)]), len(tests)))
        cyc = rng.sample(tests, k)
        for i, tp in enumerate(cyc):
            for t in both_tests(proj, tp):
                t["deps"].insert(rng.randint(0, len(t["deps"])), list(cyc[(i + 1) % k]))
        # "lasso": the cycle is also reached from tests outside it, declared before or after it (a resolution that remembers what
        # it has already walked must still find the cycle when the walk starts outside)
        outside = [tp for tp in tests if tp not in cyc]
        if outside and rng.random() < 0.6:
            for o in ([outside[0]] if rng.random() < 0.5 else rng.sample(outside, min(len(outside), rng.randint(1, 2)))):
                for t in both_tests(proj, o):
                    t["deps"].insert(rng.randint(0, len(t["deps"])), list(rng.choice(cyc)))
            return "dependency cycle of length %d entered from outside" % k
        return "dependency cycle of length %d" % k
    if kind == "dep_lasso":
        # a cycle among later-declared tests, reached from the FIRST declared test (which is not on the cycle)
        if len(tests) < 2:
            return None
        rest = tests[1:]
        k = max(1, min(rng.choice([1, 2, 2, 3]), len(rest)))
        cyc = rng.sample(rest, k)
        for i, tp in enumerate(cyc):
            for t in both_tests(proj, tp):
                t["deps"].insert(rng.randint(0, len(t["deps"])), list(cyc[(i + 1) % k]))
        for t in both_tests(proj, tests[0]):
            t["deps"].insert(rng.randint(0, len(t["deps"])), list(cyc[0]))
        return "dependency cycle of length %d reached from the first declared test" % k
    if kind == "dep_filtered":
        if len(tests) < 2:
            return None
        a, b = rng.sample(tests, 2)
        for t in both_tests(proj, a):
            t["deps"].append(list(b))
        # remove b from the scheduled suites only
        for p, _, s in flatten_suites(proj["suites"]):
            if p == tuple(b[:-1]):
                s["tests"] = [t for t in s["tests"] if t["name"] != b[-1]]
        return "dependency on a filtered-out test"
    # ---- policy
    pol = proj["policy"]
    nodes = [(True, tp) for tp in tests] + [(False, sp) for sp in suites]
    if not nodes:
        return None
    on_test, p = rng.choice(nodes)
    key = "on_test" if on_test else "on_suite"
    targets = both_tests(proj, p) if on_test else both(proj, p)

    def set_md(f):
        for o in targets:
            f(o)
    if kind == "pol_unknown_prop":
        pol["no_unknown_props"] = True
        set_md(lambda o: o["props"].append([40, 1]))
    elif kind == "pol_forbidden_prop":
        pol["props"].append({"name": 41, "values": None, "on_test": not on_test, "on_suite": on_test, "required": False})
        set_md(lambda o: o["props"].append([41, 1]))
    elif kind == "pol_missing_prop":
        pol["props"].append({"name": 42, "values": None, "on_test": on_test or rng.random() < 0.3,
                             "on_suite": (not on_test) or rng.random() < 0.3, "required": True})
        # everything else of that kind gets it, the target does not
        for forest in (proj["all_suites"], proj["suites"]):
            for sp, _, s in flatten_suites(forest):
                if pol["props"][-1]["on_suite"] and not (not on_test and sp == tuple(p)):
                    s["props"].append([42, 1])
                for t in s["tests"]:
                    if pol["props"][-1]["on_test"] and not (on_test and sp + (t["name"],) == tuple(p)):
                        t["props"].append([42, 1])
    elif kind == "pol_bad_value":
        pol["props"].append({"name": 43, "values": [1, 2], "on_test": True, "on_suite": True, "required": False})
        set_md(lambda o: o["props"].append([43, 3]))
    elif kind == "pol_unknown_tag":
        pol["no_unknown_tags"] = True
        set_md(lambda o: o["tags"].append(44))
    elif kind == "pol_forbidden_tag":
        pol["tags"].append({"name": 45, "on_test": not on_test, "on_suite": on_test})
        set_md(lambda o: o["tags"].append(45))
    return kind


def gen_wild(rng):
    """Unconstrained: parameters, arguments and dependencies drawn from all names (cycles of every length, self loops,
    unknown names, inversions ...)."""
    n = rng.randint(1, 6)
    names = [rng.choice([0, 1, 2] + list(range(3, 3 + n))) if rng.random() < 0.1 else 3 + i for i in range(n)]
    pool = list(range(3, 3 + n)) + [0, 1, 2, 3 + n]
    fixtures = []
    for nm in names:
        scope = rng.choice(SCOPES)
        fixtures.append({"name": nm, "scope": scope, "params": [rng.choice(pool) for _ in range(rng.choice([0, 1, 1, 2]))],
                         "per_thread": rng.random() < 0.2})
    for f in fixtures:
        f["params"] = oset(f["params"])
    m = rng.randint(1, 5)
    tpaths = [[1, 10 + i] for i in range(m)]
    tests = []
    for i in range(m):
        deps = [rng.choice(tpaths + [[1, 99]]) for _ in range(rng.choice([0, 0, 1, 1, 2]))]
        tests.append({"name": 10 + i, "disabled": rng.random() < 0.1, "deps": [list(d) for d in deps],
                      "args": oset(rng.choice(pool) for _ in range(rng.choice([0, 1, 2]))), "params": [], "props": [], "tags": []})
    s = {"name": 1, "disabled": False, "setup_suite": oset(rng.choice(pool) for _ in range(rng.choice([0, 0, 1, 2]))) if rng.random() < 0.5 else None,
         "teardown_suite": False, "setup_test": False, "teardown_test": False,
         "injected": oset(rng.choice(pool) for _ in range(rng.choice([0, 0, 1]))), "tests": tests, "subs": [], "props": [], "tags": []}
    if s["setup_suite"] is not None:
        s["setup_suite"] = [a for a in s["setup_suite"] if a != 0] if rng.random() < 0.7 else s["setup_suite"]
    proj = {"fixtures": fixtures, "all_suites": [s], "suites": copy.deepcopy([s]),
            "policy": {"props": [], "tags": [], "no_unknown_props": False, "no_unknown_tags": False}}
    if rng.random() < 0.2:
        apply_filter(rng, proj, keep_deps=False)
    return proj


LAST_DETAILS = []      # descriptions of the malformations applied by the last gen_case (for the input distribution)


def gen_case(rng):
    """-> (project, label)"""
    del LAST_DETAILS[:]
    r = rng.random()
    if r < 0.3:
        return normalize(gen_valid(rng)), "valid"
    if r < 0.45:
        return normalize(gen_wild(rng)), "wild"
    proj = gen_valid(rng)
    kinds = [rng.choice(MUTATIONS)]
    if rng.random() < 0.25:
        kinds.append(rng.choice(MUTATIONS))
    done = []
    for k in kinds:
        desc = mutate(rng, proj, k)
        if desc:
            done.append(k)
            LAST_DETAILS.append(desc)
    return normalize(proj), "+".join(done) if done else "valid"


# ------------------------------------------------------------------------------------------------ real objects
def _mkfunc(name, args, body="pass"):
    src = "def %s(%s):\n    %s\n" % (name, ", ".join(args), body)
    ns = {}
    exec(src, ns)
    return ns[name]


def arg_str(n):
    return fx_str(n) if n < 900 else "p%d" % n


def build_suites(forest):
    from lemoncheesecake.suite.core import Suite, Test, InjectedFixture

    import zlib
    counts = {}
    for tp, _, _, _, _ in flatten_tests(forest):
        counts[path_str(tp)] = counts.get(path_str(tp), 0) + 1

    def as_dependency(dep, own):
        """A dependency on an existing test is declared by its path or -- one time in three -- by a PREDICATE that designates the
        same test (half of these predicates are also true of the depending test itself: a test is never its own dependency)."""
        if counts.get(dep, 0) != 1 or dep == own:
            return dep
        h = zlib.crc32(("%s<-%s" % (dep, own)).encode()) % 6
        if h == 0:
            PREDICATE_DEPS[0] += 1
            return lambda t, dep=dep: t.path == dep
        if h == 1:
            PREDICATE_DEPS[0] += 1
            return lambda t, both=(dep, own): t.path in both
        return dep

    def build_suite(s, prefix=()):
        spath = tuple(prefix) + (s["name"],)
        attrs = {"inj_%03d" % i: InjectedFixture(fx_str(n)) for i, n in enumerate(s["injected"])}
        cls = type("S%d" % s["name"], (object,), attrs)
        suite = Suite(cls(), "s%d" % s["name"], "suite %d" % s["name"])
        suite.disabled = s["disabled"]
        suite.tags = ["g%d" % t for t in s["tags"]]
        suite.properties = {"p%d" % k: "v%d" % v for k, v in s["props"]}
        if s["setup_suite"] is not None:
            suite.add_hook("setup_suite", _mkfunc("setup_suite", [arg_str(a) for a in s["setup_suite"]]))
        if s["teardown_suite"]:
            suite.add_hook("teardown_suite", _mkfunc("teardown_suite", []))
        if s["setup_test"]:
            suite.add_hook("setup_test", _mkfunc("setup_test", ["test"]))
        if s["teardown_test"]:
            suite.add_hook("teardown_test", _mkfunc("teardown_test", ["test", "status"]))
        callbacks = {}
        for t in s["tests"]:
            # tests of one suite with the same argument list share ONE function object, as the tests expanded from one
            # parametrized function do
            key = tuple(t["args"])
            if key not in callbacks:
                callbacks[key] = _mkfunc("cb", [arg_str(a) for a in t["args"]])
            test = Test("t%d" % t["name"], "test %d" % t["name"], callbacks[key])
            test.disabled = t["disabled"]
            test.dependencies = [as_dependency(path_str(d), path_str(spath + (t["name"],))) for d in t["deps"]]
            test.parameters = {arg_str(a): 0 for a in t["params"]}
            test.tags = ["g%d" % x for x in t["tags"]]
            test.properties = {"p%d" % k: "v%d" % v for k, v in t["props"]}
            suite.add_test(test)
        for sub in s["subs"]:
            suite.add_suite(build_suite(sub, spath))
        return suite
    return [build_suite(s) for s in forest]


PREDICATE_DEPS = [0]       # dependencies declared by a predicate so far (evidence counter)


def build_fixtures(fixtures, generator_ratio=0):
    from lemoncheesecake.fixture import Fixture
    out = []
    for i, f in enumerate(fixtures):
        if generator_ratio and i % generator_ratio == 0:
            func = _mkfunc("fx", [fx_str(p) for p in f["params"]], "yield 1")
        else:
            func = _mkfunc("fx", [fx_str(p) for p in f["params"]], "return 1")
        out.append(Fixture(fx_str(f["name"]), func, f["scope"], [fx_str(p) for p in f["params"]], f["per_thread"]))
    return out


def build_policy(pol):
    from lemoncheesecake.metadatapolicy import MetadataPolicy
    mp = MetadataPolicy()
    for p in pol["props"]:
        mp.add_property_rule("p%d" % p["name"], None if p["values"] is None else ["v%d" % v for v in p["values"]],
                             on_test=p["on_test"], on_suite=p["on_suite"], required=p["required"])
    for t in pol["tags"]:
        mp.add_tag_rule("g%d" % t["name"], on_test=t["on_test"], on_suite=t["on_suite"])
    if pol["no_unknown_props"]:
        mp.disallow_unknown_properties()
    if pol["no_unknown_tags"]:
        mp.disallow_unknown_tags()
    return mp


def build_project(proj, tmpdir):
    from lemoncheesecake.project import Project

    class GenProject(Project):
        def load_suites(self):
            return build_suites(proj["all_suites"])

        def load_fixtures(self):
            return build_fixtures(proj["fixtures"], generator_ratio=3)

    p = GenProject(tmpdir)
    p.metadata_policy = build_policy(proj["policy"])
    return p


# ------------------------------------------------------------------------------------------------ Gallina
def g_list(xs, f=str):
    return "[" + "; ".join(f(x) for x in xs) + "]"


def g_bool(b):
    return "true" if b else "false"


def g_path(p):
    return g_list(p)


SCOPE_G = {"test": "ScTest", "suite": "ScSuite", "session": "ScSession", "pre_run": "ScPreRun"}


def g_fixture(f):
    return "mkFixture %d %s %s %s false false [] []" % (f["name"], SCOPE_G[f["scope"]], g_list(f["params"]), g_bool(f["per_thread"]))


def g_test(t):
    return "mkTest %d %s %s %s %s []" % (t["name"], g_bool(t["disabled"]), g_list(t["deps"], g_path), g_list(t["args"]),
                                          g_list(t["params"]))


def g_suite(s):
    hooks = "(mkHooks %s %s %s %s)" % (
        "None" if s["setup_suite"] is None else "(Some (%s, []))" % g_list(s["setup_suite"]),
        "(Some [])" if s["teardown_suite"] else "None", "(Some [])" if s["setup_test"] else "None",
        "(Some [])" if s["teardown_test"] else "None")
    return "Suite %d %s %s %s %s %s" % (s["name"], g_bool(s["disabled"]), hooks, g_list(s["injected"]),
                                         g_list(s["tests"], lambda t: "(%s)" % g_test(t)), g_list(s["subs"], lambda x: "(%s)" % g_suite(x)))


def g_meta(o):
    return "mkMeta %s %s" % (g_list(o["props"], lambda kv: "(%d, %d)" % (kv[0], kv[1])), g_list(o["tags"]))


def g_policy(pol):
    return "mkPolicy %s %s %s %s" % (
        g_list(pol["props"], lambda p: "mkPropRule %d %s %s %s %s" % (p["name"], g_list(p["values"] or []), g_bool(p["on_test"]),
                                                                     g_bool(p["on_suite"]), g_bool(p["required"]))),
        g_list(pol["tags"], lambda t: "mkTagRule %d %s %s" % (t["name"], g_bool(t["on_test"]), g_bool(t["on_suite"]))),
        g_bool(pol["no_unknown_props"]), g_bool(pol["no_unknown_tags"]))


def g_xproject(proj):
    smd, tmd = [], []
    for p, _, s in flatten_suites(proj["suites"]):
        if s["props"] or s["tags"]:
            smd.append("(%s, %s)" % (g_path(p), g_meta(s)))
        for t in s["tests"]:
            if t["props"] or t["tags"]:
                tmd.append("(%s, %s)" % (g_path(p + (t["name"],)), g_meta(t)))
    return "mkXProject (mkProject %s\n    %s\n    %s)\n   (%s)\n   (mkMdMap %s %s)" % (
        g_list(proj["fixtures"], lambda f: "(%s)" % g_fixture(f)),
        g_list(proj["all_suites"], lambda s: "(%s)" % g_suite(s)),
        g_list(proj["suites"], lambda s: "(%s)" % g_suite(s)),
        g_policy(proj["policy"]), g_list(smd), g_list(tmd))


# ------------------------------------------------------------------------------------------------ normal form
def _dict_pairs(pairs):
    d = {}
    for k, v in pairs:
        d[k] = v
    return [[k, v] for k, v in d.items()]


def normalize(proj):
    """Make the abstract project denote exactly one real project: argument lists without duplicates (a Python signature),
    properties and policy rules with dict semantics (first position, last value)."""
    for f in proj["fixtures"]:
        f["params"] = oset(f["params"])
    for forest in (proj["all_suites"], proj["suites"]):
        for _, _, s in flatten_suites(forest):
            if s["setup_suite"] is not None:
                s["setup_suite"] = oset(s["setup_suite"])
            s["injected"] = list(s["injected"])
            s["props"] = _dict_pairs(s["props"])
            for t in s["tests"]:
                t["args"] = oset(t["args"])
                t["params"] = oset(t["params"])
                t["props"] = _dict_pairs(t["props"])
    pol = proj["policy"]
    for key in ("props", "tags"):
        d = {}
        for r in pol[key]:
            d[r["name"]] = r
        pol[key] = list(d.values())
    return proj
