"""Shared co-simulation engine of the run properties (C01-C08, C10, C11): generate cases, run the real runner under the
deterministic scheduler, and check the three correspondences inside Coq:
  layer 1  Sched.run accepts the task-level trace on the implementation's own task graph      (check_l1)
  layer 2  GraphOf.graph_of_project = runner.build_tasks                                       (check_l2)
  layer 3  TaskSem.task_sem = per-task, per-thread atoms (events, flags, user markers, results) (check_l3)
"""
import json

import l1
import l3
import lib
import projcoq
import projgen
import sim

TARGETS = ["theories/Base/Util.vo", "theories/Model/Proj.vo", "theories/Model/Sched.vo", "theories/Model/GraphOf.vo",
           "theories/Model/TaskSemEq.vo"]

TRUSTED = [
    "modelled, not verified: multiprocessing.dummy.Pool as a FIFO job queue served by n workers, queue.Queue as FIFO, "
    "GIL atomicity of list/set/dict operations; the deterministic-scheduler doubles (harness/detsched.py) stand for them",
    "user code is assumed to terminate; generated user code = scripts of API actions (harness/projbuild.py)",
]
ASSUME = ["interleavings are explored at the yield points of harness/detsched.py (take, fire, mark, completion put, "
          "main get, handler get, joins); pre-emption inside one of these atomic blocks is not exhibited"]

COQ_HEADER = """From Coq Require Import List Arith Bool.
Import ListNotations.
From LCC Require Import Base.Util Model.Proj Model.Sched.
Definition case := (graph * nat * bool * list move)%type.
Definition ok (c : case) : bool :=
  let '(g, n, sof, ms) := c in
  wf_b g (toposort g) &&
  match run g n sof (init g n) ms with Some s => finished g s | None => false end.
Definition where_rejected (c : case) : option nat :=
  let '(g, n, sof, ms) := c in first_rejected g n sof (init g n) ms 0.
"""


def l1_case_term(case, r):
    L = l1.L1(r["graph"])
    moves, human = L.moves(r["trace"])
    n = int(case["options"].get("nb_threads", 1))
    sof = bool(case["options"].get("stop_on_failure"))
    return "(%s,\n   %d, %s,\n   %s)" % (l1.c_graph(r["graph"]), n, lib.c_bool(sof), "[" + "; ".join(moves) + "]"), human


def l1_file(terms):
    return COQ_HEADER + "Definition cases : list case := [\n  %s\n].\n" % ";\n  ".join(terms) + \
        "Eval vm_compute in (find_indexes (fun c => negb (ok c)) cases).\n"


L2_HEADER = """From Coq Require Import List Arith Bool.
Import ListNotations.
From LCC Require Import Base.Util Model.Proj Model.Sched Model.Graph Model.Fixture Model.GraphOf.
Definition ok (c : project * bool * graph) : bool :=
  let '(p, f, g) := c in match graph_of_project p f with Some g' => graph_eqb g' g | None => false end.
"""


def check_l2(run, cases, results, relation="GraphOf.graph_of_project = runner.build_tasks (kinds, order, both dependency lists)"):
    """Layer-2 correspondence: the model's task graph of the generated project equals the implementation's."""
    import projcoq
    terms, ids = [], []
    for c in cases:
        r = results.get(c["id"])
        if not r or not r.get("graph"):
            continue
        try:
            terms.append("(%s,\n %s,\n %s)" % (projcoq.c_project(c.get("scheduled_project") or c["project"]), lib.c_bool(c["options"].get("force_disabled")),
                                              l1.c_graph(r["graph"])))
        except l1.Unmodelled as e:
            run.tie_broken(relation, case={"id": c["id"]}, detail="unmodelled: %s" % e)
            continue
        ids.append(c["id"])
    if not run.model_ok or not terms:
        return
    shards = [(terms[i:i + 100], ids[i:i + 100]) for i in range(0, len(terms), 100)]
    outs = run.coq_eval_many([("l2_%d" % k, L2_HEADER + "Definition cases : list (project * bool * graph) := [\n%s ].\n"
                               "Eval vm_compute in (find_indexes (fun c => negb (ok c)) cases).\n" % ";\n".join(t))
                              for k, (t, _) in enumerate(shards)])
    for (t, idl), (rc, out) in zip(shards, outs):
        bad = lib.parse_nat_list(out) if rc == 0 else None
        if bad is None:
            run.tie_broken(relation, detail="case file did not evaluate: " + out[-1200:])
            continue
        for b in bad[:3]:
            case = next(c for c in cases if c["id"] == idl[b])
            run.tie_broken(relation, case={"id": idl[b], "project": case["project"], "options": case["options"]},
                           impl=results[idl[b]]["graph"])


def gen_cases(run, n_cases, profile=None, threads=(1, 2, 3, 4), prefix="c"):
    cases = []
    for i in range(n_cases):
        pd = projgen.gen_project(run.rng, **(profile or {}))
        n = run.rng.choice(threads)
        cases.append({"id": "%s%d" % (prefix, i), "project": pd, "sched": projgen.gen_sched(run.rng),
                      "options": {"nb_threads": n, "stop_on_failure": run.rng.random() < 0.2,
                                  "force_disabled": run.rng.random() < 0.15}})
    return cases


def check_l1(run, cases, results, relation="Sched.run accepts the implementation's task-level trace"):
    """Layer-1 correspondence for a batch of finished runs."""
    terms, ids = [], []
    for c in cases:
        r = results.get(c["id"])
        if not r or not r.get("graph") or r.get("outcome", ["?"])[0] not in ("returned", "raised"):
            continue
        try:
            term, human = l1_case_term(c, r)
        except l1.Unmodelled as e:
            run.tie_broken(relation, case={"id": c["id"]}, detail="unmodelled: %s" % e)
            continue
        terms.append(term)
        ids.append(c["id"])
    if not run.model_ok or not terms:
        return
    shards = [(terms[i:i + 150], ids[i:i + 150]) for i in range(0, len(terms), 150)]
    outs = run.coq_eval_many([("l1_%d" % k, l1_file(t)) for k, (t, _) in enumerate(shards)])
    for (t, idl), (rc, out) in zip(shards, outs):
        bad = lib.parse_nat_list(out) if rc == 0 else None
        if bad is None:
            run.tie_broken(relation, detail="case file did not evaluate: " + out[-1200:])
            continue
        for b in bad[:3]:
            cid = idl[b]
            case = next(c for c in cases if c["id"] == cid)
            run.tie_broken(relation, case={"id": cid, "project": case["project"], "options": case["options"], "sched": case["sched"][:60]},
                           impl={"graph": results[cid]["graph"], "moves": l1_case_term(case, results[cid])[1][:200]})



L3_HEADER = """From Coq Require Import List Arith Bool.
Import ListNotations.
From LCC Require Import Base.Util Model.Proj Model.Sched Model.Fixture Model.TaskSem Model.TaskSemEq.
Definition bad (c : project * bool * graph * list observed) : list nat :=
  let '(p, f, g, obs) := c in map (fun i => ob_task (nth i obs (mkObs 0 Run None [] [] None))) (run_ok p f g obs).
"""


def check_l3(run, cases, results, relation="TaskSem.task_sem = atoms and result of every task of the implementation's trace",
             only_returned=True):
    """Layer-3 correspondence: per task, per thread: events fired, flags raised, user markers, fixture identities, result."""
    terms, ids = [], []
    for c in cases:
        r = results.get(c["id"])
        if not r or not r.get("graph") or not r.get("trace"):
            continue
        if only_returned and r.get("outcome", ["?"])[0] != "returned":
            continue
        try:
            L = l3.L3(r["graph"], r["trace"])
            moves, _ = L.L1.moves(r["trace"])
            obs = L.observations(l3.modes_from_moves(moves))
            terms.append("(%s,\n %s,\n %s,\n [%s])" % (projcoq.c_project(c.get("scheduled_project") or c["project"]), lib.c_bool(c["options"].get("force_disabled")),
                                                      l1.c_graph(r["graph"]), ";\n  ".join(obs)))
        except (l1.Unmodelled, KeyError) as e:
            run.tie_broken(relation, case={"id": c["id"], "project": c["project"], "options": c["options"]},
                           detail="unmodelled: %s: %s" % (type(e).__name__, e))
            continue
        ids.append(c["id"])
    if not run.model_ok or not terms:
        return
    shards = [(terms[i:i + 40], ids[i:i + 40]) for i in range(0, len(terms), 40)]
    outs = run.coq_eval_many([("l3_%d" % k, L3_HEADER + "Definition cases : list (project * bool * graph * list observed) := [\n%s ].\n"
                               "Eval vm_compute in (find_indexes (fun c => negb (Nat.eqb (length (bad c)) 0)) cases).\n"
                               % ";\n".join(t)) for k, (t, _) in enumerate(shards)])
    for (t, idl), (rc, out) in zip(shards, outs):
        bad = lib.parse_nat_list(out) if rc == 0 else None
        if bad is None:
            run.tie_broken(relation, detail="case file did not evaluate: " + out[-1200:])
            continue
        for b in bad[:3]:
            case = next(c for c in cases if c["id"] == idl[b])
            run.tie_broken(relation, case={"id": idl[b], "project": case["project"], "options": case["options"],
                                           "sched": case["sched"][:60]})


def cosim(run, cases, layers=(1, 2, 3)):
    results = sim.run_cases(cases)
    if 1 in layers:
        check_l1(run, cases, results)
    if 2 in layers:
        check_l2(run, cases, results)
    if 3 in layers:
        check_l3(run, cases, results)
    return results
