"""C09 translator: lemoncheesecake/reporting/backends/json_.py and xml.py  ->  coq/theories/gen/TablesCodec.v

The (de)serializers are translated by SYMBOLIC EXECUTION of their Python `ast` over the report normal form of
Model/Report.v: every `_serialize_*` becomes a Gallina function building a JSON value / an element tree (object
literals, attributes, text, children with their presence conditions: `is not None` -> is_some, truthiness ->
truthy_<type>), every `_unserialize_*` becomes a function in the `res` monad (one bind per Python operation that can
raise, in program order; key lookups, decoders, mapM over children).  What is hand-written here is only the SCHEMA:
which Python attribute is which field of the normal form, with its type; the signature of the translated functions.
Fail-closed: any statement / expression shape that is not recognised raises TranslationError, and the helpers whose
behaviour is modelled by hand (make_xml_node, make_xml_child, indent_xml, the two load_report_from_file, loader.py,
format_time_as_iso8601 / parse_iso8601_time) are pinned by the hash of their AST."""
import ast
import hashlib
import os
import re

from tables import TranslationError

PROPS = ["C09"]


def fail(node, msg):
    line = getattr(node, "lineno", "?")
    raise TranslationError("%s (line %s): %s" % (msg, line, ast.unparse(node)[:160] if isinstance(node, ast.AST) else node))


# ======================================================================================= schema (hand-written)
OPT = {"ostr": "str", "otime": "time", "oresult": "result", "oxml": "xml"}
GTYPE = {"str": "str", "ostr": "option str", "bool": "bool", "int": "Z", "time": "Z", "otime": "option Z",
         "strlist": "list str", "props": "list (str * str)", "info": "list (str * str)", "links": "list (str * option str)",
         "link": "str * option str", "strpair": "str * str", "log": "steplog", "step": "step", "result": "result",
         "oresult": "option result", "meta": "meta", "test": "test_result", "suite": "suite_result", "report": "report",
         "json": "json", "xml": "xml", "oxml": "option xml"}


def gtype(ty):
    if ty.startswith("list:"):
        return "list (%s)" % gtype(ty[5:])
    return GTYPE[ty]


# attribute of a model value of a given type -> (Gallina expression pattern, type)
ATTRS = {
    "step": {"description": ("st_description %s", "str"), "start_time": ("st_start %s", "otime"),
             "end_time": ("st_end %s", "otime"), "get_logs()": ("st_logs %s", "list:log")},
    "result": {"start_time": ("r_start %s", "otime"), "end_time": ("r_end %s", "otime"), "status": ("r_status %s", "ostr"),
               "status_details": ("r_status_details %s", "ostr"), "get_steps()": ("r_steps %s", "list:step")},
    "meta": {"name": ("m_name %s", "str"), "description": ("m_description %s", "str"), "tags": ("m_tags %s", "strlist"),
             "properties": ("m_properties %s", "props"), "links": ("m_links %s", "links")},
    "report": {"start_time": ("rp_start %s", "otime"), "end_time": ("rp_end %s", "otime"), "nb_threads": ("rp_nb_threads %s", "int"),
               "title": ("rp_title %s", "str"), "info": ("rp_info %s", "info"),
               "test_session_setup": ("rp_session_setup %s", "oresult"),
               "test_session_teardown": ("rp_session_teardown %s", "oresult"), "get_suites()": ("rp_suites %s", "list:suite")},
}
ATTRS["test"] = {}
for _k, (_p, _t) in ATTRS["result"].items():
    ATTRS["test"][_k] = (_p % "(t_result %s)", _t)
for _k, (_p, _t) in ATTRS["meta"].items():
    ATTRS["test"][_k] = (_p % "(t_meta %s)", _t)
# a suite parameter is destructured at function entry: SuiteResult s_meta s_start s_end s_setup s_teardown s_tests s_suites
SUITE_BINDERS = ["s_meta", "s_start", "s_end", "s_setup", "s_teardown", "s_tests", "s_suites"]
ATTRS["suite"] = {"start_time": ("s_start", "otime"), "end_time": ("s_end", "otime"), "suite_setup": ("s_setup", "oresult"),
                  "suite_teardown": ("s_teardown", "oresult"), "get_tests()": ("s_tests", "list:test"),
                  "get_suites()": ("s_suites", "list:suite")}
for _k, (_p, _t) in ATTRS["meta"].items():
    ATTRS["suite"][_k] = (_p % "s_meta", _t)

# StepLog subclasses: Python class -> (constructor, [(attribute, type)]) in constructor-argument order of Model/Report.v
LOGS = {
    "Log": ("LLog", [("level", "str"), ("message", "str"), ("time", "time")]),
    "Check": ("LCheck", [("description", "str"), ("is_successful", "bool"), ("details", "ostr"), ("time", "time")]),
    "Attachment": ("LAttachment", [("description", "str"), ("filename", "str"), ("as_image", "bool"), ("time", "time")]),
    "Url": ("LUrl", [("description", "str"), ("url", "str"), ("time", "time")]),
}
# Python constructor signatures (report.py) checked against the source by check_report_classes()
LOG_INIT = {"Log": ["level", "message", "ts"], "Check": ["description", "is_successful", "details", "ts"],
            "Attachment": ["description", "filename", "as_image", "ts"], "Url": ["description", "url", "ts"]}

COERCE_MODEL = {("test", "result"): "(t_result %s)", ("test", "meta"): "(t_meta %s)", ("time", "otime"): "(Some %s)",
                ("str", "ostr"): "(Some %s)", ("suite", "meta"): "s_meta"}

ELEM = {"strlist": "str", "props": "strpair", "info": "strpair", "links": "link"}

# objects under construction on the load side: class -> ordered fields (name, type, default) and the Gallina constructor
META_FIELDS = [("name", "str", None), ("description", "str", None), ("tags", "strlist", "[]"), ("properties", "props", "[]"),
               ("links", "links", "[]")]
RESULT_FIELDS = [("start_time", "otime", "None"), ("end_time", "otime", "None"), ("status", "ostr", "None"),
                 ("status_details", "ostr", "None"), ("_steps", "list:step", "[]")]
CLASSES = {
    "Step": {"init": ["description"], "fields": [("description", "str", None), ("start_time", "otime", "None"),
                                                   ("end_time", "otime", "None"), ("_logs", "list:log", "[]")],
             "emit": "mkStep {description} {start_time} {end_time} {_logs}", "type": "step"},
    "Result": {"init": [], "fields": RESULT_FIELDS, "type": "result",
               "emit": "mkResult {start_time} {end_time} {status} {status_details} {_steps}"},
    "TestResult": {"init": ["name", "description"], "fields": META_FIELDS + RESULT_FIELDS, "type": "test",
                   "emit": "mkTest (mkMeta {name} {description} {tags} {properties} {links}) "
                           "(mkResult {start_time} {end_time} {status} {status_details} {_steps})"},
    "SuiteResult": {"init": ["name", "description"], "type": "suite",
                    "fields": META_FIELDS + [("start_time", "otime", "None"), ("end_time", "otime", "None"),
                                             ("suite_setup", "oresult", "None"), ("suite_teardown", "oresult", "None"),
                                             ("_tests", "list:test", "[]"), ("_suites", "list:suite", "[]")],
                    "emit": "SuiteResult (mkMeta {name} {description} {tags} {properties} {links}) {start_time} {end_time} "
                            "{suite_setup} {suite_teardown} (tests_dict {_tests}) {_suites}"},
    "Report": {"init": [], "type": "report",
               "fields": [("title", "str", "default_title"), ("info", "info", "[]"), ("start_time", "otime", "None"),
                          ("end_time", "otime", "None"), ("saving_time", "otime", "None"), ("nb_threads", "int", "1%Z"),
                          ("test_session_setup", "oresult", "None"), ("test_session_teardown", "oresult", "None"),
                          ("_suites", "list:suite", "[]")],
               "emit": "mkReport {title} {info} {start_time} {end_time} {saving_time} {nb_threads} {test_session_setup} "
                       "{test_session_teardown} {_suites}"},
}
ADDERS = {"add_log": "_logs", "add_step": "_steps", "add_test": "_tests", "add_suite": "_suites"}
ERRORS = {"ValueError": "ValueError", "KeyError": "KeyError", "TypeError": "TypeError"}

# translated functions that get their own Gallina definition: python name -> (gallina name, [param types], return type)
SIGS = {
    "json": {
        "_serialize_time": ("json_save_time", ["otime"], "json"),
        "_serialize_steps": ("json_save_steps", ["list:step"], "json"),
        "_serialize_result": ("json_save_result", ["result"], "json"),
        "_serialize_test_result": ("json_save_test", ["test"], "json"),
        "_serialize_suite_result": ("json_save_suite", ["suite"], "json"),
        "serialize_report_into_json": ("json_save_report", ["report"], "json"),
        "_unserialize_time": ("json_load_time", ["json"], "otime"),
        "_unserialize_step": ("json_load_step", ["json"], "step"),
        "_unserialize_test_result": ("json_load_test", ["json"], "test"),
        "_unserialize_suite_result": ("json_load_suite", ["json"], "suite"),
        "_unserialize_report": ("json_load_report", ["json"], "report"),
    },
    "xml": {
        "_serialize_time": ("xml_save_time", ["otime"], "str"),
        "_serialize_bool": ("xml_save_bool", ["bool"], "str"),
        "_serialize_test_result": ("xml_save_test", ["test"], "xml"),
        "_serialize_suite_result": ("xml_save_suite", ["suite"], "xml"),
        "serialize_report_as_xml_tree": ("xml_save_report", ["report"], "xml"),
        "_unserialize_time": ("xml_load_time", ["str"], "time"),
        "_unserialize_bool": ("xml_load_bool", ["str"], "bool"),
        "_unserialize_step": ("xml_load_step", ["xml"], "step"),
        "_unserialize_test_result": ("xml_load_test", ["xml"], "test"),
        "_unserialize_suite_result": ("xml_load_suite", ["xml"], "suite"),
        "_unserialize_report": ("xml_load_report", ["xml"], "report"),
    },
}
# save-side functions without a return value that fill an element / a dict given as argument ("OUT"): translated into the
# lists they contribute (attributes / children / entries), spliced at the call sites
MUTATORS = {
    "json": {"_serialize_node_metadata": ("json_save_node_metadata", ["meta", "OUT"])},
    "xml": {"_serialize_steps": ("xml_save_steps", ["list:step", "OUT"]),
            "_serialize_result": ("xml_save_result", ["result", "OUT"]),
            "_serialize_node_metadata": ("xml_save_node_metadata", ["meta", "OUT"])},
}
# load-side functions that mutate an object given as argument: inlined at their call sites
INLINE = {
    "json": ["_unserialize_result", "_unserialize_node_metadata"],
    "xml": ["_unserialize_result", "_unserialize_node_metadata"],
}
SAVE_ORDER = {
    "json": ["_serialize_time", "_serialize_steps", "_serialize_node_metadata", "_serialize_result", "_serialize_test_result",
             "_serialize_suite_result", "serialize_report_into_json"],
    "xml": ["_serialize_time", "_serialize_bool", "_serialize_steps", "_serialize_result", "_serialize_node_metadata",
            "_serialize_test_result", "_serialize_suite_result", "serialize_report_as_xml_tree"],
}
LOAD_ORDER = {
    "json": ["_unserialize_time", "_unserialize_step", "_unserialize_test_result", "_unserialize_suite_result",
             "_unserialize_report"],
    "xml": ["_unserialize_time", "_unserialize_bool", "_unserialize_step", "_unserialize_test_result",
            "_unserialize_suite_result", "_unserialize_report"],
}
RECURSIVE = {"_serialize_suite_result", "_unserialize_suite_result"}
FUEL = {"json": "json_depth", "xml": "xml_depth"}

# helpers modelled by hand in Model/*.v: any edit to them breaks the tie (sha256 of ast.unparse, 16 hex digits)
PINNED = {
    "lemoncheesecake/reporting/backends/xml.py": {
        "indent_xml": None, "make_xml_node": None, "make_xml_child": None, "serialize_report_as_string": None,
        "save_report_into_file": None, "load_report_from_file": None},
    "lemoncheesecake/reporting/backends/json_.py": {"save_report_into_file": None, "load_report_from_file": None},
    "lemoncheesecake/reporting/report.py": {"format_time_as_iso8601": None, "parse_iso8601_time": None},
    "lemoncheesecake/reporting/loader.py": {"load_report_from_file": None},
    "lemoncheesecake/reporting/backend.py": {"atomic_write": None},
}


# ======================================================================================= symbolic values
class M:
    """a Gallina expression of a known type"""
    def __init__(self, expr, ty):
        self.expr, self.ty = expr, ty


class Lit:
    def __init__(self, value):
        self.value = value


class MC:
    """a step log known to be built with a given constructor; fields: attribute -> M"""
    def __init__(self, expr, ctor, fields):
        self.expr, self.ctor, self.fields, self.ty = expr, ctor, fields, "log"


class Cond:
    """value-level conditional (Python IfExp)"""
    def __init__(self, cond, a, b):
        self.cond, self.a, self.b = cond, a, b


class MatchVal:
    def __init__(self, scrut, cases):
        self.scrut, self.cases = scrut, cases      # cases: list of (pattern, value)


class Container:
    def __init__(self, tr):
        self.depth = tr.loop_depth
        self.guard_base = len(tr.guards)
        self.loop_ids = list(tr.loop_ids)


class SList(Container):
    def __init__(self, tr):
        super().__init__(tr)
        self.segments = []          # ("item", guards, value) | ("mapfn", guards, fname, over) | ("loop", loop, [segments])


class SDict(Container):
    def __init__(self, tr, base=None):
        super().__init__(tr)
        self.base = base            # Gallina json expression this dict starts from (or None: empty literal)
        self.entries = []           # (guards, key, value)


class SElem(Container):
    def __init__(self, tr, tag):
        super().__init__(tr)
        self.tag = tag
        self.attrs = []             # (guards, key, value)
        self.text = None            # value
        self.children = SList(tr)


class Loop:
    def __init__(self, ident, var, over):
        self.ident, self.var, self.over = ident, var, over


def guard_wrap(guards, body, empty="[]"):
    """wrap a list-valued Gallina expression into the presence conditions (innermost last)"""
    for g in reversed(guards):
        if g[0] == "bool":
            body = "(if %s then %s else %s)" % (g[1], body, empty)
        elif g[0] == "some":
            body = "(match %s with Some %s => %s | None => %s end)" % (g[1], g[2], body, empty)
        elif g[0] == "ctor":
            body = "(match %s with %s => %s | _ => %s end)" % (g[1], g[2], body, empty)
        else:
            raise TranslationError("unknown guard %r" % (g,))
    return body


class Keys:
    """string constants -> named Gallina definitions"""
    def __init__(self):
        self.names = {}

    def k(self, s):
        if s not in self.names:
            n = "K_" + re.sub(r"[^A-Za-z0-9_]", lambda m: "__" if m.group(0) == "-" else "u%02x" % ord(m.group(0)), s)
            if n in self.names.values():
                n += "_%d" % len(self.names)
            self.names[s] = n
        return self.names[s]

    def defs(self):
        out = []
        for s, n in self.names.items():
            out.append("Definition %s : str := [%s]%%N. (* %r *)" % (n, "; ".join(str(ord(c)) for c in s), s))
        return "\n".join(out)


# ======================================================================================= save side
class SaveTranslator:
    def __init__(self, backend, funcs, keys):
        self.backend, self.funcs, self.keys = backend, funcs, keys
        self.sigs = SIGS[backend]
        self.loop_depth = 0
        self.loop_ids = []
        self.guards = []
        self.refine = {}
        self.counter = 0
        self.current = None
        self.mutators = {}

    def fresh(self, hint):
        self.counter += 1
        return "%s%d" % (hint, self.counter)

    # ------------------------------------------------------------ emission of symbolic values
    def coerce_model(self, v, ty):
        if isinstance(v, MC):
            v = M(v.expr, "log")
        if v.ty == ty:
            return v.expr
        if (v.ty, ty) in COERCE_MODEL:
            pat = COERCE_MODEL[(v.ty, ty)]
            return pat % v.expr if "%s" in pat else pat
        raise TranslationError("no coercion from %s to %s for %s" % (v.ty, ty, v.expr))

    def to_json(self, v):
        if isinstance(v, Lit):
            x = v.value
            if x is None:
                return "JNull"
            if x is True or x is False:
                return "(JBool %s)" % ("true" if x else "false")
            if isinstance(x, str):
                return "(JStr %s)" % self.keys.k(x)
            if isinstance(x, int):
                return "(JNum (%d)%%Z)" % x
            if isinstance(x, float):
                m = re.fullmatch(r"(\d+)\.(\d+)", repr(x))
                if not m:
                    raise TranslationError("float literal %r" % x)
                return "(JFloat (%d)%%Z (-%d)%%Z)" % (int(m.group(1) + m.group(2)), len(m.group(2)))
            raise TranslationError("literal %r in a JSON position" % (x,))
        if isinstance(v, M):
            enc = {"json": "%s", "str": "(enc_str %s)", "ostr": "(enc_ostr %s)", "bool": "(enc_bool %s)", "int": "(enc_int %s)",
                   "strlist": "(enc_strlist %s)", "props": "(enc_props %s)"}
            if v.ty not in enc:
                raise TranslationError("a value of type %s is stored into JSON without an encoder: %s" % (v.ty, v.expr))
            return enc[v.ty] % v.expr
        if isinstance(v, Cond):
            return "(if %s then %s else %s)" % (v.cond, self.to_json(v.a), self.to_json(v.b))
        if isinstance(v, MatchVal):
            return "(match %s with %s end)" % (v.scrut, " ".join("| %s => %s" % (p, self.to_json(x)) for p, x in v.cases))
        if isinstance(v, SList):
            return "(JArr %s)" % self.emit_segments(v.segments, self.to_json)
        if isinstance(v, SDict):
            segs = self.emit_entries(v.entries, lambda k, x: "(%s, %s)" % (self.keys.k(k), self.to_json(x)))
            if v.base is None:
                keys = self.all_keys(v.entries)
                if len(set(keys)) != len(keys):
                    raise TranslationError("a key is assigned twice in a dict literal: %r" % keys)
                return "(JObj %s)" % segs
            return v.base if not v.entries else "(jupdate %s %s)" % (v.base, segs)
        raise TranslationError("cannot store %r into JSON" % (v,))

    def to_str(self, v):
        if isinstance(v, Lit) and isinstance(v.value, str):
            return self.keys.k(v.value)
        if isinstance(v, M) and v.ty == "str":
            return v.expr
        if isinstance(v, M) and v.ty == "ostr":       # None stored into an attribute: serialization raises TypeError
            return "(req_str %s)" % v.expr
        if isinstance(v, Cond):
            return "(if %s then %s else %s)" % (v.cond, self.to_str(v.a), self.to_str(v.b))
        raise TranslationError("cannot use %r as an attribute value" % (getattr(v, "expr", v),))

    def to_ostr(self, v):
        if v is None or (isinstance(v, Lit) and v.value is None):
            return "None"
        if isinstance(v, M) and v.ty == "ostr":
            return v.expr
        return "(Some %s)" % self.to_str(v)

    def to_xml(self, v):
        if isinstance(v, M) and v.ty == "xml":
            return v.expr
        if isinstance(v, SElem):
            attrs = self.emit_entries(v.attrs, lambda k, x: "(%s, %s)" % (self.keys.k(k), self.to_str(x)))
            keys = self.all_keys(v.attrs)
            if len(set(keys)) != len(keys):
                raise TranslationError("an attribute is assigned twice: %r" % keys)
            return "(Elem %s %s %s %s)" % (self.keys.k(v.tag), attrs, self.to_ostr(v.text),
                                           self.emit_segments(v.children.segments, self.to_xml))
        raise TranslationError("cannot use %r as an element" % (v,))

    @staticmethod
    def all_keys(entries):
        keys = []
        for _, k, x in entries:
            keys += list(x.keys) if k is None else [k]
        return keys

    def emit_entries(self, entries, f):
        """[(guards, key, value)] -> list expression: maximal unguarded runs as literals, guarded ones wrapped"""
        parts, run = [], []
        for guards, k, x in entries:
            if k is None:           # contribution of a translated mutator
                if run:
                    parts.append("[%s]" % "; ".join(run))
                    run = []
                parts.append(guard_wrap(guards, x.expr))
            elif not guards:
                run.append(f(k, x))
            else:
                if run:
                    parts.append("[%s]" % "; ".join(run))
                    run = []
                parts.append(guard_wrap(guards, "[%s]" % f(k, x)))
        if run or not parts:
            parts.append("[%s]" % "; ".join(run))
        return parts[0] if len(parts) == 1 else "(%s)" % " ++ ".join(parts)

    def emit_segments(self, segments, f):
        parts, run = [], []

        def flush():
            if run:
                parts.append("[%s]" % "; ".join(run))
                del run[:]
        for seg in segments:
            if seg[0] == "item":
                if not seg[1]:
                    run.append(f(seg[2]))
                else:
                    flush()
                    parts.append(guard_wrap(seg[1], "[%s]" % f(seg[2])))
            elif seg[0] == "mapfn":
                flush()
                parts.append(guard_wrap(seg[1], "(map %s %s)" % (seg[2], seg[3])))
            elif seg[0] == "splice":
                flush()
                parts.append(guard_wrap(seg[1], seg[2]))
            elif seg[0] == "loop":
                flush()
                loop, inner = seg[1], seg[2]
                parts.append(self.emit_loop(loop, inner, f))
            else:
                raise TranslationError("segment %r" % (seg[0],))
        flush()
        if not parts:
            return "[]"
        return parts[0] if len(parts) == 1 else "(%s)" % " ++ ".join(parts)

    def emit_loop(self, loop, inner, f):
        # exactly one unguarded item per iteration: map
        if len(inner) == 1 and inner[0][0] == "item" and not inner[0][1]:
            return "(map (fun %s => %s) %s)" % (loop.var, f(inner[0][2]), loop.over)
        # one item per constructor of the same scrutinee, all constructors covered: map over a match
        if inner and all(s[0] == "item" and len(s[1]) == 1 and s[1][0][0] == "ctor" for s in inner):
            scruts = {s[1][0][1] for s in inner}
            ctors = [s[1][0][3] for s in inner]
            if len(scruts) == 1 and sorted(ctors) == sorted(c for c, _ in LOGS.values()):
                return "(map (fun %s => match %s with %s end) %s)" % (
                    loop.var, scruts.pop(), " ".join("| %s => %s" % (s[1][0][2], f(s[2])) for s in inner), loop.over)
        return "(flat_map (fun %s => %s) %s)" % (loop.var, self.emit_segments(inner, f), loop.over)

    # ------------------------------------------------------------ containers
    def cur_guards(self, c):
        return list(self.guards[c.guard_base:])

    def append(self, lst, seg_builder, node):
        """append to a symbolic list at the current loop depth"""
        if lst.depth == self.loop_depth and lst.loop_ids == self.loop_ids:
            lst.segments.append(seg_builder(self.cur_guards(lst)))
        elif lst.depth == self.loop_depth - 1 and lst.loop_ids == self.loop_ids[:-1]:
            loop = self.loops[-1]
            if not lst.segments or lst.segments[-1][0] != "loop" or lst.segments[-1][1] is not loop:
                lst.segments.append(("loop", loop, []))
            # guards pushed since the loop started
            lst.segments[-1][2].append(seg_builder(list(self.guards[loop.guard_base:])))
        else:
            fail(node, "append to a container from a doubly nested loop")

    def set_entry(self, entries, cont, key, value, node):
        if cont.depth != self.loop_depth or cont.loop_ids != self.loop_ids:
            fail(node, "key/attribute set from inside a loop on an outer object")
        g = self.cur_guards(cont)
        for i, (g0, k0, x0) in enumerate(entries):
            if k0 is None and key in x0.keys:
                fail(node, "re-assignment of key %r set by a translated helper" % key)
            if k0 == key:
                if not g and not g0:
                    entries[i] = (g, key, value)
                    return
                fail(node, "conditional re-assignment of key %r" % key)
        entries.append((g, key, value))

    # ------------------------------------------------------------ expressions
    def attr_of(self, v, name, node):
        if isinstance(v, MC):
            if name not in v.fields:
                fail(node, "%s has no attribute %s" % (v.ctor, name))
            return v.fields[name]
        if isinstance(v, M):
            if v.ty == "link" or v.ty == "strpair":
                fail(node, "attribute on a pair")
            table = ATTRS.get(v.ty)
            if table is None or name not in table:
                fail(node, "unknown attribute %s of a %s" % (name, v.ty))
            pat, ty = table[name]
            expr = pat % v.expr if "%s" in pat else pat
            expr = expr if " " not in expr else "(%s)" % expr
            if expr in self.refine:
                return self.refine[expr]
            return M(expr, ty)
        fail(node, "attribute %s of %r" % (name, v))

    def const_str(self, node):
        if isinstance(node, ast.Constant) and isinstance(node.value, str):
            return node.value
        fail(node, "a string literal is expected")

    def eval(self, node, env):
        if isinstance(node, ast.Constant):
            return Lit(node.value)
        if isinstance(node, ast.Name):
            if node.id not in env:
                fail(node, "unknown name")
            if env[node.id] is POISONED:
                fail(node, "use of a variable shadowed by a loop")
            return env[node.id]
        if isinstance(node, ast.Attribute):
            if ast.unparse(node) == "lemoncheesecake.__version__":
                return M("lcc_version", "str")
            base = self.eval(node.value, env)
            if isinstance(base, SElem):
                fail(node, "reading an element attribute on the save side")
            return self.attr_of(base, node.attr, node)
        if isinstance(node, ast.Subscript):
            base = self.eval(node.value, env)
            if isinstance(base, SDict):
                key = self.const_str(node.slice)
                for _, k, v in base.entries:
                    if k == key:
                        return v
                fail(node, "key not in the literal")
            if isinstance(base, M) and base.ty in ("link", "strpair") and isinstance(node.slice, ast.Constant) \
                    and node.slice.value in (0, 1):
                snd = {"link": "ostr", "strpair": "str"}[base.ty]
                return M("(fst %s)" % base.expr, "str") if node.slice.value == 0 else M("(snd %s)" % base.expr, snd)
            fail(node, "subscript")
        if isinstance(node, ast.Dict):
            d = SDict(self)
            for k, v in zip(node.keys, node.values):
                d.entries.append(([], self.const_str(k), self.eval(v, env)))
            return d
        if isinstance(node, ast.List):
            lst = SList(self)
            for e in node.elts:
                lst.segments.append(("item", [], self.eval(e, env)))
            return lst
        if isinstance(node, ast.ListComp):
            if len(node.generators) != 1 or node.generators[0].ifs or node.generators[0].is_async:
                fail(node, "comprehension shape")
            gen = node.generators[0]
            lst = SList(self)
            over = self.eval(gen.iter, env)
            self.run_loop(gen.target, over, env, lambda e2: self.append(lst, lambda g: ("item", g, self.eval(node.elt, e2)), node), node)
            return lst
        if isinstance(node, ast.IfExp):
            cond, refine = self.condition(node.test, env)
            if refine:
                fail(node, "conditional expression on an optional record")
            return Cond(cond[1], self.eval(node.body, env), self.eval(node.orelse, env))
        if isinstance(node, ast.Call):
            return self.call(node, env)
        fail(node, "expression shape")

    def condition(self, test, env):
        """-> (guard, refinement or None). `x is not None` -> is_some ; `x` (truthiness) -> the truthiness of its type"""
        if isinstance(test, ast.Compare) and len(test.ops) == 1 and isinstance(test.ops[0], ast.IsNot) \
                and isinstance(test.comparators[0], ast.Constant) and test.comparators[0].value is None:
            v, kind = self.eval(test.left, env), "is_some"
        elif isinstance(test, ast.Compare) or isinstance(test, ast.BoolOp) or isinstance(test, ast.UnaryOp):
            fail(test, "condition shape")
        else:
            v, kind = self.eval(test, env), "truthy"
        if not isinstance(v, M):
            fail(test, "condition on a non-model value")
        if v.ty == "oresult":          # objects are always true: both tests are `is Some`
            b = self.fresh("r")
            return ("some", v.expr, b), (v.expr, M(b, "result"))
        if kind == "is_some":
            if v.ty not in OPT:
                fail(test, "`is not None` on a non-optional %s" % v.ty)
            return ("bool", "is_some %s" % v.expr), None
        pred = {"ostr": "truthy_ostr %s", "otime": "truthy_otime %s", "str": "truthy_str %s", "bool": "%s"}.get(v.ty)
        if pred is None:
            fail(test, "truthiness of a %s" % v.ty)
        return ("bool", pred % v.expr), None

    def call(self, node, env):
        f = node.func
        fname = ast.unparse(f)
        args = node.args
        if node.keywords:
            fail(node, "keyword arguments")
        if fname in ("list",) and len(args) == 1:
            return self.eval(args[0], env)
        if fname == "map" and len(args) == 2 and isinstance(args[0], ast.Name) and args[0].id in self.sigs:
            gname, ptys, rty = self.sigs[args[0].id]
            over = self.eval(args[1], env)
            if not (isinstance(over, M) and over.ty == "list:" + ptys[0]):
                fail(node, "map over a %s" % getattr(over, "ty", over))
            lst = SList(self)
            lst.segments.append(("mapfn", [], self.fn_ref(args[0].id), over.expr))
            return lst
        if fname == "format_time_as_iso8601" and len(args) == 1:
            v = self.eval(args[0], env)
            if isinstance(v, M) and v.ty == "otime":
                return M("(fmt_otime tc %s)" % v.expr, "str")
            if isinstance(v, M) and v.ty == "time":
                return M("(tfmt tc %s)" % v.expr, "str")
            fail(node, "time formatting of a non-time")
        if fname == "time.time" and not args:
            return M("now", "time")
        if fname == "str" and len(args) == 1:
            v = self.eval(args[0], env)
            if isinstance(v, M) and v.ty == "int":
                return M("(ifmt tc %s)" % v.expr, "str")
            fail(node, "str() of a non-int")
        if fname in ("ET.Element", "make_xml_node") and args:
            e = SElem(self, self.const_str(args[0]))
            self.elem_args(e, args[1:], env, node)
            return e
        if fname == "make_xml_child" and len(args) >= 2:
            parent = self.eval(args[0], env)
            if not isinstance(parent, SElem):
                fail(node, "make_xml_child on a non-element")
            e = SElem(self, self.const_str(args[1]))
            self.elem_args(e, args[2:], env, node)
            self.append(parent.children, lambda g: ("item", g, e), node)
            return e
        if isinstance(f, ast.Attribute) and f.attr in ATTR_METHODS and not args:       # get_logs() ...
            return self.attr_of(self.eval(f.value, env), f.attr + "()", node)
        if isinstance(f, ast.Attribute) and f.attr == "items" and not args:
            v = self.eval(f.value, env)
            if isinstance(v, M) and v.ty == "props":
                return v
            fail(node, ".items() of a non-dict")
        if isinstance(f, ast.Name) and f.id in self.sigs:
            gname, ptys, rty = self.sigs[f.id]
            if len(args) != len(ptys):
                fail(node, "arity")
            gargs = [self.coerce_model(self.as_model(self.eval(a, env), a), t) for a, t in zip(args, ptys)]
            expr = "(%s %s)" % (self.fn_ref(f.id), " ".join(gargs))
            if rty == "json":
                return SDict(self, base=expr)
            return M(expr, rty)
        fail(node, "call shape")

    def as_model(self, v, node):
        if isinstance(v, (M, MC)):
            return v
        fail(node, "a model value is expected")

    def fn_ref(self, pyname):
        gname = self.sigs[pyname][0]
        if pyname == self.current and pyname in RECURSIVE:
            return gname
        return gname

    def elem_args(self, e, args, env, node):
        if len(args) % 2:
            fail(node, "odd number of attribute arguments")
        for i in range(0, len(args), 2):
            e.attrs.append(([], self.const_str(args[i]), self.eval(args[i + 1], env)))

    # ------------------------------------------------------------ statements
    def run_loop(self, target, over, env, body, node):
        if not isinstance(over, M):
            fail(node, "loop over a non-model value")
        if over.ty.startswith("list:"):
            ety = over.ty[5:]
        elif over.ty in ELEM:
            ety = ELEM[over.ty]
        else:
            fail(node, "loop over a %s" % over.ty)
        env2 = dict(env)
        if isinstance(target, ast.Name):
            var = target.id
            env2[var] = M(var, ety)
        elif isinstance(target, ast.Tuple) and len(target.elts) == 2 and all(isinstance(t, ast.Name) for t in target.elts) \
                and ety == "strpair":
            var = self.fresh("p")
            env2[target.elts[0].id] = M("(fst %s)" % var, "str")
            env2[target.elts[1].id] = M("(snd %s)" % var, "str")
        else:
            fail(node, "loop target")
        loop = Loop(self.fresh("L"), var, over.expr)
        loop.guard_base = len(self.guards)
        self.loops.append(loop)
        self.loop_depth += 1
        self.loop_ids.append(loop.ident)
        try:
            body(env2)
        finally:
            self.loop_depth -= 1
            self.loop_ids.pop()
            self.loops.pop()
        return env2

    def exec_block(self, stmts, env):
        """returns the returned value or None"""
        for i, st in enumerate(stmts):
            r = self.exec_stmt(st, env)
            if r is not None:
                if i != len(stmts) - 1:
                    fail(st, "return before the end of the block")
                return r
        return None

    def exec_stmt(self, st, env):
        if isinstance(st, ast.Return):
            if st.value is None:
                fail(st, "bare return")
            return ("return", self.eval(st.value, env))
        if isinstance(st, ast.Assign) and len(st.targets) == 1:
            tgt = st.targets[0]
            if isinstance(tgt, ast.Name):
                env[tgt.id] = self.eval(st.value, env)
                return None
            if isinstance(tgt, ast.Subscript):
                key = self.const_str(tgt.slice)
                base = tgt.value
                if isinstance(base, ast.Attribute) and base.attr == "attrib":
                    e = self.eval(base.value, env)
                    if not isinstance(e, SElem):
                        fail(st, "attrib of a non-element")
                    self.set_entry(e.attrs, e, key, self.eval(st.value, env), st)
                    return None
                d = self.eval(base, env)
                if not isinstance(d, SDict):
                    fail(st, "item assignment on a non-dict")
                self.set_entry(d.entries, d, key, self.eval(st.value, env), st)
                return None
            if isinstance(tgt, ast.Attribute) and tgt.attr == "text":
                e = self.eval(tgt.value, env)
                if not isinstance(e, SElem) or e.text is not None or self.cur_guards(e) or e.depth != self.loop_depth:
                    fail(st, "text assignment shape")
                e.text = self.eval(st.value, env)
                return None
            fail(st, "assignment target")
        if isinstance(st, ast.Expr) and isinstance(st.value, ast.Constant):
            return None       # docstring
        if isinstance(st, ast.Expr) and isinstance(st.value, ast.Call):
            call = st.value
            f = call.func
            if isinstance(f, ast.Name) and f.id in MUTATORS[self.backend]:
                self.call_mutator(f.id, call, env)
                return None
            if isinstance(f, ast.Name) and f.id == "make_xml_child":
                self.call(call, env)
                return None
            if isinstance(f, ast.Attribute) and f.attr == "update" and len(call.args) == 1:
                d = self.eval(f.value, env)
                upd = self.eval(call.args[0], env)
                if not isinstance(d, SDict) or not isinstance(upd, SDict) or upd.base is not None:
                    fail(st, "update shape")
                for g, k, v in upd.entries:
                    self.set_entry(d.entries, d, k, v, st)
                return None
            if isinstance(f, ast.Attribute) and f.attr == "append" and len(call.args) == 1:
                lst = self.eval(f.value, env)
                v = self.eval(call.args[0], env)
                if isinstance(lst, SElem):
                    self.append(lst.children, lambda g: ("item", g, v), st)
                elif isinstance(lst, SList):
                    self.append(lst, lambda g: ("item", g, v), st)
                else:
                    fail(st, "append to a non-list")
                return None
            if isinstance(f, ast.Attribute) and f.attr == "extend" and len(call.args) == 1:
                e = self.eval(f.value, env)
                v = self.eval(call.args[0], env)
                if not isinstance(e, SElem) or not isinstance(v, SList) or len(v.segments) != 1 or v.segments[0][0] != "mapfn":
                    fail(st, "extend shape")
                seg = v.segments[0]
                self.append(e.children, lambda g: ("mapfn", g, seg[2], seg[3]), st)
                return None
            fail(st, "call statement")
        if isinstance(st, ast.For):
            if st.orelse:
                fail(st, "for/else")
            over = self.eval(st.iter, env)
            self.run_loop(st.target, over, env, lambda e2: self.no_return(self.exec_block(st.body, e2), st), st)
            return None
        if isinstance(st, ast.If):
            return self.exec_if(st, env)
        if isinstance(st, ast.Raise):
            return ("raise", st)
        fail(st, "statement shape")

    def no_return(self, r, st):
        if r is not None:
            fail(st, "return/raise inside a loop")

    def isinstance_test(self, test, env):
        if isinstance(test, ast.Call) and ast.unparse(test.func) == "isinstance" and len(test.args) == 2 \
                and isinstance(test.args[0], ast.Name) and isinstance(test.args[1], ast.Name) and test.args[1].id in LOGS:
            return test.args[0].id, test.args[1].id
        return None

    def exec_if(self, st, env):
        it = self.isinstance_test(st.test, env)
        if it:
            return self.exec_isinstance_chain(st, env)
        guard, refine = self.condition(st.test, env)
        if st.orelse:
            fail(st, "if/else on the save side")
        self.guards.append(guard)
        saved = dict(self.refine)
        if refine:
            self.refine[refine[0]] = refine[1]
        try:
            before = set(env)
            r = self.exec_block(st.body, env)
            if r is not None:
                fail(st, "return under a condition")
            for k in set(env) - before:
                del env[k]      # locals created under the condition die with it
        finally:
            self.guards.pop()
            self.refine = saved
        return None

    def exec_isinstance_chain(self, st, env):
        var, _ = self.isinstance_test(st.test, env)
        scrut = env[var]
        if not (isinstance(scrut, M) and scrut.ty == "log"):
            fail(st, "isinstance on a non-log")
        branches, node, seen = [], st, []
        while True:
            it = self.isinstance_test(node.test, env)
            if not it or it[0] != var:
                fail(node, "mixed conditions in an isinstance chain")
            branches.append((it[1], node.body))
            seen.append(it[1])
            if len(node.orelse) == 1 and isinstance(node.orelse[0], ast.If):
                node = node.orelse[0]
                continue
            rest = [c for c in LOGS if c not in seen]
            if node.orelse:
                if len(node.orelse) == 1 and isinstance(node.orelse[0], ast.Raise):
                    if rest:
                        fail(node, "the step log classes %s fall into a raise" % rest)
                else:
                    for c in rest:
                        branches.append((c, node.orelse))
            elif rest:
                fail(node, "the step log classes %s are not handled" % rest)
            break
        assigned = {}
        for cls, body in branches:
            ctor, fields = LOGS[cls]
            binders = ["%s_%s" % (var, a) for a, _ in fields]
            pattern = "%s %s" % (ctor, " ".join(binders))
            env2 = dict(env)
            env2[var] = MC(scrut.expr, ctor, {a: M(b, t) for (a, t), b in zip(fields, binders)})
            self.guards.append(("ctor", scrut.expr, pattern, ctor))
            try:
                r = self.exec_block(body, env2)
                if r is not None:
                    fail(st, "return inside an isinstance branch")
            finally:
                self.guards.pop()
            for k, v in env2.items():
                if k != var and (k not in env or env[k] is not v):
                    assigned.setdefault(k, []).append((pattern, v))
        for k, cases in assigned.items():
            if len(cases) == len(branches):
                env[k] = MatchVal(scrut.expr, cases)
        return None

    def call_mutator(self, pyname, call, env):
        gname, ptys = MUTATORS[self.backend][pyname]
        info = self.mutators.get(pyname)
        if info is None:
            fail(call, "%s is used before its translation" % pyname)
        if len(ptys) != len(call.args) or call.keywords:
            fail(call, "arity of a helper call")
        gargs, out = [], None
        for a, t in zip(call.args, ptys):
            v = self.eval(a, env)
            if t == "OUT":
                out = v
            else:
                gargs.append(self.coerce_model(self.as_model(v, a), t))
        gargs = " ".join(gargs)
        if self.backend == "json":
            if not isinstance(out, SDict):
                fail(call, "the helper fills a non-dict")
            if out.depth != self.loop_depth:
                fail(call, "helper call from inside a loop on an outer object")
            sp = M("(%s %s)" % (gname, gargs), "entries")
            sp.keys = info["keys"]
            out.entries.append((self.cur_guards(out), None, sp))
        else:
            if not isinstance(out, SElem):
                fail(call, "the helper fills a non-element")
            if out.depth != self.loop_depth:
                fail(call, "helper call from inside a loop on an outer object")
            if info["attrs"]:
                sp = M("(%s_attrs %s)" % (gname, gargs), "entries")
                sp.keys = info["keys"]
                out.attrs.append((self.cur_guards(out), None, sp))
            if info["children"]:
                self.append(out.children, lambda g: ("splice", g, "(%s_children %s)" % (gname, gargs)), call)

    def translate_mutator(self, pyname):
        fn = self.funcs[pyname]
        gname, ptys = MUTATORS[self.backend][pyname]
        self.current = pyname
        self.loops, self.guards, self.refine, self.loop_depth, self.loop_ids = [], [], {}, 0, []
        params = [a.arg for a in fn.args.args]
        if len(params) != len(ptys) or fn.args.vararg or fn.args.kwarg or fn.args.kwonlyargs or fn.args.defaults:
            fail(fn, "signature of %s" % pyname)
        env, binders = {}, []
        for p, t in zip(params, ptys):
            if t == "OUT":
                out = env[p] = SDict(self) if self.backend == "json" else SElem(self, "")
            else:
                env[p] = M(p, t)
                binders.append("(%s : %s)" % (p, gtype(t)))
        r = self.exec_block(fn.body, env)
        if r is not None:
            fail(fn, "%s returns or raises" % pyname)
        binders = " ".join(binders)
        src = {"json": "json_", "xml": "xml"}[self.backend]
        if self.backend == "json":
            keys = self.all_keys(out.entries)
            if len(set(keys)) != len(keys):
                fail(fn, "duplicate keys")
            self.mutators[pyname] = {"keys": keys}
            body = self.emit_entries(out.entries, lambda k, x: "(%s, %s)" % (self.keys.k(k), self.to_json(x)))
            return "(* %s.py: %s, the entries it adds to its second argument *)\nDefinition %s %s : list (str * json) :=\n  %s.\n" % (
                src, pyname, gname, binders, body)
        if out.text is not None:
            fail(fn, "a helper sets the text of its argument")
        keys = self.all_keys(out.attrs)
        if len(set(keys)) != len(keys):
            fail(fn, "duplicate keys")
        self.mutators[pyname] = {"keys": keys, "attrs": bool(out.attrs), "children": bool(out.children.segments)}
        text = ""
        if out.attrs:
            text += "(* %s.py: %s, the attributes it sets on its second argument *)\nDefinition %s_attrs %s : list (str * str) :=\n  %s.\n" % (
                src, pyname, gname, binders, self.emit_entries(out.attrs, lambda k, x: "(%s, %s)" % (self.keys.k(k), self.to_str(x))))
        if out.children.segments:
            text += "(* %s.py: %s, the children it appends to its second argument *)\nDefinition %s_children %s : list xml :=\n  %s.\n" % (
                src, pyname, gname, binders, self.emit_segments(out.children.segments, self.to_xml))
        return text

    # ------------------------------------------------------------ one function
    def translate(self, pyname):
        fn = self.funcs[pyname]
        gname, ptys, rty = self.sigs[pyname]
        self.current = pyname
        self.loops, self.guards, self.refine, self.loop_depth, self.loop_ids = [], [], {}, 0, []
        params = [a.arg for a in fn.args.args]
        if len(params) != len(ptys) or fn.args.vararg or fn.args.kwarg or fn.args.kwonlyargs or fn.args.defaults:
            fail(fn, "signature of %s" % pyname)
        env = {}
        for p, t in zip(params, ptys):
            env[p] = M(p, t)
        r = self.exec_block(fn.body, env)
        if r is None or r[0] != "return":
            fail(fn, "%s does not end with a return" % pyname)
        v = r[1]
        body = {"json": self.to_json, "xml": self.to_xml, "str": self.to_str}[rty](v)
        binders = " ".join("(%s : %s)" % (p, gtype(t)) for p, t in zip(params, ptys))
        uses_now = re.search(r"\bnow\b", body) is not None
        if uses_now:
            binders = "(now : Z) " + binders
        if "suite" in ptys:
            p = params[ptys.index("suite")]
            body = "match %s with SuiteResult %s =>\n    %s\n  end" % (p, " ".join(SUITE_BINDERS), body)
        kw = "Fixpoint" if pyname in RECURSIVE else "Definition"
        return "(* %s.py: %s *)\n%s %s %s : %s :=\n  %s.\n" % (
            {"json": "json_", "xml": "xml"}[self.backend], pyname, kw, gname, binders, gtype(rty), body)


POISONED = object()
ATTR_METHODS = {"get_logs", "get_steps", "get_tests", "get_suites"}


# ======================================================================================= load side
class Obj:
    """a report object under construction: class name + field -> symbolic value (M | Obj | LList)"""
    def __init__(self, cls, fields):
        self.cls, self.fields = cls, fields


class LList:
    def __init__(self, parts=None):
        self.parts = list(parts or [])     # Gallina expressions of list type, concatenated


class Block:
    def __init__(self):
        self.binds = []        # (var, rhs)   meaning  var <- rhs ;;
        self.final = None      # terminal expression when the block returned / raised


def _balanced(t):
    d = 0
    for ch in t:
        d += ch == "("
        d -= ch == ")"
        if d < 0:
            return False
    return d == 0


class LoadTranslator:
    def __init__(self, backend, funcs, keys):
        self.backend, self.funcs, self.keys = backend, funcs, keys
        self.sigs = SIGS[backend]
        self.counter = 0
        self.block = None
        self.current = None

    def fresh(self, hint="v"):
        self.counter += 1
        return "%s%d" % (re.sub(r"[^A-Za-z_]", "", hint) or "v", self.counter)

    def bind(self, rhs, hint="v"):
        v = self.fresh(hint)
        self.block.binds.append((v, rhs))
        return v

    # ------------------------------------------------------------ values
    def new_obj(self, cls, args, node):
        spec = CLASSES[cls]
        if len(args) != len(spec["init"]):
            fail(node, "arity of %s()" % cls)
        fields = {}
        for name, ty, default in spec["fields"]:
            if ty.startswith("list:"):
                fields[name] = LList()
            elif default is not None:
                fields[name] = M(default, ty)
            else:
                fields[name] = None
        for name, a in zip(spec["init"], args):
            fields[name] = M(self.coerce(a, self.field_type(cls, name), node), self.field_type(cls, name))
        return Obj(cls, fields)

    @staticmethod
    def field_type(cls, name):
        for n, ty, _ in CLASSES[cls]["fields"]:
            if n == name:
                return ty
        raise TranslationError("class %s has no data field %s" % (cls, name))

    def emit_obj(self, o):
        vals = {}
        for name, ty, _ in CLASSES[o.cls]["fields"]:
            v = o.fields[name]
            if v is None:
                raise TranslationError("field %s of %s is not set" % (name, o.cls))
            if isinstance(v, LList):
                vals[name] = "[]" if not v.parts else v.parts[0] if len(v.parts) == 1 else "(%s)" % " ++ ".join(v.parts)
            elif isinstance(v, Obj):
                vals[name] = "(Some (%s))" % self.emit_obj(v) if ty in OPT else "(%s)" % self.emit_obj(v)
            else:
                vals[name] = v.expr
        return CLASSES[o.cls]["emit"].format(**vals)

    def coerce(self, v, ty, node):
        """-> Gallina expression of type ty; emits binds for the conversions that can fail"""
        if isinstance(v, Lit):
            if v.value is None and ty in OPT:
                return "None"
            if isinstance(v.value, bool) and ty == "bool":
                return "true" if v.value else "false"
            if isinstance(v.value, str) and ty == "str":
                return self.keys.k(v.value)
            fail(node, "literal %r where a %s is expected" % (v.value, ty))
        if isinstance(v, Obj):
            t = CLASSES[v.cls]["type"]
            if t == ty:
                return "(%s)" % self.emit_obj(v)
            if OPT.get(ty) == t:
                return "(Some (%s))" % self.emit_obj(v)
            fail(node, "a %s where a %s is expected" % (v.cls, ty))
        if not isinstance(v, M):
            fail(node, "cannot convert %r to %s" % (v, ty))
        if v.ty == ty:
            return v.expr
        if v.ty == "json":
            dec = {"str": "dec_str", "ostr": "dec_ostr", "bool": "dec_bool", "int": "dec_int", "strlist": "dec_strlist",
                   "props": "dec_props", "info": "dec_info", "list:json": "dec_arr"}
            if ty in dec:
                return self.bind("%s %s" % (dec[ty], v.expr), "d")
            fail(node, "a JSON value is stored where a %s is expected and no decoder is known" % ty)
        if OPT.get(ty) == v.ty:
            return "(Some %s)" % v.expr
        if v.ty == "oxml" and ty == "xml":
            return self.bind("req_elem %s" % v.expr, "e")           # None.attr -> AttributeError
        if OPT.get(v.ty) == ty:
            return self.bind("req_some %s" % v.expr, "s")          # None stored where the normal form has no None
        if v.ty == "xml" and ty == "list:xml":
            return "(xchildren %s)" % v.expr
        if v.ty == "pairs" and ty == "props":
            return "(dict_of_pairs %s)" % v.expr
        fail(node, "no conversion from %s to %s" % (v.ty, ty))

    def const_str(self, node):
        if isinstance(node, ast.Constant) and isinstance(node.value, str):
            return node.value
        fail(node, "a string literal is expected")

    # ------------------------------------------------------------ expressions
    def eval(self, node, env, expect=None):
        if isinstance(node, ast.Constant):
            return Lit(node.value)
        if isinstance(node, ast.Name):
            if node.id not in env:
                fail(node, "unknown name")
            if env[node.id] is POISONED:
                fail(node, "use of a variable shadowed by a loop")
            return env[node.id]
        if isinstance(node, ast.Subscript):
            base = node.value
            if isinstance(base, ast.Attribute) and base.attr == "attrib":
                e = self.coerce(self.eval(base.value, env), "xml", node)
                return M(self.bind("xattr %s %s" % (self.keys.k(self.const_str(node.slice)), e), "a"), "str")
            b = self.eval(base, env)
            if isinstance(b, M) and b.ty == "json":
                return M(self.bind("jget %s %s" % (self.keys.k(self.const_str(node.slice)), b.expr), "j"), "json")
            fail(node, "subscript")
        if isinstance(node, ast.Attribute):
            b = self.eval(node.value, env)
            if isinstance(b, Obj):
                if node.attr not in b.fields or b.fields[node.attr] is None:
                    fail(node, "field is not set")
                return b.fields[node.attr]
            if isinstance(b, M) and b.ty in ("xml", "oxml"):
                e = self.coerce(b, "xml", node)
                if node.attr == "text":
                    return M("(xtext %s)" % e, "ostr")
                if node.attr == "tag":
                    return M("(xtag %s)" % e, "str")
            fail(node, "attribute")
        if isinstance(node, ast.Tuple):
            if expect not in ("link", "strpair") or len(node.elts) != 2:
                fail(node, "tuple")
            snd = {"link": "ostr", "strpair": "str"}[expect]
            a = self.coerce(self.eval(node.elts[0], env), "str", node)
            b = self.coerce(self.eval(node.elts[1], env), snd, node)
            return M("(%s, %s)" % (a, b), expect)
        if isinstance(node, ast.BoolOp) and isinstance(node.op, ast.Or) and len(node.values) == 2 \
                and isinstance(node.values[1], ast.Constant) and node.values[1].value == "":
            v = self.eval(node.values[0], env)          # `x or ""` : None and "" both give ""
            if isinstance(v, M) and v.ty == "ostr":
                return M("(or_empty %s)" % v.expr, "str")
            fail(node, '`or ""` on a %s' % getattr(v, "ty", v))
        if isinstance(node, (ast.ListComp, ast.DictComp)):
            return self.comprehension(node, env, expect)
        if isinstance(node, ast.IfExp):
            if expect is None:
                fail(node, "conditional expression without a known type")
            cond = self.condition(node.test, env)
            outer = self.block
            parts = []
            for sub in (node.body, node.orelse):
                self.block = Block()
                x = self.coerce(self.eval(sub, env, OPT.get(expect, expect)), expect, node)
                parts.append(self.emit_block(self.block, "Ok %s" % x))
            self.block = outer
            return M(self.bind("(if %s then %s else %s)" % (cond, parts[0], parts[1]), "c"), expect)
        if isinstance(node, ast.Call):
            return self.call(node, env, expect)
        fail(node, "expression shape")

    def comprehension(self, node, env, expect):
        if len(node.generators) != 1 or node.generators[0].ifs or node.generators[0].is_async \
                or not isinstance(node.generators[0].target, ast.Name):
            fail(node, "comprehension shape")
        gen = node.generators[0]
        if expect is None:
            fail(node, "comprehension without a known type")
        over = self.coerce(self.eval(gen.iter, env), "list:json" if self.backend == "json" else "list:xml", node)
        var = gen.target.id
        env2 = dict(env)
        env2[var] = M(var, "json" if self.backend == "json" else "xml")
        outer = self.block
        self.block = Block()
        if isinstance(node, ast.DictComp):
            if expect != "props":
                fail(node, "dict comprehension where a %s is expected" % expect)
            k = self.coerce(self.eval(node.key, env2), "str", node)
            v = self.coerce(self.eval(node.value, env2), "str", node)
            elem, rty = "(%s, %s)" % (k, v), "pairs"
        else:
            ety = ELEM.get(expect)
            if ety is None or expect == "props":
                fail(node, "list comprehension where a %s is expected" % expect)
            elem, rty = self.coerce(self.eval(node.elt, env2, ety), ety, node), expect
        body = self.emit_block(self.block, "Ok %s" % elem)
        self.block = outer
        return M(self.bind("mapM (fun %s => %s) %s" % (var, body, over), "l"), rty)

    def condition(self, test, env):
        """-> Gallina bool expression"""
        if isinstance(test, ast.Compare) and len(test.ops) == 1:
            op, left, right = test.ops[0], test.left, test.comparators[0]
            if isinstance(op, ast.In) and isinstance(left, ast.Constant):
                k = self.keys.k(self.const_str(left))
                if isinstance(right, ast.Attribute) and right.attr == "attrib":
                    return "xhas_attr %s %s" % (k, self.coerce(self.eval(right.value, env), "xml", test))
                r = self.eval(right, env)
                if isinstance(r, M) and r.ty == "json":
                    return "jhas %s %s" % (k, r.expr)
                fail(test, "`in` on a non-JSON value")
            if isinstance(op, ast.Eq) and isinstance(right, ast.Constant) and isinstance(right.value, str):
                l = self.eval(left, env)
                if isinstance(l, M) and l.ty == "json":
                    return "json_eqb %s (JStr %s)" % (l.expr, self.keys.k(right.value))
                if isinstance(l, M) and l.ty == "str":
                    return "str_eqb %s %s" % (l.expr, self.keys.k(right.value))
                fail(test, "== on a %s" % getattr(l, "ty", l))
            if isinstance(op, ast.IsNot) and isinstance(right, ast.Constant) and right.value is None:
                l = self.eval(left, env)
                if isinstance(l, M) and l.ty == "json":
                    return "negb (jis_null %s)" % l.expr
                if isinstance(l, M) and l.ty in OPT:
                    return "is_some %s" % l.expr
                fail(test, "`is not None` on a %s" % getattr(l, "ty", l))
        fail(test, "condition shape")

    def call(self, node, env, expect):
        f, args = node.func, node.args
        fname = ast.unparse(f)
        if node.keywords:
            fail(node, "keyword arguments")
        if isinstance(f, ast.Name) and f.id in CLASSES:
            return self.new_obj(f.id, [self.eval(a, env) for a in args], node)
        if isinstance(f, ast.Name) and f.id in LOGS:
            ctor, fields = LOGS[f.id]
            if len(args) != len(fields):
                fail(node, "arity of %s()" % f.id)
            vals = [self.coerce(self.eval(a, env), t, node) for a, (_, t) in zip(args, fields)]
            return M("(%s %s)" % (ctor, " ".join(vals)), "log")
        if fname == "parse_iso8601_time" and len(args) == 1:
            v = self.eval(args[0], env)
            if isinstance(v, M) and v.ty == "json":
                return M(self.bind("dec_time tc %s" % v.expr, "t"), "time")
            if isinstance(v, M) and v.ty == "str":
                return M(self.bind("of_option ValueError (tparse tc %s)" % v.expr, "t"), "time")
            fail(node, "time parsing of a %s" % getattr(v, "ty", v))
        if fname == "int" and len(args) == 1:
            v = self.eval(args[0], env)
            if isinstance(v, M) and v.ty == "str":
                return M(self.bind("of_option ValueError (iparse tc %s)" % v.expr, "n"), "int")
            fail(node, "int() of a %s" % getattr(v, "ty", v))
        if isinstance(f, ast.Attribute) and f.attr == "get" and len(args) == 2 and isinstance(args[1], ast.Constant) \
                and args[1].value is None:
            k = self.keys.k(self.const_str(args[0]))
            if isinstance(f.value, ast.Attribute) and f.value.attr == "attrib":
                return M("(xattr_opt %s %s)" % (k, self.coerce(self.eval(f.value.value, env), "xml", node)), "ostr")
            b = self.eval(f.value, env)
            if isinstance(b, M) and b.ty == "json":
                return M("(jget_or_null %s %s)" % (k, b.expr), "json")
            fail(node, ".get shape")
        if isinstance(f, ast.Attribute) and f.attr in ("findall", "find") and len(args) == 1:
            e = self.coerce(self.eval(f.value, env), "xml", node)
            k = self.keys.k(self.const_str(args[0]))
            return M("(xfindall %s %s)" % (k, e), "list:xml") if f.attr == "findall" else M("(xfind %s %s)" % (k, e), "oxml")
        if isinstance(f, ast.Name) and f.id in self.sigs:
            gname, ptys, rty = self.sigs[f.id]
            if len(args) != len(ptys):
                fail(node, "arity")
            gargs = [self.coerce(self.eval(a, env), t, node) for a, t in zip(args, ptys)]
            if f.id in RECURSIVE:
                fuel = "fuel'" if f.id == self.current else "(%s %s)" % (FUEL[self.backend], gargs[0])
                gargs = [fuel] + gargs
            return M(self.bind("%s %s" % (gname, " ".join(gargs)), "x"), rty)
        fail(node, "call shape")

    # ------------------------------------------------------------ blocks
    def emit_block(self, block, final):
        if block.final is not None:
            final = block.final
        binds = list(block.binds)
        if binds and final == "Ok %s" % binds[-1][0]:
            out = binds.pop()[1]
        else:
            out = final
        for v, rhs in reversed(binds):
            out = "%s <- %s ;; %s" % (v, rhs, out)
        return "(%s)" % out if " " in out and not (out.startswith("(") and out.endswith(")") and _balanced(out[1:-1])) else out

    def snapshot(self, env):
        objs, seen = [], set()

        def walk(v):
            if isinstance(v, Obj) and id(v) not in seen:
                seen.add(id(v))
                objs.append(v)
                for x in v.fields.values():
                    walk(x)
        for v in env.values():
            walk(v)
        return dict(env), [(o, {k: (LList(x.parts) if isinstance(x, LList) else x) for k, x in o.fields.items()}) for o in objs]

    def restore(self, env, snap):
        env.clear()
        env.update(snap[0])
        for o, fields in snap[1]:
            o.fields = {k: (LList(x.parts) if isinstance(x, LList) else x) for k, x in fields.items()}

    def changes(self, env, snap, node):
        """slots (local variable or field of a pre-existing object) whose value changed since the snapshot"""
        res = []
        for k, v in env.items():
            if k not in snap[0] or snap[0][k] is not v:
                res.append((("var", k), v))
        for o, fields in snap[1]:
            for k, v in o.fields.items():
                old = fields[k]
                if isinstance(v, LList):
                    if v.parts != old.parts:
                        fail(node, "a list is extended under a condition")
                elif v is not old:
                    res.append((("field", o, k), v))
        return res

    def exec_block(self, stmts, env):
        """runs statements in self.block; returns True when the block terminated (return/raise)"""
        for i, st in enumerate(stmts):
            if self.exec_stmt(st, env):
                if i != len(stmts) - 1:
                    fail(st, "statements after a return/raise")
                return True
        return False

    def exec_stmt(self, st, env):
        if isinstance(st, ast.Expr) and isinstance(st.value, ast.Constant):
            return False
        if isinstance(st, ast.Return):
            if self.inline_depth:
                return "inline-return"
            v = self.eval(st.value, env, self.rty)
            self.block.final = "Ok %s" % self.coerce(v, self.rty, st)
            return True
        if isinstance(st, ast.Raise):
            exc = st.exc
            name = exc.func.id if isinstance(exc, ast.Call) and isinstance(exc.func, ast.Name) else None
            if name not in ERRORS:
                fail(st, "raise of an unknown exception")
            self.block.final = "Err %s" % ERRORS[name]
            return True
        if isinstance(st, ast.Assign) and len(st.targets) == 1:
            tgt = st.targets[0]
            if isinstance(tgt, ast.Name):
                env[tgt.id] = self.eval(st.value, env)
                return False
            if isinstance(tgt, ast.Attribute):
                o = self.eval(tgt.value, env)
                if not isinstance(o, Obj):
                    fail(st, "attribute assignment on a non-object")
                ty = self.field_type(o.cls, tgt.attr)
                v = self.eval(st.value, env, ty)
                if isinstance(v, Obj):
                    if OPT.get(ty) != CLASSES[v.cls]["type"]:
                        fail(st, "a %s stored in a field of type %s" % (v.cls, ty))
                    o.fields[tgt.attr] = v
                else:
                    o.fields[tgt.attr] = M(self.coerce(v, ty, st), ty)
                return False
            fail(st, "assignment target")
        if isinstance(st, ast.Expr) and isinstance(st.value, ast.Call):
            call = st.value
            f = call.func
            if isinstance(f, ast.Name) and f.id in INLINE[self.backend]:
                self.inline(f.id, call, env)
                return False
            if isinstance(f, ast.Attribute) and f.attr in ADDERS and len(call.args) == 1:
                o = self.eval(f.value, env)
                if not isinstance(o, Obj) or ADDERS[f.attr] not in o.fields:
                    fail(st, "%s on a non-container" % f.attr)
                ety = self.field_type(o.cls, ADDERS[f.attr])[5:]
                self.pending_appends.append((o, ADDERS[f.attr], self.coerce(self.eval(call.args[0], env), ety, st)))
                return False
            fail(st, "call statement")
        if isinstance(st, ast.For):
            return self.exec_for(st, env)
        if isinstance(st, ast.If):
            return self.exec_if(st, env)
        fail(st, "statement shape")

    def exec_for(self, st, env):
        if st.orelse or not isinstance(st.target, ast.Name):
            fail(st, "loop shape")
        ety = "json" if self.backend == "json" else "xml"
        over = self.coerce(self.eval(st.iter, env), "list:" + ety, st)
        var = st.target.id
        env2 = dict(env)
        env2[var] = M(var, ety)
        snap = self.snapshot(env)
        outer, outer_pending = self.block, self.pending_appends
        self.block, self.pending_appends = Block(), []
        if self.exec_block(st.body, env2):
            fail(st, "return/raise at the top of a loop body")
        if self.changes({k: v for k, v in env2.items() if k in env and k != var}, snap, st):
            fail(st, "a loop body assigns an outer variable or field")
        if len(self.pending_appends) != 1:
            fail(st, "a loop body must add exactly one element to exactly one list")
        o, field, elem = self.pending_appends[0]
        body = self.emit_block(self.block, "Ok %s" % elem)
        self.block, self.pending_appends = outer, outer_pending
        xs = self.bind("mapM (fun %s => %s) %s" % (var, body, over), "l")
        o.fields[field].parts.append(xs)
        if var in env:
            env[var] = POISONED        # Python leaves the last element in the variable; nothing may read it afterwards
        return False

    def exec_if(self, st, env):
        # `if x is not None:` on an optional element: a match that binds the element
        opt_elem = None
        t = st.test
        if isinstance(t, ast.Compare) and len(t.ops) == 1 and isinstance(t.ops[0], ast.IsNot) and isinstance(t.left, ast.Name) \
                and isinstance(env.get(t.left.id), M) and env[t.left.id].ty == "oxml":
            opt_elem = t.left.id
            cond = None
        else:
            cond = self.condition(t, env)
        snap = self.snapshot(env)
        outer = self.block
        results = []
        for body in (st.body, st.orelse):
            self.block = Block()
            env_b = env
            if opt_elem and body is st.body:
                env[opt_elem] = M(opt_elem + "'", "xml")
            if self.pending_appends_guard(lambda: self.exec_block(body, env)):
                results.append((self.block, None, True))
            else:
                ch = self.changes(env, snap, st)
                if opt_elem:
                    ch = [c for c in ch if c[0] != ("var", opt_elem)]
                results.append((self.block, ch, False))
            self.restore(env, snap)
        self.block = outer
        (b1, ch1, term1), (b2, ch2, term2) = results
        if term1 and term2:
            self.block.final = self.ite(cond, opt_elem, env, self.emit_block(b1, None), self.emit_block(b2, None))
            return True
        slots = []
        for ch in (ch1, ch2):
            for slot, _ in (ch or []):
                if slot not in slots:
                    slots.append(slot)
        if len(slots) != 1:
            fail(st, "the branches of an `if` must change exactly one variable or field (found %d)" % len(slots))
        slot = slots[0]
        if slot[0] == "field":
            ty = self.field_type(slot[1].cls, slot[2])
            old = slot[1].fields[slot[2]]
        else:
            ty, old = None, env.get(slot[1])
            for ch in (ch1, ch2):
                for s2, v in (ch or []):
                    if s2 == slot:
                        ty = ty or (CLASSES[v.cls]["type"] if isinstance(v, Obj) else v.ty)
        parts = []
        for blk, ch, term in results:
            if term:
                parts.append(self.emit_block(blk, None))
                continue
            new = dict((s2, v) for s2, v in ch).get(slot, old)
            if new is None:
                fail(st, "a branch leaves the variable unset")
            self.block = blk
            x = self.coerce(new, ty, st)
            parts.append(self.emit_block(blk, "Ok %s" % x))
        self.block = outer
        v = M(self.bind(self.ite(cond, opt_elem, env, parts[0], parts[1]), slot[2] if slot[0] == "field" else slot[1]), ty)
        if slot[0] == "field":
            slot[1].fields[slot[2]] = v
        else:
            env[slot[1]] = v
        return False

    def pending_appends_guard(self, thunk):
        n = len(self.pending_appends)
        r = thunk()
        if len(self.pending_appends) != n:
            raise TranslationError("an element is added to a list under a condition")
        return r

    def ite(self, cond, opt_elem, env, a, b):
        if opt_elem:
            return "(match %s with Some %s' => %s | None => %s end)" % (env[opt_elem].expr, opt_elem, a, b)
        return "(if %s then %s else %s)" % (cond, a, b)

    def inline(self, pyname, call, env):
        fn = self.funcs[pyname]
        params = [a.arg for a in fn.args.args]
        if len(params) != len(call.args) or call.keywords:
            fail(call, "arity of an inlined call")
        env2 = {p: self.eval(a, env) for p, a in zip(params, call.args)}
        self.inline_depth += 1
        try:
            for i, st in enumerate(fn.body):
                r = self.exec_stmt(st, env2)
                if r == "inline-return":
                    if i != len(fn.body) - 1:
                        fail(st, "return before the end of an inlined function")
                elif r:
                    fail(st, "an inlined function raises at top level")
        finally:
            self.inline_depth -= 1

    def flush_appends(self):
        for o, field, elem in self.pending_appends:
            o.fields[field].parts.append("[%s]" % elem)
        self.pending_appends = []

    # ------------------------------------------------------------ one function
    def translate(self, pyname):
        fn = self.funcs[pyname]
        gname, ptys, rty = self.sigs[pyname]
        self.current, self.rty, self.inline_depth = pyname, rty, 0
        params = [a.arg for a in fn.args.args]
        if len(params) != len(ptys) or fn.args.vararg or fn.args.kwarg or fn.args.kwonlyargs or fn.args.defaults:
            fail(fn, "signature of %s" % pyname)
        env = {p: M(p, t) for p, t in zip(params, ptys)}
        self.block, self.pending_appends = Block(), []
        top = self.block
        # appends outside loops are applied immediately
        for i, st in enumerate(fn.body):
            done = self.exec_stmt(st, env)
            self.flush_appends()
            if done:
                if i != len(fn.body) - 1:
                    fail(st, "statements after a return/raise")
                break
        else:
            fail(fn, "%s does not end with a return" % pyname)
        body = self.emit_block(top, None)
        binders = " ".join("(%s : %s)" % (p, gtype(t)) for p, t in zip(params, ptys))
        src = {"json": "json_", "xml": "xml"}[self.backend]
        if pyname in RECURSIVE:
            return ("(* %s.py: %s; the recursion of the Python function is on the nesting of its argument: fuel = depth *)\n"
                    "Fixpoint %s (fuel : nat) %s {struct fuel} : res (%s) :=\n  match fuel with\n  | O => Err OutOfFuel\n"
                    "  | S fuel' =>\n    %s\n  end.\n") % (src, pyname, gname, binders, gtype(rty), body)
        return "(* %s.py: %s *)\nDefinition %s %s : res (%s) :=\n  %s.\n" % (src, pyname, gname, binders, gtype(rty), body)


# ======================================================================================= driver
def parse_functions(path):
    tree = ast.parse(open(path, encoding="utf-8").read())
    return {n.name: n for n in tree.body if isinstance(n, ast.FunctionDef)}, tree


def fn_hash(fn):
    # ast.unparse normalises layout and comments; the harness always runs under the same interpreter (/venv, 3.12)
    return hashlib.sha256(ast.unparse(fn).encode()).hexdigest()[:16]


HEADER = """(* GENERATED by harness/tables_codec.py from the current source of
     %s
   (symbolic execution of the Python ast; see the translator for the schema). DO NOT EDIT: regenerated by every check run.
   Model/Json.v and Model/Xml.v define the primitives used here. *)
From Coq Require Import List NArith ZArith Bool.
Import ListNotations.
From LCC Require Import Base.Util Model.Report Model.Time Model.Json Model.Xml.

(* ---- string constants of the source ---- *)
%s

(* lemoncheesecake.__version__ : never read back; the check canonicalises it *)
Definition lcc_version : str := K_VERSION.
(* Report.DEFAULT_TITLE *)
Definition default_title : str := %s.
(* dict.update on a JSON object *)
Definition jupdate (j : json) (entries : list (str * json)) : json :=
  match j with
  | JObj l => JObj (fold_left (fun d kv => dict_set (fst kv) (snd kv) d) entries l)
  | _ => j
  end.

Section Codec.
Variable tc : textcodec.

"""


def check_report_classes(repo):
    """the schema above is a reading of reporting/report.py: check what can be checked mechanically"""
    path = os.path.join(repo, "lemoncheesecake/reporting/report.py")
    tree = ast.parse(open(path, encoding="utf-8").read())
    classes = {n.name: n for n in tree.body if isinstance(n, ast.ClassDef)}

    def init_params(cls):
        for n in classes[cls].body:
            if isinstance(n, ast.FunctionDef) and n.name == "__init__":
                return [a.arg for a in n.args.args][1:]
        raise TranslationError("no __init__ in %s" % cls)
    for cls, want in LOG_INIT.items():
        if cls not in classes or init_params(cls) != want:
            raise TranslationError("report.py: constructor of %s changed: %s" % (cls, init_params(cls) if cls in classes else None))
        # each attribute of the schema is assigned from the parameter of the same position
        assigned = {}
        for n in ast.walk(classes[cls]):
            if isinstance(n, (ast.Assign, ast.AnnAssign)):
                tgt = n.targets[0] if isinstance(n, ast.Assign) else n.target
                if isinstance(tgt, ast.Attribute) and isinstance(tgt.value, ast.Name) and tgt.value.id == "self" \
                        and isinstance(n.value, ast.Name):
                    assigned[tgt.attr] = n.value.id
        for (attr, _), param in zip(LOGS[cls][1], want):
            if attr == "time":
                continue     # StepLog.__init__(ts)
            if assigned.get(attr) != param:
                raise TranslationError("report.py: %s.%s is not the constructor argument %s" % (cls, attr, param))
    for cls, spec in CLASSES.items():
        if cls not in classes or init_params(cls) != spec["init"]:
            raise TranslationError("report.py: constructor of %s changed" % cls)
    title = None
    for n in classes["Report"].body:
        if isinstance(n, ast.Assign) and isinstance(n.targets[0], ast.Name) and n.targets[0].id == "DEFAULT_TITLE" \
                and isinstance(n.value, ast.Constant):
            title = n.value.value
    if not isinstance(title, str):
        raise TranslationError("report.py: Report.DEFAULT_TITLE not found")
    # accessor methods used by the serializers return the lists in insertion / rank order (normal form)
    return title


def pinned_hashes(repo):
    res = {}
    for rel, names in PINNED.items():
        funcs, _ = parse_functions(os.path.join(repo, rel))
        for n in names:
            if n not in funcs:
                raise TranslationError("%s: function %s disappeared" % (rel, n))
            res["%s:%s" % (rel, n)] = fn_hash(funcs[n])
    return res


def generate(repo):
    """fail-closed: when the source cannot be translated the stale generated file is replaced by one that does not compile,
    so that nothing is proved or evaluated against definitions that no longer describe the source"""
    try:
        return _generate(repo)
    except TranslationError as e:
        import tables
        os.makedirs(tables.GEN, exist_ok=True)
        with open(os.path.join(tables.GEN, "TablesCodec.v"), "w", encoding="utf-8") as f:
            f.write("(* GENERATION FAILED: %s *)\nDefinition translation_failed : False := I.\n" % str(e).replace("*)", "* )"))
        raise


def _generate(repo):
    title = check_report_classes(repo)
    got = pinned_hashes(repo)
    for k, h in got.items():
        if PINNED_HASHES.get(k) != h:
            raise TranslationError("%s changed (ast hash %s, modelled by hand for hash %s): the hand-written model of this "
                                   "helper is no longer known to describe it" % (k, h, PINNED_HASHES.get(k)))
    keys = Keys()
    keys.k("VERSION")
    tk = keys.k(title)
    out = []
    files = []
    for backend, fname in (("json", "json_.py"), ("xml", "xml.py")):
        rel = "lemoncheesecake/reporting/backends/" + fname
        files.append(rel)
        funcs, tree = parse_functions(os.path.join(repo, rel))
        expected = set(SIGS[backend]) | set(MUTATORS[backend]) | set(INLINE[backend]) | set(PINNED[rel])
        for name in funcs:
            if name not in expected:
                raise TranslationError("%s: unknown function %s (not in the translator's schema)" % (rel, name))
        for name in expected:
            if name not in funcs:
                raise TranslationError("%s: function %s disappeared" % (rel, name))
        st = SaveTranslator(backend, funcs, keys)
        out.append("(* ================= %s : serializers ================= *)" % rel)
        for name in SAVE_ORDER[backend]:
            out.append(st.translate_mutator(name) if name in MUTATORS[backend] else st.translate(name))
        lt = LoadTranslator(backend, funcs, keys)
        out.append("(* ================= %s : unserializers ================= *)" % rel)
        for name in LOAD_ORDER[backend]:
            out.append(lt.translate(name))
    text = HEADER % ("\n     ".join(files), keys.defs(), tk) + "\n".join(out) + "\nEnd Codec.\n"
    return {"TablesCodec.v": text}


PINNED_HASHES = {
    "lemoncheesecake/reporting/backends/xml.py:indent_xml": "e0c5efb1485aaf98",
    "lemoncheesecake/reporting/backends/xml.py:make_xml_node": "edf58ca712206c96",
    "lemoncheesecake/reporting/backends/xml.py:make_xml_child": "6793b4b5259f09d6",
    "lemoncheesecake/reporting/backends/xml.py:serialize_report_as_string": "bfc5328e0cf8ea32",
    "lemoncheesecake/reporting/backends/xml.py:save_report_into_file": "134b0048f37e98b4",
    "lemoncheesecake/reporting/backends/xml.py:load_report_from_file": "18ab9b543b63a5c4",
    "lemoncheesecake/reporting/backends/json_.py:save_report_into_file": "36735d542efc50a0",
    "lemoncheesecake/reporting/backends/json_.py:load_report_from_file": "ea56b12d87fbfa5a",
    "lemoncheesecake/reporting/report.py:format_time_as_iso8601": "c4f671501622e1d4",
    "lemoncheesecake/reporting/report.py:parse_iso8601_time": "987a56db3d594636",
    "lemoncheesecake/reporting/loader.py:load_report_from_file": "8d65d0ce612e02bd",
    "lemoncheesecake/reporting/backend.py:atomic_write": "abbabe26ef202b00"
}


if __name__ == "__main__":
    import sys
    repo = sys.argv[1] if len(sys.argv) > 1 else os.environ.get("VERIF_REPO", "/repo")
    if "--hashes" in sys.argv:
        import json
        print(json.dumps(pinned_hashes(repo), indent=4))
    else:
        sys.stdout.write(generate(repo)["TablesCodec.v"])
