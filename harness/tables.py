"""Registry of the source -> Coq translators. Every harness/tables_*.py module defines
     PROPS = ["C09", ...]           properties whose theorems depend on the generated file
     def generate(repo) -> {relative path under coq/theories/gen : text}
   and raises TranslationError on any source shape it does not recognise (fail-closed)."""
import glob
import importlib
import os

HERE = os.path.dirname(os.path.abspath(__file__))
GEN = os.path.join(os.path.dirname(HERE), "coq", "theories", "gen")


class TranslationError(Exception):
    pass


def modules():
    return sorted(os.path.basename(p)[:-3] for p in glob.glob(os.path.join(HERE, "tables_*.py")))


def regenerate(prop=None, repo=None):
    """Regenerates gen/*.v from the current source (files are rewritten only when their content changes, so that make stays
    incremental). Returns the list of files written. Raises TranslationError (fail-closed)."""
    repo = repo or os.environ.get("VERIF_REPO", "/repo")
    os.makedirs(GEN, exist_ok=True)
    written = []
    for name in modules():
        mod = importlib.import_module(name)
        if prop is not None and prop not in getattr(mod, "PROPS", []):
            continue
        for rel, text in mod.generate(repo).items():
            path = os.path.join(GEN, rel)
            old = open(path, encoding="utf-8").read() if os.path.exists(path) else None
            if old != text:
                with open(path, "w", encoding="utf-8") as f:
                    f.write(text)
            written.append(path)
    return written
