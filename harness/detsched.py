"""Deterministic scheduler for the real lemoncheesecake runner (DESIGN.md 4.3).

Exactly one participating thread runs at any time (baton passing). Participating threads: the main thread (run_tasks),
the N workers of the Pool double, the event-handler thread (events.threading shim) and lcc.Thread threads spawned by
generated user code (CThread). A thread gives the baton back at *yield points*:
    worker take | before every AsyncEventManager.fire | user Mark actions | completion put | main get | handler get | joins
and the controller then grants the baton to  enabled[c mod k]  where c is the next number of the schedule and `enabled`
is the list of waiting threads whose blocking condition holds, sorted by thread name. Everything else is the real code.
Only module globals are patched (no change to /repo):
    lemoncheesecake.task.Pool / .Queue / .run_task / .skip_task, lemoncheesecake.events.Queue / .threading,
    AsyncEventManager.fire (wrapped).
The controller records the global linear trace (the thread holding the baton appends to it), so the trace is an exact
linearisation of what happened."""
import threading
import time

import lemoncheesecake.events as lcc_events
import lemoncheesecake.task as lcc_task


class SchedAbort(BaseException):
    """Raised inside participating threads to unwind them when the controller aborts the run (deadlock / watchdog)."""


class _T:
    def __init__(self, name):
        self.name = name
        self.sem = threading.Semaphore(0)
        self.waiting = False
        self.label = None
        self.enabled = lambda: True
        self.done = False
        self.ident = None


class Controller:
    def __init__(self, sched, max_steps=200000):
        self.sched = list(sched)
        self.pos = 0
        self.threads = {}            # name -> _T
        self.by_ident = {}
        self.trace = []              # global linear trace of atoms (tuples)
        self.decisions = []          # (chosen thread, label, [enabled thread names])
        self.aborted = None          # reason string when the run was aborted by the controller
        self.max_steps = max_steps
        self.guard = threading.Lock()
        self.interrupt_at = None     # k: the k-th main get raises KeyboardInterrupt (0-based)
        self.main_gets = 0
        self.spawn_count = 0

    # ---- thread registry
    def register_current(self, name):
        t = _T(name)
        t.ident = threading.get_ident()
        self.threads[name] = t
        self.by_ident[t.ident] = t
        return t

    def prepare(self, name, label, enabled):
        """Called by the creator (holding the baton) before the new thread is started."""
        t = _T(name)
        t.waiting, t.label, t.enabled = True, label, enabled
        self.threads[name] = t
        return t

    def me(self):
        return self.by_ident[threading.get_ident()]

    def enter(self, t):
        """First action of a created thread: wait to be granted."""
        t.ident = threading.get_ident()
        self.by_ident[t.ident] = t
        t.sem.acquire()
        t.waiting = False
        if self.aborted:
            raise SchedAbort(self.aborted)

    # ---- scheduling
    def _next_choice(self, k):
        if self.pos < len(self.sched):
            c = self.sched[self.pos]
        else:
            c = 0
        self.pos += 1
        return c % k

    def _dispatch(self):
        """Choose the next thread to run among the enabled waiting ones and release it."""
        if self.aborted:
            self._release_all()
            return
        cands = sorted((t for t in self.threads.values() if t.waiting and not t.done and t.enabled()),
                       key=lambda t: t.name)
        if not cands:
            alive = [t.name for t in self.threads.values() if not t.done]
            if alive:
                self.aborted = "deadlock: no enabled thread among %s" % (
                    [(t.name, t.label) for t in self.threads.values() if not t.done],)
                self._release_all()
            return
        if len(self.decisions) > self.max_steps:
            self.aborted = "step budget exhausted"
            self._release_all()
            return
        t = cands[self._next_choice(len(cands))]
        self.decisions.append((t.name, t.label, [c.name for c in cands]))
        t.sem.release()

    def _release_all(self):
        for t in self.threads.values():
            if t.waiting and not t.done:
                t.sem.release()

    def yield_(self, label, enabled=None):
        t = self.me()
        t.label, t.enabled, t.waiting = label, (enabled or (lambda: True)), True
        self._dispatch()
        t.sem.acquire()
        t.waiting = False
        if self.aborted:
            raise SchedAbort(self.aborted)

    def thread_exit(self):
        t = self.me()
        t.done = True
        t.waiting = False
        self._dispatch()

    def record(self, *atom):
        self.trace.append((self.me().name,) + atom)


CTL = None   # the controller of the run in progress


# ------------------------------------------------------------------------------------------ doubles
class PoolDouble:
    """multiprocessing.dummy.Pool: n worker threads taking jobs from a FIFO queue."""

    def __init__(self, n):
        self.jobs = []
        self.closed = False
        self.workers = []
        ctl = CTL
        for i in range(n):
            name = "w%02d" % i
            t = ctl.prepare(name, ("take",), lambda: bool(self.jobs) or self.closed)
            th = threading.Thread(target=self._loop, args=(t,), daemon=True)
            self.workers.append(th)
            th.start()

    def _loop(self, t):
        ctl = CTL
        try:
            ctl.enter(t)
            while True:
                if not self.jobs:
                    if self.closed:
                        break
                    ctl.yield_(("take",), lambda: bool(self.jobs) or self.closed)
                    continue
                func, args = self.jobs.pop(0)
                ctl.record("take", getattr(func, "__name__", "?"), task_label(args[0]))
                try:
                    func(*args)
                except Exception as e:   # ThreadPool swallows the exception into the AsyncResult
                    ctl.record("job_exception", type(e).__name__)
                except SchedAbort:
                    raise
                except BaseException as e:
                    # a real ThreadPool worker thread dies here without completing the job's bookkeeping;
                    # the pool's maintenance thread replaces it, which this loop emulates by carrying on
                    ctl.record("worker_died", type(e).__name__)
                ctl.yield_(("take",), lambda: bool(self.jobs) or self.closed)
        except SchedAbort:
            pass
        finally:
            try:
                ctl.thread_exit()
            except Exception:
                pass

    def apply_async(self, func, args=()):
        CTL.record("dispatch", getattr(func, "__name__", "?"), task_label(args[0]))
        self.jobs.append((func, args))

    def close(self):
        self.closed = True

    def join(self):
        pass


class TaskQueueDouble:
    """The completed-tasks queue of run_tasks."""

    def __init__(self):
        self.items = []

    def put(self, task):
        ctl = CTL
        ctl.yield_(("put", task_label(task)))
        ctl.record("finish", task_label(task), result_label(task.result))
        self.items.append(task)

    def get(self):
        ctl = CTL
        k = ctl.main_gets
        ctl.main_gets += 1
        if ctl.interrupt_at is not None and k == ctl.interrupt_at:
            ctl.yield_(("main_get_interrupt",))
            ctl.record("interrupt")
            raise KeyboardInterrupt()
        ctl.yield_(("main_get",), lambda: bool(self.items))
        task = self.items.pop(0)
        ctl.record("main_get", task_label(task))
        return task


class EventQueueDouble:
    """Stands for queue.Queue in lemoncheesecake.events.  A bounded queue (maxsize > 0) makes put a blocking operation: a yield
    point that is enabled only while there is room (so a producer that can never be served shows up as a deadlock of the run)."""

    def __init__(self, maxsize=0):
        self.items = []
        self.maxsize = int(maxsize or 0)

    def put(self, ev, block=True, timeout=None):
        if self.maxsize > 0:
            CTL.yield_(("qput",), lambda: len(self.items) < self.maxsize)
        self.items.append(ev)

    def get(self):
        ctl = CTL
        ctl.yield_(("hget",), lambda: bool(self.items))
        ev = self.items.pop(0)
        ctl.record("handle", event_label(ev))
        return ev

    def task_done(self):
        pass


class _ThreadingShim:
    """Stands for the `threading` module inside lemoncheesecake.events: the handler thread is a participant."""

    class Thread:
        def __init__(self, target=None, args=(), kwargs=None):
            self.target, self.args, self.kwargs = target, args, kwargs or {}
            self.t = None
            self.th = None

        def start(self):
            ctl = CTL
            self.t = ctl.prepare("h", ("hget",), lambda: False)   # enabled condition is refreshed at its first yield
            self.t.enabled = lambda: True                          # first step: run until the first get()
            self.th = threading.Thread(target=self._run, daemon=True)
            self.th.start()

        def _run(self):
            ctl = CTL
            try:
                ctl.enter(self.t)
                self.target(*self.args, **self.kwargs)
            except SchedAbort:
                pass
            finally:
                ctl.thread_exit()

        def join(self):
            ctl = CTL
            ctl.yield_(("join_handler",), lambda: self.t.done)

    @staticmethod
    def current_thread():
        return threading.current_thread()


def make_cthread_class():
    """lcc.Thread under the controller (used by generated user code for ASpawn)."""
    import lemoncheesecake.session as lcc_session

    class CThread(lcc_session.Thread):
        def __init__(self, *a, **kw):
            super().__init__(*a, **kw)
            self.daemon = True
            ctl = CTL
            ctl.spawn_count += 1
            self._cname = "u%02d" % ctl.spawn_count
            self._ct = None

        def start(self):
            self._ct = CTL.prepare(self._cname, ("born",), lambda: True)
            super().start()

        def run(self):
            ctl = CTL
            try:
                ctl.enter(self._ct)
                super().run()
            except SchedAbort:
                pass
            finally:
                ctl.thread_exit()

        def cjoin(self):
            CTL.yield_(("ujoin", self._cname), lambda: self._ct.done)

    return CThread


# ------------------------------------------------------------------------------------------ labels
def task_label(task):
    cls = type(task).__name__
    if hasattr(task, "test"):
        return (cls, task.test.path)
    if hasattr(task, "suite"):
        return (cls, task.suite.path)
    return (cls, "")


def result_label(res):
    cls = type(res).__name__
    if cls == "TaskResultSuccess":
        return ("success",)
    if cls == "TaskResultFailure":
        return ("failure", res.reason)
    if cls == "TaskResultSkipped":
        return ("skipped", res.reason)
    if cls == "TaskResultException":
        return ("exception", (res.stacktrace or "").strip().split("\n")[-1][:200])
    return (cls,)


def event_label(ev):
    if ev is None:
        return ("sentinel",)
    name = ev.get_name()
    out = [name]
    for attr in ("suite", "test"):
        if hasattr(ev, attr):
            out.append(getattr(ev, attr).path)
            break
    if hasattr(ev, "location") and ev.location is not None:
        loc = ev.location
        out.append(("loc", loc.node_type, ".".join(loc.node_hierarchy) if loc.node_hierarchy else ""))
    if hasattr(ev, "thread_id"):
        out.append(("thread", getattr(ev, "_verif_thread", "T?%s" % ev.thread_id)))
    for attr in ("step", "step_description", "log_level", "log_message", "check_description", "check_is_successful",
                 "check_details", "url", "url_description", "attachment_path", "attachment_description", "as_image",
                 "skipped_reason", "disabled_reason"):
        if hasattr(ev, attr):
            out.append((attr, getattr(ev, attr)))
    return tuple(out)


# ------------------------------------------------------------------------------------------ installation
class Installed:
    """Context manager installing the doubles for one run."""

    def __init__(self, ctl):
        self.ctl = ctl

    def __enter__(self):
        global CTL
        CTL = self.ctl
        self.saved = (lcc_task.Pool, lcc_task.Queue, lcc_task.run_task, lcc_task.skip_task,
                      lcc_events.Queue, lcc_events.threading, lcc_events.AsyncEventManager.fire)
        lcc_task.Pool = PoolDouble
        lcc_task.Queue = TaskQueueDouble
        orig_run, orig_skip = self.saved[2], self.saved[3]

        def run_task(task, context, q):
            CTL.record("decide", task_label(task), ("run",))
            return orig_run(task, context, q)
        run_task.__name__ = "run_task"

        def skip_task(task, context, q, reason=""):
            CTL.record("decide", task_label(task), ("skip", reason))
            return orig_skip(task, context, q, reason)
        skip_task.__name__ = "skip_task"
        lcc_task.run_task = run_task
        lcc_task.skip_task = skip_task
        lcc_events.Queue = EventQueueDouble
        lcc_events.threading = _ThreadingShim
        orig_fire = self.saved[6]

        def fire(self_, event):
            ctl = CTL
            if threading.get_ident() in ctl.by_ident:
                ctl.yield_(("fire", event.get_name()))
                # thread idents are reused by the OS once a thread is dead: remember the controller's name of the firing thread
                event._verif_thread = ctl.me().name
                ctl.record("fire", event_label(event))
            return orig_fire(self_, event)
        lcc_events.AsyncEventManager.fire = fire
        self._install_flag_probes()
        self.ctl.register_current("main")
        return self.ctl

    def _install_flag_probes(self):
        """Record, at the exact point of mutation, every change of the state read by RunContext.is_task_to_be_skipped."""
        import lemoncheesecake.runner as lcc_runner
        import lemoncheesecake.session as lcc_session
        self.saved_probes = (lcc_session.Session._mark_location_as_failed, lcc_runner.RunContext.__init__,
                             lcc_runner.RunContext.__dict__.get("__setattr__"),
                             lcc_events.AsyncEventManager.__dict__.get("__setattr__"))
        orig_mark = self.saved_probes[0]

        def _mark_location_as_failed(self_, location):
            orig_mark(self_, location)
            if threading.get_ident() in CTL.by_ident:
                CTL.record("flag", "failure", (location.node_type, ".".join(location.node_hierarchy or ())))
        lcc_session.Session._mark_location_as_failed = _mark_location_as_failed

        class RecSet(set):
            def add(self_, suite):
                set.add(self_, suite)
                CTL.record("flag", "aborted_suite", getattr(suite, "path", None))
        orig_init = self.saved_probes[1]

        def ctx_init(self_, *a, **kw):
            orig_init(self_, *a, **kw)
            object.__setattr__(self_, "_aborted_suites", RecSet())
        lcc_runner.RunContext.__init__ = ctx_init

        def ctx_setattr(self_, name, value):
            object.__setattr__(self_, name, value)
            if value is True and name in ("_aborted_session", "_tasks_aborted") and CTL is not None:
                CTL.record("flag", name)
        lcc_runner.RunContext.__setattr__ = ctx_setattr

        def em_setattr(self_, name, value):
            object.__setattr__(self_, name, value)
            if name == "_pending_failure" and value[0] is not None and CTL is not None:
                CTL.record("flag", "pending", str(value[0]) == "", type(value[0]).__name__, str(value[0]))
        lcc_events.AsyncEventManager.__setattr__ = em_setattr

    def _remove_flag_probes(self):
        import lemoncheesecake.runner as lcc_runner
        import lemoncheesecake.session as lcc_session
        lcc_session.Session._mark_location_as_failed = self.saved_probes[0]
        lcc_runner.RunContext.__init__ = self.saved_probes[1]
        for cls, old in ((lcc_runner.RunContext, self.saved_probes[2]), (lcc_events.AsyncEventManager, self.saved_probes[3])):
            if old is None:
                try:
                    delattr(cls, "__setattr__")
                except AttributeError:
                    pass
            else:
                cls.__setattr__ = old

    def __exit__(self, *a):
        global CTL
        (lcc_task.Pool, lcc_task.Queue, lcc_task.run_task, lcc_task.skip_task,
         lcc_events.Queue, lcc_events.threading, lcc_events.AsyncEventManager.fire) = self.saved
        self._remove_flag_probes()
        # unblock whatever is still waiting so that daemon threads can unwind
        if not self.ctl.aborted:
            self.ctl.aborted = "run finished"
        self.ctl._release_all()
        CTL = None
        return False
