"""Layer-1 correspondence: the implementation's task graph and task-level trace as Gallina terms for Model/Sched.v."""
import projbuild
from lib import c_list, c_bool, c_opt

KINDS = {"TestSessionSetupTask": "KSessionSetup", "SuiteBeginningTask": "KSuiteBegin", "SuiteInitializationTask": "KSuiteInit",
         "TestTask": "KTest", "SuiteTeardownTask": "KSuiteTeardown", "SuiteEndingTask": "KSuiteEnd",
         "TestSessionTeardownTask": "KSessionTeardown"}

REASON_STRINGS = {
    "tests have been manually stopped": "RManuallyStopped",
    "tests have been aborted": "RAbortedAll",
    "the tests of this test suite have been aborted": "RAbortedSuite",
    "tests have been aborted on --stop-on-failure": "RStopOnFailure",
    "tests have been interrupted by the user": "RInterrupted",
}


class Unmodelled(Exception):
    """The trace contains something the Gallina printer has no term for (fail-closed)."""


def c_path(p):
    if not p:
        return "[]"
    return c_list([projbuild.num(x) for x in p.split(".")], str)


def c_graph(graph):
    items = []
    for t in graph:
        for d in t["succ"] + t["compl"]:
            if d < 0:
                raise Unmodelled("dependency on a task that is not in the task list: %r" % (t,))
        items.append("mkTask %s %s %s %s" % (KINDS[t["label"][0]], c_path(t["label"][1]), c_list(t["succ"], str),
                                            c_list(t["compl"], str)))
    return "[" + ";\n    ".join(items) + "]"


class L1:
    def __init__(self, graph, handler_text=None):
        self.graph = graph
        self.index = {tuple(t["label"]): i for i, t in enumerate(graph)}
        self.failure_text = {}
        for i, t in enumerate(graph):
            k, p = t["label"]
            if k == "TestTask":
                self.failure_text["test '%s' failed" % p] = i
            elif k == "SuiteInitializationTask":
                self.failure_text["suite '%s' setup failed" % p] = i
            elif k == "TestSessionSetupTask":
                self.failure_text["test session setup failed"] = i
        self.pending_texts = set()

    def tid(self, label):
        return self.index[tuple(label)]

    def reason(self, text):
        """Python reason string -> Gallina `option reason`."""
        if text is None:
            return "None"
        if text in REASON_STRINGS:
            return "(Some %s)" % REASON_STRINGS[text]
        if text in self.failure_text:
            return "(Some (RTaskFailed %d))" % self.failure_text[text]
        if text in self.pending_texts:
            return "(Some (RHandler %s))" % c_bool(text == "")
        raise Unmodelled("unknown reason string %r" % (text,))

    def result(self, res):
        k = res[0]
        if k == "success":
            return "ResSuccess"
        if k == "failure":
            r = self.reason(res[1])
            if r == "None":
                raise Unmodelled("failure without reason")
            return "(ResFailure %s)" % r[6:-1]
        if k == "skipped":
            return "(ResSkipped %s)" % self.reason(res[1])
        if k == "exception":
            return "ResException"
        raise Unmodelled("result %r" % (res,))

    def moves(self, trace, pending_text=None):
        """The task-level moves of a linear trace, in order. Returns (list of Gallina moves, list of readable moves)."""
        out, human = [], []
        i, n = 0, len(trace)
        while i < n:
            a = trace[i]
            op = a[1]
            if op == "take":
                # the decision is recorded in the same baton hold, right after the take
                label = a[3]
                j = i + 1
                while j < n and not (trace[j][1] == "decide" and trace[j][0] == a[0]):
                    if trace[j][0] == a[0] and trace[j][1] not in ("flag",):
                        raise Unmodelled("no decision after take: %r then %r" % (a, trace[j]))
                    j += 1
                if j >= n:
                    raise Unmodelled("take without decision: %r" % (a,))
                d = trace[j][3]
                if d[0] == "run":
                    m = "Run"
                else:
                    m = "(Skip %s)" % self.reason(d[1])
                out.append("MTake %d %s" % (self.tid(label), m))
                human.append(["take", label, d])
            elif op == "finish":
                out.append("MFinish %d %s" % (self.tid(a[2]), self.result(a[3])))
                human.append(["finish", a[2], a[3]])
            elif op == "main_get":
                out.append("MMain %d" % self.tid(a[2]))
                human.append(["main", a[2]])
            elif op == "interrupt":
                out.append("MInterrupt")
                human.append(["interrupt"])
            elif op == "worker_died":
                # the job this worker was running dies with it
                label = self._last_take(trace, i, a[0])
                out.append("MDie %d" % self.tid(label))
                human.append(["die", label])
            elif op == "flag":
                k = a[2]
                if k == "failure":
                    out.append("MFlag FFailure")
                elif k == "aborted_suite":
                    out.append("MFlag (FAbortedSuite %s)" % c_path(a[3]))
                elif k == "_aborted_session":
                    out.append("MFlag FAbortedSession")
                elif k == "_tasks_aborted":
                    out.append("MFlag FTasksAborted")
                elif k == "pending":
                    self.pending_texts.add(a[5])
                    out.append("MFlag (FPending %s)" % c_bool(a[3]))
                else:
                    raise Unmodelled("flag %r" % (a,))
                human.append(["flag"] + list(a[2:]))
            i += 1
        return out, human

    @staticmethod
    def _last_take(trace, i, thread):
        for j in range(i - 1, -1, -1):
            if trace[j][0] == thread and trace[j][1] == "take":
                return trace[j][3]
        raise Unmodelled("worker died without a job")


def dispatch_groups(trace):
    """For the dispatch-order check: the list of (after-what, [dispatched labels]) in trace order."""
    groups, cur = [], None
    for a in trace:
        if a[1] in ("main_get", "interrupt"):
            cur = [a[1:], []]
            groups.append(cur)
        elif a[1] == "dispatch":
            if cur is None:
                cur = [["init"], []]
                groups.append(cur)
            cur[1].append([a[2], a[3]])
    return groups
