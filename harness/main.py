import argparse
import importlib
import os
import sys
import traceback

sys.path.insert(0, os.path.dirname(os.path.abspath(__file__)))
import lib


def main():
    ap = argparse.ArgumentParser()
    ap.add_argument("prop")
    ap.add_argument("--tier", default=os.environ.get("VERIF_TIER", "quick"), choices=["quick", "thorough"])
    ap.add_argument("--replay")
    ap.add_argument("--seed", type=int, default=int(os.environ.get("VERIF_SEED", "20260930")))
    a = ap.parse_args()
    mod = importlib.import_module("props." + a.prop.lower())
    if a.replay:
        sys.exit(mod.replay(a.replay))
    run = lib.Run(a.prop, a.tier, a.seed)
    try:
        mod.check(run)
    except Exception:
        # a crash of the machinery is reported as a broken tie, never silently passed
        run.tie_broken("check crashed", detail=traceback.format_exc()[-4000:])
        traceback.print_exc()
    sys.exit(run.finish())


main()
