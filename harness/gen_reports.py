"""Seeded generator of lemoncheesecake reports, shared (read-only) by the report checks (C09 save/load, C18 replay, C20 views).

A report is handled in three forms:
  * a DESCRIPTION: plain JSON-able Python data that mirrors coq/theories/Model/Report.v field by field (see gen_report);
  * the REAL objects of lemoncheesecake.reporting.report (build_report: description -> Report, normal_form: Report -> description);
  * a Gallina term of type `report` (to_gallina).
Only the `rng` argument is used for randomness.  Nothing here touches the file system except the self-test.
"""
import copy

from lib import c_str, c_Z, c_opt, c_list, c_bool

# ---------------------------------------------------------------------------------------------------------------- strings
PLAIN_WORDS = [
    "alpha", "beta", "gamma", "delta", "login", "logout", "user", "admin", "check", "value", "expected", "got", "status",
    "request", "response", "http", "timeout", "retry", "file", "report", "suite", "test", "setup", "teardown", "step",
    "foo", "bar", "baz", "qux", "x", "y", "z", "A", "B", "ok", "ko", "42", "0", "v1", "v2", "slow", "fast", "net", "db",
]

ADVERSARIAL_STRINGS = [
    "", " ", "  ", " lead", "trail ", "\t", "\n", "a\nb", "a\rb", "a\r\nb", "\r",
    '<&>"\'', "]]>", "<!--", "&amp;", "<", "&", ">", '"', "'", "&#10;", "<![CDATA[x]]>", "</log>",
    "\xe9", "\u65e5\u672c\u8a9e", "\U0001F600", "\U00010000", "\U0010FFFD",
    "\x00", "\x01", "\x0b", "\x0c", "\x1f", "\x7f", "\x85", "\x9f", "\xa0", "\u2028", "\u3000",
    "\ufffe", "\uffff", "\ud800", "\udfff", "a\ud800b", "\ud83d\ude00", "\ufeff", "\ufffd",
    # mixed
    " a\tb ", "\n lead", "trail\n", "a\n\nb", "a  b", "x\x00y", "x\x01y", "x\x85y", "x\uffffy", "caf\xe9 <b>\"q\"</b>",
    "\U0001F600&\xe9\n", "tab\tsep", "a\x0bb\x1fc", "{}", "{0}", "%s", "a.b", "a/b", "..", "\\", "a\\nb",
    # text that looks like the framing of a report file (the JavaScript prefix of report.js, an XML prolog)
    "var reporting_data = ", "x var reporting_data = {\"a\": 1}", "<?xml version='1.0'?>",
    # plain words
    "a", "abc", "hello world", "Test_1", "ABC",
]


def _is_xml_char(ch):
    o = ord(ch)
    return o in (0x9, 0xA, 0xD) or 0x20 <= o <= 0xD7FF or 0xE000 <= o <= 0xFFFD or 0x10000 <= o <= 0x10FFFF


def is_xmlsafe(s):
    """Non-empty string of XML 1.0 Chars without carriage return (the domain of strings="xmlsafe")."""
    return isinstance(s, str) and s != "" and all(_is_xml_char(c) and c != "\r" for c in s)


XMLSAFE_STRINGS = [s for s in ADVERSARIAL_STRINGS if is_xmlsafe(s)]

STRING_CLASSES = ["empty", "blank", "edge-space", "cr", "lf", "markup", "nonascii", "astral", "c0", "c1", "nonchar",
                  "surrogate", "nul"]


def string_classes(s):
    """Set of adversarial classes a string belongs to (empty set = ordinary string).
    Whitespace is Python's notion (str.strip / str.isspace), since that is what the serializers use; "blank" strings
    are also "edge-space"; "\\x00" is both "nul" and "c0"."""
    res = set()
    if s == "":
        return {"empty"}
    if s.strip() == "":
        res.add("blank")
    if s[0].isspace() or s[-1].isspace():
        res.add("edge-space")
    for ch in s:
        o = ord(ch)
        if ch == "\r":
            res.add("cr")
        elif ch == "\n":
            res.add("lf")
        elif ch in "<&>\"'":
            res.add("markup")
        if o == 0:
            res.add("nul")
        if o < 0x20 and ch not in "\t\n\r":
            res.add("c0")
        if 0x7f <= o <= 0x9f:
            res.add("c1")
        if o > 0x7f:
            res.add("nonascii")
        if o > 0xFFFF:
            res.add("astral")
        if o in (0xFFFE, 0xFFFF):
            res.add("nonchar")
        if 0xD800 <= o <= 0xDFFF:
            res.add("surrogate")
    return res


_XMLSAFE_CHARS = ("\t\n  <&>\"'" + "abcXYZ019_-.:/" + "\xe9\xdf\u0416\u65e5\u672c\u8a9e\u20ac\ufffd\ue000\ud7ff"
                  + "\U0001F600\U00010000\U0010FFFF" + "\x7f\x85\x9f\xa0\u2028\ufeff")
_ADV_CHARS = _XMLSAFE_CHARS + "\r\r\x00\x01\x08\x0b\x0c\x1b\x1f\ufffe\uffff\ud800\U0010fc00\udfff"

STRING_MODES = ("plain", "mixed", "adversarial", "xmlsafe")


class _Strings:
    """String source for one report."""

    def __init__(self, rng, mode):
        if mode not in STRING_MODES:
            raise ValueError("strings must be one of %r" % (STRING_MODES,))
        self.rng, self.mode = rng, mode
        self.p_adv = {"plain": 0.0, "mixed": 0.15, "adversarial": 0.5, "xmlsafe": 0.5}[mode]

    def plain(self, kind="text"):
        rng = self.rng
        if kind == "name":
            w = rng.choice(PLAIN_WORDS)
            return w if rng.random() < 0.6 else w + "_" + rng.choice(PLAIN_WORDS)
        if kind == "word":
            return rng.choice(PLAIN_WORDS)
        return " ".join(rng.choice(PLAIN_WORDS) for _ in range(rng.randint(1, 4)))

    def _weird(self):
        rng = self.rng
        corpus, chars = (XMLSAFE_STRINGS, _XMLSAFE_CHARS) if self.mode == "xmlsafe" else (ADVERSARIAL_STRINGS, _ADV_CHARS)
        r = rng.random()
        if r < 0.6:
            return rng.choice(corpus)
        if r < 0.8:
            parts = [rng.choice(PLAIN_WORDS), rng.choice(corpus), rng.choice(PLAIN_WORDS)]
            return "".join(parts[rng.randint(0, 1):rng.randint(2, 3)])
        return "".join(rng.choice(chars) for _ in range(rng.randint(1, 6)))

    def s(self, kind="text"):
        """A required string field."""
        if self.rng.random() < self.p_adv:
            return self._weird()
        return self.plain(kind)

    def opt(self, kind="text"):
        """An optional string field: None / "" / text ("" never in plain and xmlsafe modes)."""
        r = self.rng.random()
        if r < 0.35:
            return None
        if r < 0.5 and self.mode in ("mixed", "adversarial"):
            return ""
        return self.s(kind)

    def distinct(self, used, kind="name"):
        """A string not in `used` (added to it)."""
        v = self.s(kind)
        n = 0
        while v in used:
            n += 1
            v = (self.s(kind) if n < 4 else self.plain(kind) + "_%d" % (len(used) + n))
        used.add(v)
        return v


# ------------------------------------------------------------------------------------------------------------------ times
TIME_BOUNDARIES_MS = [0, 1, 999, 1000, 1001, 59999, 86399999, 86400000, 946684799999, 946684800000, 1577836799999,
                      1577836800000, 1582934400000, 1609459199999, 1609459200000, 2147483647000, 2147483647999,
                      2147483648000, 4102444799999, 4102444800000, 8589934591999]
# NB the last value is 2**33 s - 1 ms (year 2242): above 2**33 s the spacing of floats exceeds one microsecond and
# format_time_as_iso8601 (isoformat truncates the microseconds) no longer preserves whole milliseconds; C09 states this bound.


class _Clock:
    def __init__(self, rng, allow_missing_start):
        self.rng = rng
        self.allow_missing_start = allow_missing_start
        r = rng.random()
        if r < 0.08:
            self.now = rng.choice(TIME_BOUNDARIES_MS[:-1])
            if rng.random() < 0.5:
                self.now = max(0, self.now - rng.randint(0, 3000))
        elif r < 0.1:
            self.now = TIME_BOUNDARIES_MS[-1] - rng.randint(0, 20000)
        else:
            self.now = rng.randint(1500000000000, 1800000000000)

    def tick(self):
        rng = self.rng
        r = rng.random()
        if r < 0.02:
            return rng.choice(TIME_BOUNDARIES_MS)       # isolated boundary value (may be out of order)
        if r < 0.25:
            inc = 0
        elif r < 0.6:
            inc = rng.randint(1, 20)
        elif r < 0.95:
            inc = rng.randint(21, 5000)
        else:
            inc = rng.choice([999, 1000, 1001, 59999, 60000, 3600000])
        self.now = min(self.now + inc, TIME_BOUNDARIES_MS[-1])
        return self.now

    def start(self):
        t = self.tick()
        if self.allow_missing_start and self.rng.random() < 0.06:
            return None
        return t


# -------------------------------------------------------------------------------------------------------------- generator
_SIZES = {
    # top suites, total tests, tests per suite, steps, logs, sub-suites per suite, p(session setup/teardown), p(suite setup/teardown)
    "tiny": dict(top=(1, 1), total=2, per_suite=2, steps=2, logs=2, subs=1, p_sub=0.1, p_sess=0.3, p_ss=0.25, meta=2, info=2),
    "small": dict(top=(1, 3), total=8, per_suite=4, steps=3, logs=3, subs=2, p_sub=0.35, p_sess=0.4, p_ss=0.3, meta=3, info=3),
    "medium": dict(top=(1, 4), total=25, per_suite=7, steps=4, logs=5, subs=3, p_sub=0.45, p_sess=0.5, p_ss=0.4, meta=3, info=3),
}
STATUSES = ["passed", "failed", "skipped", "disabled"]
LEVELS = ["debug", "info", "warn", "error"]
LOG_KINDS = ["log", "check", "attachment", "url"]


class _Gen:
    def __init__(self, rng, size, strings, unfinished, max_depth, allow_missing_start):
        if size not in _SIZES:
            raise ValueError("size must be one of %r" % (sorted(_SIZES),))
        self.rng = rng
        self.cfg = _SIZES[size]
        self.S = _Strings(rng, strings)
        self.mode = strings
        self.unfinished = unfinished
        self.max_depth = max(1, max_depth)
        self.clock = _Clock(rng, allow_missing_start)
        self.tests_left = self.cfg["total"]

    def count(self, hi):
        """0..hi, biased towards small values but reaching hi."""
        rng = self.rng
        return min(rng.randint(0, hi), rng.randint(0, hi + 1)) if rng.random() < 0.5 else rng.randint(0, hi)

    def end(self):
        t = self.clock.tick()
        return None if self.rng.random() < self.unfinished else t

    def log(self):
        rng, S = self.rng, self.S
        kind = rng.choice(LOG_KINDS)
        t = self.clock.tick()
        if kind == "log":
            level = rng.choice(LEVELS) if rng.random() < 0.93 else S.s("word")
            return {"kind": "log", "level": level, "message": S.s(), "time": t}
        if kind == "check":
            return {"kind": "check", "description": S.s(), "is_successful": rng.random() < 0.6, "details": S.opt(), "time": t}
        if kind == "attachment":
            return {"kind": "attachment", "description": S.s(), "filename": S.s("name"), "as_image": rng.random() < 0.4, "time": t}
        return {"kind": "url", "description": S.s(), "url": S.s("name"), "time": t}

    def step(self):
        d = {"description": self.S.s(), "start": self.clock.start(), "end": None, "logs": []}
        d["logs"] = [self.log() for _ in range(self.count(self.cfg["logs"]))]
        d["end"] = self.end()
        if d["end"] is not None and d["start"] is not None and self.rng.random() < 0.1:
            # a step that began and ended within the same millisecond (times are rounded to the millisecond in saved reports):
            # finished, with a zero duration
            d["end"] = d["start"]
            for l in d["logs"]:
                l["time"] = d["start"]
        return d

    def result(self):
        rng = self.rng
        d = {"start": self.clock.start(), "end": None, "status": None, "status_details": None, "steps": []}
        d["steps"] = [self.step() for _ in range(self.count(self.cfg["steps"]))]
        # steps of one result often bear the same description: every lcc.Thread started by a test opens a step of its own with
        # the description of its creator's current step (and a test may call set_step twice with the same text)
        for i in range(1, len(d["steps"])):
            if rng.random() < 0.3:
                d["steps"][i]["description"] = d["steps"][i - 1]["description"]
        d["end"] = self.end()
        if d["end"] is None:
            d["status"] = None if rng.random() < 0.7 else rng.choice(STATUSES)
        else:
            r = rng.random()
            if r < 0.05:
                d["status"] = None
            elif r < 0.08 and self.mode in ("mixed", "adversarial"):
                d["status"] = ""
            else:
                d["status"] = rng.choice(["passed", "passed", "failed", "failed", "skipped", "disabled"])
        d["status_details"] = self.S.opt()
        return d

    def meta(self, name):
        S, m = self.S, self.cfg["meta"]
        keys = set()
        return {
            "name": name,
            "description": S.s(),
            "tags": [S.s("word") for _ in range(self.count(m))],
            "properties": [[S.distinct(keys, "word"), S.s("word")] for _ in range(self.count(m))],
            "links": [[S.s("name"), S.opt()] for _ in range(self.count(m))],
        }

    def suite(self, name, depth):
        rng, cfg = self.rng, self.cfg
        d = {"meta": self.meta(name), "start": self.clock.start(), "end": None, "setup": None, "teardown": None,
             "tests": [], "suites": []}
        shape = rng.random()
        empty = shape < 0.08
        only_subs = (not empty) and shape < 0.2 and depth < self.max_depth
        if rng.random() < cfg["p_ss"]:
            d["setup"] = self.result()
        if not empty and not only_subs:
            n = min(self.tests_left, rng.randint(1, cfg["per_suite"]))
            self.tests_left -= n
            names = set()
            for _ in range(n):
                d["tests"].append({"meta": self.meta(self.S.distinct(names)), "result": self.result()})
        if not empty and depth < self.max_depth and (only_subs or rng.random() < cfg["p_sub"]):
            names = set()
            for _ in range(rng.randint(1, cfg["subs"])):
                d["suites"].append(self.suite(self.S.distinct(names), depth + 1))
        if rng.random() < cfg["p_ss"]:
            d["teardown"] = self.result()
        d["end"] = self.end()
        return d

    def report(self):
        rng, cfg, S = self.rng, self.cfg, self.S
        d = {"title": S.s(), "info": [[S.s("word"), S.s()] for _ in range(self.count(cfg["info"]))],
             "start": self.clock.start(), "end": None, "saving": None, "nb_threads": rng.randint(1, 8),
             "session_setup": None, "session_teardown": None, "suites": []}
        if rng.random() < cfg["p_sess"]:
            d["session_setup"] = self.result()
        names = set()
        for _ in range(rng.randint(*cfg["top"])):
            d["suites"].append(self.suite(S.distinct(names), 1))
        if rng.random() < cfg["p_sess"]:
            d["session_teardown"] = self.result()
        d["end"] = self.end()
        return d


def gen_report(rng, size="small", strings="mixed", unfinished=0.25, max_depth=3, allow_missing_start=False):
    """Description of a random report (see the module docstring and Model/Report.v for the shape)."""
    return _Gen(rng, size, strings, unfinished, max_depth, allow_missing_start).report()


# ------------------------------------------------------------------------------------------ description -> real objects
def _secs(ms):
    return None if ms is None else ms / 1000.0


def _build_log(d):
    from lemoncheesecake.reporting.report import Log, Check, Attachment, Url
    k = d["kind"]
    if k == "log":
        return Log(d["level"], d["message"], _secs(d["time"]))
    if k == "check":
        return Check(d["description"], d["is_successful"], d["details"], _secs(d["time"]))
    if k == "attachment":
        return Attachment(d["description"], d["filename"], d["as_image"], _secs(d["time"]))
    if k == "url":
        return Url(d["description"], d["url"], _secs(d["time"]))
    raise ValueError("unknown log kind %r" % (k,))


def _build_step(d):
    from lemoncheesecake.reporting.report import Step
    step = Step(d["description"])
    step.start_time = _secs(d["start"])
    step.end_time = _secs(d["end"])
    for l in d["logs"]:
        step.add_log(_build_log(l))
    return step


def _fill_result(res, d):
    res.start_time = _secs(d["start"])
    res.end_time = _secs(d["end"])
    res.status = d["status"]
    res.status_details = d["status_details"]
    for s in d["steps"]:
        res.add_step(_build_step(s))
    return res


def build_result(d):
    """Result (setup / teardown) from a result description; None -> None."""
    from lemoncheesecake.reporting.report import Result
    return None if d is None else _fill_result(Result(), d)


def _fill_meta(node, m):
    node.tags = list(m["tags"])
    node.properties = {k: v for k, v in m["properties"]}
    node.links = [(u, n) for u, n in m["links"]]


def build_test(d):
    from lemoncheesecake.reporting.report import TestResult
    t = TestResult(d["meta"]["name"], d["meta"]["description"])
    _fill_meta(t, d["meta"])
    return _fill_result(t, d["result"])


def build_suite(d):
    from lemoncheesecake.reporting.report import SuiteResult
    s = SuiteResult(d["meta"]["name"], d["meta"]["description"])
    _fill_meta(s, d["meta"])
    s.start_time = _secs(d["start"])
    s.end_time = _secs(d["end"])
    s.suite_setup = build_result(d["setup"])
    s.suite_teardown = build_result(d["teardown"])
    for t in d["tests"]:
        s.add_test(build_test(t))
    for sub in d["suites"]:
        s.add_suite(build_suite(sub))
    return s


def build_report(desc):
    """The real lemoncheesecake objects for a description."""
    from lemoncheesecake.reporting.report import Report
    r = Report()
    r.title = desc["title"]
    r.info = [[n, v] for n, v in desc["info"]]
    r.start_time = _secs(desc["start"])
    r.end_time = _secs(desc["end"])
    r.saving_time = _secs(desc["saving"])
    r.nb_threads = desc["nb_threads"]
    r.test_session_setup = build_result(desc["session_setup"])
    r.test_session_teardown = build_result(desc["session_teardown"])
    for s in desc["suites"]:
        r.add_suite(build_suite(s))
    return r


# ------------------------------------------------------------------------------------------ real objects -> description
def _ms(t):
    if t is None or isinstance(t, bool) or not isinstance(t, (int, float)):
        return t
    try:
        return int(round(t * 1000))
    except (OverflowError, ValueError):      # inf / nan: outside the normal form, kept as found
        return t


def _pair(p):
    return list(p) if isinstance(p, (list, tuple)) else p


def _seq(x, f=lambda v: v):
    return [f(v) for v in x] if isinstance(x, (list, tuple)) else x


def nf_log(log):
    from lemoncheesecake.reporting.report import Log, Check, Attachment, Url
    if isinstance(log, Log):
        return {"kind": "log", "level": log.level, "message": log.message, "time": _ms(log.time)}
    if isinstance(log, Check):
        return {"kind": "check", "description": log.description, "is_successful": log.is_successful, "details": log.details,
                "time": _ms(log.time)}
    if isinstance(log, Attachment):
        return {"kind": "attachment", "description": log.description, "filename": log.filename, "as_image": log.as_image,
                "time": _ms(log.time)}
    if isinstance(log, Url):
        return {"kind": "url", "description": log.description, "url": log.url, "time": _ms(log.time)}
    return {"kind": "?"}


def nf_step(step):
    return {"description": step.description, "start": _ms(step.start_time), "end": _ms(step.end_time),
            "logs": [nf_log(l) for l in step.get_logs()]}


def nf_result(res):
    if res is None:
        return None
    return {"start": _ms(res.start_time), "end": _ms(res.end_time), "status": res.status,
            "status_details": res.status_details, "steps": [nf_step(s) for s in res.get_steps()]}


def nf_meta(node):
    props = node.properties
    return {"name": node.name, "description": node.description, "tags": _seq(node.tags),
            "properties": [[k, v] for k, v in props.items()] if isinstance(props, dict) else props,
            "links": _seq(node.links, _pair)}


def nf_test(test):
    return {"meta": nf_meta(test), "result": nf_result(test)}


def nf_suite(suite):
    return {"meta": nf_meta(suite), "start": _ms(suite.start_time), "end": _ms(suite.end_time),
            "setup": nf_result(suite.suite_setup), "teardown": nf_result(suite.suite_teardown),
            "tests": [nf_test(t) for t in suite.get_tests()], "suites": [nf_suite(s) for s in suite.get_suites()]}


def normal_form(report):
    """Description of a real Report, read through its public accessors. Never raises on odd field values."""
    return {"title": report.title, "info": _seq(report.info, _pair), "start": _ms(report.start_time),
            "end": _ms(report.end_time), "saving": _ms(report.saving_time), "nb_threads": report.nb_threads,
            "session_setup": nf_result(report.test_session_setup),
            "session_teardown": nf_result(report.test_session_teardown),
            "suites": [nf_suite(s) for s in report.get_suites()]}


# ------------------------------------------------------------------------------------------------------- shape checking
def _is_str(x):
    return isinstance(x, str)


def _is_ostr(x):
    return x is None or isinstance(x, str)


def _is_time(x):
    return isinstance(x, int) and not isinstance(x, bool)


def _is_otime(x):
    return x is None or _is_time(x)


def _is_dict(x, keys):
    return isinstance(x, dict) and set(x.keys()) == set(keys)


def _is_list(x, f):
    return isinstance(x, list) and all(f(v) for v in x)


def _is_pair(x, f, g):
    return isinstance(x, list) and len(x) == 2 and f(x[0]) and g(x[1])


def _distinct(xs):
    return len(set(xs)) == len(xs)


_LOG_FIELDS = {
    "log": (("level", _is_str), ("message", _is_str)),
    "check": (("description", _is_str), ("is_successful", lambda b: isinstance(b, bool)), ("details", _is_ostr)),
    "attachment": (("description", _is_str), ("filename", _is_str), ("as_image", lambda b: isinstance(b, bool))),
    "url": (("description", _is_str), ("url", _is_str)),
}


def log_in_nf(d):
    if not isinstance(d, dict) or d.get("kind") not in _LOG_FIELDS:
        return False
    fields = _LOG_FIELDS[d["kind"]]
    return (_is_dict(d, ["kind", "time"] + [k for k, _ in fields]) and _is_time(d["time"])
            and all(f(d[k]) for k, f in fields))


def step_in_nf(d):
    return (_is_dict(d, ("description", "start", "end", "logs")) and _is_str(d["description"]) and _is_otime(d["start"])
            and _is_otime(d["end"]) and _is_list(d["logs"], log_in_nf))


def result_in_nf(d):
    return (_is_dict(d, ("start", "end", "status", "status_details", "steps")) and _is_otime(d["start"])
            and _is_otime(d["end"]) and _is_ostr(d["status"]) and _is_ostr(d["status_details"])
            and _is_list(d["steps"], step_in_nf))


def _oresult_in_nf(d):
    return d is None or result_in_nf(d)


def meta_in_nf(d):
    return (_is_dict(d, ("name", "description", "tags", "properties", "links")) and _is_str(d["name"])
            and _is_str(d["description"]) and _is_list(d["tags"], _is_str)
            and _is_list(d["properties"], lambda p: _is_pair(p, _is_str, _is_str))
            and _distinct([p[0] for p in d["properties"]])
            and _is_list(d["links"], lambda p: _is_pair(p, _is_str, _is_ostr)))


def test_in_nf(d):
    return _is_dict(d, ("meta", "result")) and meta_in_nf(d["meta"]) and result_in_nf(d["result"])


def suite_in_nf(d):
    return (_is_dict(d, ("meta", "start", "end", "setup", "teardown", "tests", "suites")) and meta_in_nf(d["meta"])
            and _is_otime(d["start"]) and _is_otime(d["end"]) and _oresult_in_nf(d["setup"])
            and _oresult_in_nf(d["teardown"]) and _is_list(d["tests"], test_in_nf)
            and _distinct([t["meta"]["name"] for t in d["tests"]]) and _is_list(d["suites"], suite_in_nf))


def in_normal_form(desc):
    """True when the description has exactly the shape of Model/Report.v (types of every field, property keys and
    test names pairwise distinct); such a description can be given to to_gallina and build_report."""
    return (_is_dict(desc, ("title", "info", "start", "end", "saving", "nb_threads", "session_setup", "session_teardown",
                            "suites"))
            and _is_str(desc["title"]) and _is_list(desc["info"], lambda p: _is_pair(p, _is_str, _is_str))
            and _is_otime(desc["start"]) and _is_otime(desc["end"]) and _is_otime(desc["saving"])
            and _is_time(desc["nb_threads"]) and _oresult_in_nf(desc["session_setup"])
            and _oresult_in_nf(desc["session_teardown"]) and _is_list(desc["suites"], suite_in_nf))


# --------------------------------------------------------------------------------------------------------------- Gallina
def g_otime(t):
    return c_opt(t, c_Z)


def g_ostr(s):
    return c_opt(s, c_str)


def g_log(d):
    k = d["kind"]
    if k == "log":
        return "(LLog %s %s %s)" % (c_str(d["level"]), c_str(d["message"]), c_Z(d["time"]))
    if k == "check":
        return "(LCheck %s %s %s %s)" % (c_str(d["description"]), c_bool(d["is_successful"]), g_ostr(d["details"]),
                                         c_Z(d["time"]))
    if k == "attachment":
        return "(LAttachment %s %s %s %s)" % (c_str(d["description"]), c_str(d["filename"]), c_bool(d["as_image"]),
                                              c_Z(d["time"]))
    if k == "url":
        return "(LUrl %s %s %s)" % (c_str(d["description"]), c_str(d["url"]), c_Z(d["time"]))
    raise ValueError("log kind %r has no Gallina form" % (k,))


def g_step(d):
    return "(mkStep %s %s %s %s)" % (c_str(d["description"]), g_otime(d["start"]), g_otime(d["end"]),
                                     c_list(d["logs"], g_log))


def g_result(d):
    return "(mkResult %s %s %s %s %s)" % (g_otime(d["start"]), g_otime(d["end"]), g_ostr(d["status"]),
                                          g_ostr(d["status_details"]), c_list(d["steps"], g_step))


def g_oresult(d):
    return c_opt(d, g_result)


def g_meta(d):
    return "(mkMeta %s %s %s %s %s)" % (
        c_str(d["name"]), c_str(d["description"]), c_list(d["tags"], c_str),
        c_list(d["properties"], lambda p: "(%s, %s)" % (c_str(p[0]), c_str(p[1]))),
        c_list(d["links"], lambda p: "(%s, %s)" % (c_str(p[0]), g_ostr(p[1]))))


def g_test(d):
    return "(mkTest %s %s)" % (g_meta(d["meta"]), g_result(d["result"]))


def g_suite(d):
    return "(SuiteResult %s %s %s %s %s\n %s\n %s)" % (
        g_meta(d["meta"]), g_otime(d["start"]), g_otime(d["end"]), g_oresult(d["setup"]), g_oresult(d["teardown"]),
        c_list(d["tests"], g_test), c_list(d["suites"], g_suite))


def to_gallina(desc):
    """The description as a Gallina term of type `report` (Model/Report.v), parenthesised."""
    return "(mkReport %s %s %s %s %s %s %s %s\n %s)" % (
        c_str(desc["title"]), c_list(desc["info"], lambda p: "(%s, %s)" % (c_str(p[0]), c_str(p[1]))),
        g_otime(desc["start"]), g_otime(desc["end"]), g_otime(desc["saving"]), c_Z(desc["nb_threads"]),
        g_oresult(desc["session_setup"]), g_oresult(desc["session_teardown"]), c_list(desc["suites"], g_suite))


# ------------------------------------------------------------------------------------------------------ string traversal
# a slot is (path, container, key, siblings): container[key] is a str; `siblings` is None, or the list of the names that
# must stay pairwise distinct with it (test names of a suite, property keys of a node, names of sibling suites)
def _slots_logs(step, p):
    for i, l in enumerate(step["logs"]):
        q = "%s.logs[%d]" % (p, i)
        for k in ("level", "message", "description", "details", "filename", "url"):
            if k in l:
                yield (q + "." + k, l, k, None)


def _slots_result(r, p):
    if r is None:
        return
    yield (p + ".status", r, "status", None)
    yield (p + ".status_details", r, "status_details", None)
    for i, s in enumerate(r["steps"]):
        q = "%s.steps[%d]" % (p, i)
        yield (q + ".description", s, "description", None)
        for x in _slots_logs(s, q):
            yield x


def _slots_meta(m, p, sibling_names):
    yield (p + ".name", m, "name", sibling_names)
    yield (p + ".description", m, "description", None)
    for i in range(len(m["tags"])):
        yield ("%s.tags[%d]" % (p, i), m["tags"], i, None)
    keys = [pr[0] for pr in m["properties"]]
    for i, pr in enumerate(m["properties"]):
        yield ("%s.properties[%d].key" % (p, i), pr, 0, keys)
        yield ("%s.properties[%d].value" % (p, i), pr, 1, None)
    for i, ln in enumerate(m["links"]):
        yield ("%s.links[%d].url" % (p, i), ln, 0, None)
        yield ("%s.links[%d].name" % (p, i), ln, 1, None)


def _slots_suite(s, p, sibling_names):
    for x in _slots_meta(s["meta"], p + ".meta", sibling_names):
        yield x
    for x in _slots_result(s["setup"], p + ".setup"):
        yield x
    names = [t["meta"]["name"] for t in s["tests"]]
    for i, t in enumerate(s["tests"]):
        q = "%s.tests[%d]" % (p, i)
        for x in _slots_meta(t["meta"], q + ".meta", names):
            yield x
        for x in _slots_result(t["result"], q + ".result"):
            yield x
    names = [u["meta"]["name"] for u in s["suites"]]
    for i, u in enumerate(s["suites"]):
        for x in _slots_suite(u, "%s.suites[%d]" % (p, i), names):
            yield x
    for x in _slots_result(s["teardown"], p + ".teardown"):
        yield x


def _slots(desc):
    yield ("title", desc, "title", None)
    for i, pr in enumerate(desc["info"]):
        yield ("info[%d].name" % i, pr, 0, None)
        yield ("info[%d].value" % i, pr, 1, None)
    for x in _slots_result(desc["session_setup"], "session_setup"):
        yield x
    names = [u["meta"]["name"] for u in desc["suites"]]
    for i, u in enumerate(desc["suites"]):
        for x in _slots_suite(u, "suites[%d]" % i, names):
            yield x
    for x in _slots_result(desc["session_teardown"], "session_teardown"):
        yield x


def iter_strings(desc):
    """(path, value) for every string field present (None optionals are skipped), in document order."""
    for path, cont, key, _ in _slots(desc):
        v = cont[key]
        if isinstance(v, str):
            yield (path, v)


# -------------------------------------------------------------------------------------------------------------- features
def iter_suites(desc):
    """(suite description, depth >= 1) for every suite, pre-order."""
    def walk(s, depth):
        yield (s, depth)
        for u in s["suites"]:
            for x in walk(u, depth + 1):
                yield x
    for s in desc["suites"]:
        for x in walk(s, 1):
            yield x


def iter_results(desc):
    """(kind, result description) in Report.all_results() order; kind in session_setup, suite_setup, test,
    suite_teardown, session_teardown."""
    if desc["session_setup"] is not None:
        yield ("session_setup", desc["session_setup"])
    for s, _ in iter_suites(desc):
        if s["setup"] is not None:
            yield ("suite_setup", s["setup"])
        for t in s["tests"]:
            yield ("test", t["result"])
        if s["teardown"] is not None:
            yield ("suite_teardown", s["teardown"])
    if desc["session_teardown"] is not None:
        yield ("session_teardown", desc["session_teardown"])


def _bump(d, k, n=1):
    d[k] = d.get(k, 0) + n


def _okind(v):
    return "none" if v is None else ("empty" if v == "" else "text")


def features(desc):
    """Counts describing one description (for the evidence / input distribution)."""
    f = {"suites": 0, "tests": 0, "max_depth": 0, "steps": 0,
         "logs": {k: 0 for k in LOG_KINDS}, "log_levels": {}, "results": {},
         "unfinished_results": 0, "unfinished_steps": 0, "unfinished_suites": 0,
         "unfinished_report": int(desc["end"] is None), "missing_start": int(desc["start"] is None),
         "session_setup": int(desc["session_setup"] is not None),
         "session_teardown": int(desc["session_teardown"] is not None),
         "suite_setups": 0, "suite_teardowns": 0, "empty_suites": 0, "suites_only_subsuites": 0,
         "steps_without_logs": 0, "results_without_steps": 0, "info": len(desc["info"]),
         "tags": 0, "properties": 0, "links": 0, "nb_threads": desc["nb_threads"],
         "status_details": {"none": 0, "empty": 0, "text": 0}, "check_details": {"none": 0, "empty": 0, "text": 0},
         "link_names": {"none": 0, "empty": 0, "text": 0}, "checks_ok": 0, "checks_ko": 0, "images": 0,
         "strings": 0, "string_classes": {c: 0 for c in STRING_CLASSES}}

    def meta(m):
        f["tags"] += len(m["tags"])
        f["properties"] += len(m["properties"])
        f["links"] += len(m["links"])
        for ln in m["links"]:
            _bump(f["link_names"], _okind(ln[1]))

    for s, depth in iter_suites(desc):
        f["suites"] += 1
        f["max_depth"] = max(f["max_depth"], depth)
        f["tests"] += len(s["tests"])
        f["suite_setups"] += int(s["setup"] is not None)
        f["suite_teardowns"] += int(s["teardown"] is not None)
        f["unfinished_suites"] += int(s["end"] is None)
        f["missing_start"] += int(s["start"] is None)
        if not s["tests"] and not s["suites"]:
            f["empty_suites"] += 1
        if not s["tests"] and s["suites"]:
            f["suites_only_subsuites"] += 1
        meta(s["meta"])
        for t in s["tests"]:
            meta(t["meta"])
    for _, r in iter_results(desc):
        st = r["status"]
        _bump(f["results"], "none" if st is None else st if isinstance(st, str) else repr(st))
        _bump(f["status_details"], _okind(r["status_details"]))
        f["unfinished_results"] += int(r["end"] is None)
        f["missing_start"] += int(r["start"] is None)
        f["results_without_steps"] += int(not r["steps"])
        for s in r["steps"]:
            f["steps"] += 1
            f["unfinished_steps"] += int(s["end"] is None)
            f["missing_start"] += int(s["start"] is None)
            f["steps_without_logs"] += int(not s["logs"])
            for l in s["logs"]:
                _bump(f["logs"], l["kind"])
                if l["kind"] == "log":
                    _bump(f["log_levels"], l["level"] if l["level"] in LEVELS else "other")
                elif l["kind"] == "check":
                    _bump(f["check_details"], _okind(l["details"]))
                    f["checks_ok" if l["is_successful"] else "checks_ko"] += 1
                elif l["kind"] == "attachment":
                    f["images"] += int(bool(l["as_image"]))
    for _, v in iter_strings(desc):
        f["strings"] += 1
        for c in string_classes(v):
            f["string_classes"][c] += 1
    return f


def merge_features(total, f):
    """Accumulate features(desc) into `total` (sums; max for max_depth; nb_threads becomes a histogram). Returns total."""
    for k, v in f.items():
        if isinstance(v, dict):
            merge_features(total.setdefault(k, {}), v)
        elif k == "max_depth":
            total[k] = max(total.get(k, 0), v)
        elif k == "nb_threads":
            _bump(total.setdefault("nb_threads", {}), str(v))
        else:
            _bump(total, k, v)
    return total


# -------------------------------------------------------------------------------------------------------------- shrinking
def _removals(desc):
    """Edit operations that remove one part, biggest parts first: ("del", list, index) or ("none", dict, key)."""
    suites, tests, phases, steps, logs, small = [], [], [], [], [], []

    def res(r):
        if r is None:
            return
        for i, s in enumerate(r["steps"]):
            steps.append(("del", r["steps"], i))
            for j in range(len(s["logs"])):
                logs.append(("del", s["logs"], j))

    def meta(m):
        for k in ("tags", "properties", "links"):
            for i in range(len(m[k])):
                small.append(("del", m[k], i))

    def suite(s):
        meta(s["meta"])
        for k in ("setup", "teardown"):
            if s[k] is not None:
                phases.append(("none", s, k))
                res(s[k])
        for i, t in enumerate(s["tests"]):
            tests.append(("del", s["tests"], i))
            meta(t["meta"])
            res(t["result"])
        for i, u in enumerate(s["suites"]):
            suites.append(("del", s["suites"], i))
            suite(u)

    for k in ("session_setup", "session_teardown"):
        if desc[k] is not None:
            phases.append(("none", desc, k))
            res(desc[k])
    for i, u in enumerate(desc["suites"]):
        suites.append(("del", desc["suites"], i))
        suite(u)
    for i in range(len(desc["info"])):
        small.append(("del", desc["info"], i))
    return suites + tests + phases + steps + logs + small


def _fresh(siblings):
    for c in "abcdefghijklmnopqrstuvwxyz":
        if c not in siblings:
            return c
    n = 0
    while "a%d" % n in siblings:
        n += 1
    return "a%d" % n


def _simplifications(desc):
    """Edit operations that replace one string by "a" (or by a fresh short name where names must stay distinct)."""
    ops = []
    for _, cont, key, siblings in _slots(desc):
        v = cont[key]
        if not isinstance(v, str):
            continue
        if siblings is None:
            if v != "a":
                ops.append(("set", cont, key, "a"))
        elif not (len(v) == 1 and "a" <= v <= "z"):
            ops.append(("set", cont, key, _fresh(siblings)))
    return ops


def _apply(op):
    if op[0] == "del":
        del op[1][op[2]]
    elif op[0] == "none":
        op[1][op[2]] = None
    else:
        op[1][op[2]] = op[3]


def shrink(desc, still_fails, max_calls=400):
    """Greedy minimisation of a failing description: tries removing one suite / test / setup / teardown / step / log / tag /
    property / link / info pair, then replacing one string by "a" (names: a fresh short distinct name), keeping a candidate
    when still_fails(candidate) is true (an exception raised by still_fails counts as false). At most `max_calls` calls of
    the predicate. `desc` itself is not modified; the result is the smallest description found (desc if nothing helps)."""
    cur = copy.deepcopy(desc)
    calls = 0
    progress = True
    while progress and calls < max_calls:
        progress = False
        for phase in (_removals, _simplifications):
            i = 0
            while calls < max_calls:
                cand = copy.deepcopy(cur)
                ops = phase(cand)
                if i >= len(ops):
                    break
                _apply(ops[i])
                calls += 1
                try:
                    ok = bool(still_fails(cand))
                except Exception:
                    ok = False
                if ok:
                    cur = cand          # same index: the next part moved into this position
                    progress = True
                else:
                    i += 1
    return cur


# ----------------------------------------------------------------------------------------------------------- time floats
TIME_BOUNDARY_FLOATS = [
    0.0, 0.0004, 0.0005, 0.0006, 0.001, 0.0015, 0.0025, 0.4995, 0.5, 0.999, 0.9994, 0.9995, 0.9996, 0.99999, 1.0, 1.0005,
    59.9995, 59.9999, 3599.9995, 86399.999, 86399.9995, 86399.99951, 86400.0, 86400.0005,
    946684799.9995, 946684800.0, 1577836799.999, 1577836799.9994, 1577836799.9995, 1577836799.9999999, 1577836800.0,
    1577836800.0005, 1582934399.9995, 1609459199.9995, 1234567890.1234567, 1500000000.0005, 1500000000.0015,
    1500000000.0025, 1500000000.9995, 2147483647.0, 2147483647.9995, 2147483648.0, 4102444799.9995,
    253402300799.0, 253402300799.998, 253402300799.999,
]


def gen_time_floats(rng, n):
    """n float timestamps >= 0: boundary values (half-millisecond ties, just below a second / day / year boundary, 0.0,
    253402300799.999 = the last millisecond datetime can hold) and random ones in [0, 2e9] with 0..9 decimals.
    Nothing above 253402300799.999 (it would round into year 10000)."""
    out = []
    bounds = list(TIME_BOUNDARY_FLOATS)
    rng.shuffle(bounds)
    out.extend(bounds[:max(0, min(len(bounds), n // 3))])
    while len(out) < n:
        r = rng.random()
        base = rng.randint(0, 2000000000)
        if r < 0.2:                                   # tie between two milliseconds
            out.append(base + (rng.randint(0, 999) + 0.5) / 1000.0)
        elif r < 0.3:                                 # just below / at a boundary
            unit = rng.choice([1, 60, 3600, 86400])
            out.append(max(0.0, (base // unit) * unit - rng.choice([0.0, 0.0001, 0.0005, 0.001, 0.0004999, 1e-6])))
        elif r < 0.35:
            out.append(float(rng.choice(TIME_BOUNDARY_FLOATS)))
        elif r < 0.4:
            out.append(rng.randint(0, 999) / 1000.0)   # first second of the epoch
        else:
            out.append(round(base + rng.random(), rng.randint(0, 9)))
    return out[:n]


# -------------------------------------------------------------------------------------------------------------- self-test
def _balanced(text):
    stack = []
    for ch in text:
        if ch in "([":
            stack.append(ch)
        elif ch in ")]":
            if not stack or stack.pop() != {")": "(", "]": "["}[ch]:
                return False
    return not stack


def _all_times(desc):
    yield desc["start"]
    yield desc["end"]
    yield desc["saving"]
    for s, _ in iter_suites(desc):
        yield s["start"]
        yield s["end"]
    for _, r in iter_results(desc):
        yield r["start"]
        yield r["end"]
        for st in r["steps"]:
            yield st["start"]
            yield st["end"]
            for l in st["logs"]:
                yield l["time"]


def _selftest():
    import json
    import os
    import random
    import subprocess
    import sys
    import tempfile

    total = {}
    per_mode = {}
    n = 0
    sizes = ["tiny", "small", "medium"]
    limits = {"tiny": 2, "small": 8, "medium": 25}
    best = None
    for seed in range(300):
        for mode in STRING_MODES:
            size = sizes[seed % 3]
            d = gen_report(random.Random(seed), size=size, strings=mode)
            assert d == gen_report(random.Random(seed), size=size, strings=mode), "not deterministic"
            assert in_normal_form(d), (seed, mode)
            back = normal_form(build_report(d))
            assert back == d, (seed, mode, back, d)
            term = to_gallina(d)
            assert _balanced(term), (seed, mode)
            json.dumps(d)
            f = features(d)
            assert f["tests"] <= limits[size], (seed, mode, f["tests"])
            assert f["max_depth"] <= 3
            assert all(t is None or (isinstance(t, int) and 0 <= t <= 253402300799999) for t in _all_times(d))
            assert d["start"] is not None and f["missing_start"] == 0
            strs = [v for _, v in iter_strings(d)]
            assert f["strings"] == len(strs)
            if mode == "plain":
                assert all(v and v.isascii() and v.isprintable() for v in strs), (seed, strs)
            if mode == "xmlsafe":
                assert all(is_xmlsafe(v) for v in strs), (seed, strs)
            merge_features(total, f)
            merge_features(per_mode.setdefault(mode, {}), {"string_classes": f["string_classes"], "strings": f["strings"]})
            n += 1
            if mode == "adversarial" and size == "medium" and all(f["logs"].values()) and f["session_setup"] \
                    and f["session_teardown"] and f["max_depth"] >= 2 and f["suite_setups"] and f["links"] \
                    and f["properties"] and f["info"] and (best is None or f["strings"] < best[1]["strings"]):
                best = (d, f)
    # allow_missing_start, unfinished extremes, max_depth
    miss = 0
    for seed in range(200):
        d = gen_report(random.Random(seed), size="small", allow_missing_start=True, unfinished=0.5, max_depth=1)
        assert in_normal_form(d) and normal_form(build_report(d)) == d
        f = features(d)
        assert f["max_depth"] <= 1
        miss += f["missing_start"]
        d = gen_report(random.Random(seed), unfinished=0.0)
        f = features(d)
        assert f["unfinished_results"] == f["unfinished_steps"] == f["unfinished_suites"] == f["unfinished_report"] == 0
    assert miss > 0
    # coverage of every optional part / status / kind / level / class
    for k in ("session_setup", "session_teardown", "suite_setups", "suite_teardowns", "empty_suites",
              "suites_only_subsuites", "steps_without_logs", "results_without_steps", "unfinished_results",
              "unfinished_steps", "unfinished_suites", "unfinished_report", "checks_ok", "checks_ko", "images"):
        assert total[k] > 0, k
    for k in ("passed", "failed", "skipped", "disabled", "none", ""):
        assert total["results"].get(k, 0) > 0, ("status", k)
    for k in LEVELS + ["other"]:
        assert total["log_levels"].get(k, 0) > 0, ("level", k)
    for k in LOG_KINDS:
        assert total["logs"][k] > 0, ("kind", k)
    for grp in ("status_details", "check_details", "link_names"):
        for k in ("none", "empty", "text"):
            assert total[grp][k] > 0, (grp, k)
    for c in STRING_CLASSES:
        assert total["string_classes"][c] > 0, ("class", c)
    assert set(total["nb_threads"]) == set(str(i) for i in range(1, 9))
    assert total["max_depth"] == 3
    assert not any(per_mode["plain"]["string_classes"].values())
    for c in ("empty", "cr", "c0", "nonchar", "surrogate", "nul"):
        assert per_mode["xmlsafe"]["string_classes"][c] == 0, c
    # corpus classification
    seen = set()
    for s in ADVERSARIAL_STRINGS:
        seen |= string_classes(s)
    assert seen == set(STRING_CLASSES), set(STRING_CLASSES) - seen
    assert all(not string_classes(w) for w in PLAIN_WORDS)
    # normal_form keeps odd values
    from lemoncheesecake.reporting.report import StepLog
    d = gen_report(random.Random(5), size="small", strings="plain")
    r = build_report(d)
    r.info = [("a", None)]
    r.title = None
    r.end_time = float("nan")
    r.get_suites()[0].properties = {"k": None}
    res = next(iter(r.all_results()))
    res.status = 3
    from lemoncheesecake.reporting.report import Step
    st = Step(None)
    st.add_log(StepLog(1.0005))
    res.add_step(st)
    odd = normal_form(r)
    assert odd["info"] == [["a", None]] and odd["title"] is None and not in_normal_form(odd)
    assert any(l == {"kind": "?"} for _, rr in iter_results(odd) for s in rr["steps"] for l in s["logs"])
    # times round trip through float seconds
    for ms in TIME_BOUNDARIES_MS + [random.Random(1).randint(0, 253402300799999) for _ in range(20000)]:
        assert _ms(_secs(ms)) == ms, ms
    fl = gen_time_floats(random.Random(3), 500)
    assert len(fl) == 500 and all(isinstance(x, float) and 0 <= x <= 253402300799.999 for x in fl)
    assert gen_time_floats(random.Random(3), 500) == fl and len(gen_time_floats(random.Random(3), 5)) == 5
    # shrink: terminates within the budget, result still fails, is smaller
    calls = [0]
    big = gen_report(random.Random(11), size="medium", strings="adversarial")

    def fails(c):
        calls[0] += 1
        assert in_normal_form(c)
        return any("\r" in v for _, v in iter_strings(c))
    if fails(big):
        calls[0] = 0
        small = shrink(big, fails)
        assert calls[0] <= 400 and fails(small) and in_normal_form(small)
        print("shrink: %d -> %d strings, %d -> %d chars of Gallina, %d predicate calls; result: %s" % (
            features(big)["strings"], features(small)["strings"], len(to_gallina(big)), len(to_gallina(small)),
            calls[0] - 1, json.dumps(small)[:300]))
    calls[0] = 0
    assert shrink(big, lambda c: False) == big
    small = shrink(big, lambda c: True)
    assert features(small)["suites"] == 0 and small["session_setup"] is None
    print("reports checked: %d (300 seeds x %s), build/normal_form round trip, in_normal_form, balanced Gallina: ok" % (
        n, "/".join(STRING_MODES)))
    print("aggregated features:")
    print(json.dumps(total, indent=1, sort_keys=True))
    print("string classes per mode:", json.dumps({m: v["string_classes"] for m, v in per_mode.items()}, sort_keys=True))
    # one term through coqc
    assert best is not None
    coq = os.path.join(os.path.dirname(os.path.dirname(os.path.abspath(__file__))), "coq")
    fd, path = tempfile.mkstemp(prefix="gen_reports_selftest_", suffix=".v", dir="/tmp")
    with os.fdopen(fd, "w") as fh:
        fh.write("From Coq Require Import List NArith ZArith Bool. Import ListNotations.\n"
                 "From LCC Require Import Base.Util Model.Report.\n"
                 "Definition r : report := %s.\n"
                 "Definition r0 : report := %s.\n"
                 "Definition s0 : list suite_result := %s.\n"
                 "Definition t0 : list (test_result * result * step * steplog * meta) := %s.\n"
                 "Eval vm_compute in (length (all_results r), length (all_tests r), report_successful r).\n"
                 % (to_gallina(best[0]), to_gallina(shrink(big, lambda c: True)),
                    c_list(best[0]["suites"], g_suite),
                    c_list([t for s, _ in iter_suites(best[0]) for t in s["tests"] if t["result"]["steps"]
                            and t["result"]["steps"][0]["logs"]][:2],
                           lambda t: "(%s, %s, %s, %s, %s)" % (g_test(t), g_result(t["result"]),
                                                               g_step(t["result"]["steps"][0]),
                                                               g_log(t["result"]["steps"][0]["logs"][0]),
                                                               g_meta(t["meta"])))))
    try:
        p = subprocess.run("timeout 120 coqc -Q theories LCC %s" % path, shell=True, cwd=coq, stdout=subprocess.PIPE,
                           stderr=subprocess.STDOUT, text=True)
        print("coqc rc=%d on a term of %d chars (%d tests, %d results): %s" % (
            p.returncode, len(to_gallina(best[0])), best[1]["tests"], len(list(iter_results(best[0]))),
            p.stdout.strip()[-400:]))
        assert p.returncode == 0
        want = "(%d, %d, %s)" % (len(list(iter_results(best[0]))), best[1]["tests"],
                                 c_bool(build_report(best[0]).is_successful()))
        assert want in " ".join(p.stdout.split()), want
    finally:
        base = path[:-2]
        for ext in (".v", ".vo", ".glob", ".vok", ".vos"):
            try:
                os.unlink(base + ext)
            except OSError:
                pass
        try:
            os.unlink(os.path.join("/tmp", "." + os.path.basename(base) + ".aux"))
        except OSError:
            pass
    print("self-test ok")
    return 0


if __name__ == "__main__":
    raise SystemExit(_selftest())
