"""C12 — seeded generators (suite trees with metadata at every level, filter expressions, reports, glob pairs)
and the Gallina printers for Model/Filter.v case files."""
import json

FLAGS = "-^~"
NAMES = ["a", "b", "c", "ab", "ba", "s1", "t1", "foo", "bar", "x_y", "abc", "t2"]
DESCS = ["A test", "desc", "desc2", "Some *thing*", "x", "checks [1]", "a?b", "slow one", "", "My desc", "line1\nline2",
         "\u00c9t\u00e9 \u65e5\u672c", "a\U0001F600b"]
TAGS = ["slow", "fast", "t1", "tag", "a*", "^neg", "", "x", "smoke", "-dash", "Slow", "\u00e9t\u00e9"]
PKEYS = ["prio", "k", "type", "p*", ""]
PVALS = ["low", "high", "1", "", "lo*", "^low", "medium"]
LINKS = [["http://bug/1", "#1"], ["http://bug/2", None], ["u", ""], ["#2", "name"], ["http://bug/12", "#12"], ["x", None]]
STATUSES = ["passed", "failed", "skipped", "disabled", None, "passed", "failed"]
# every source of text searched by --grep carries its own digit, so that a one-digit pattern tells the sources apart
STEP_DESCS = ["step 3", "s33", "nothing", ""]
LOG_MSGS = ["value is 4", "44 items", "nothing", ""]
CHECK_DESCS = ["check 5", "is 55", "x"]
CHECK_DETAILS = [None, "", "got 7", "7_7"]
ATT_FILES = ["f6.png", "attachments/66_x", "file.txt"]
ATT_DESCS = ["shot 8", "x"]
URLS = ["http://h/9", "u"]
URL_DESCS = ["link 0", "x"]
GREPS = ["3", "4", "5", "6", "7", "8", "9", "0", "33", "7_7", " 5", "1", "44 "]     # regex-inert, caseless: found iff substring
GLOB_ALPHA = "abc-!][*?^\\&~|d\n.x1"


# ----------------------------------------------------------------------------- trees
def gen_meta(rng, name, desc, rich):
    m = {"name": name, "desc": desc, "tags": [], "props": [], "links": [], "disabled": False}
    if rng.random() < rich:
        m["tags"] = [rng.choice(TAGS) for _ in range(rng.choice([1, 1, 2, 3]))]
    if rng.random() < rich:
        keys = rng.sample(PKEYS, rng.choice([1, 1, 2]))
        m["props"] = [[k, rng.choice(PVALS)] for k in keys]
    if rng.random() < rich * 0.8:
        m["links"] = [list(rng.choice(LINKS)) for _ in range(rng.choice([1, 1, 2]))]
    r = rng.random()
    if r < 0.12:
        m["disabled"] = True
    elif r < 0.18:
        m["disabled"] = "not ready"
    return m


def _names(rng, n, dotted):
    names = rng.sample(NAMES, n)
    if dotted and n and rng.random() < 0.5:
        names[0] = names[0] + "." + rng.choice(NAMES)
    return names


def _descs(rng, n):
    out = []
    for i in range(n):
        d = rng.choice(DESCS)
        while d in out:
            d = d + str(i)
        out.append(d)
    return out


def gen_suite(rng, name, desc, depth, rich, dotted):
    s = gen_meta(rng, name, desc, rich)
    nt = rng.choice([0, 1, 2, 2, 3, 4]) if depth > 0 else rng.choice([1, 2, 3])
    ns = rng.choice([0, 0, 1, 2]) if depth < 2 else 0
    s["tests"] = [gen_meta(rng, n, d, rich) for n, d in zip(_names(rng, nt, dotted), _descs(rng, nt))]
    s["suites"] = [gen_suite(rng, n, d, depth + 1, rich, dotted) for n, d in zip(_names(rng, ns, dotted), _descs(rng, ns))]
    return s


def gen_tree(rng):
    rich = rng.choice([0.3, 0.6, 0.9])
    dotted = rng.random() < 0.06
    n = rng.choice([1, 1, 2, 3])
    return [gen_suite(rng, nm, d, 0, rich, dotted) for nm, d in zip(_names(rng, n, dotted), _descs(rng, n))]


def walk(suites, chain=()):
    """yields (chain_of_nodes, node, is_test) for every node, pre-order (suite, its tests, its sub-suites)"""
    for s in suites:
        c = chain + (s,)
        yield c, s, False
        for t in s["tests"]:
            yield c + (t,), t, True
        yield from walk(s["suites"], c)


def vocab(suites):
    v = {"path": [], "desc": [], "tag": [], "pkey": [], "pval": [], "link": []}
    for chain, n, _ in walk(suites):
        v["path"].append(".".join(x["name"] for x in chain))
        v["desc"].append(n["desc"])
        v["tag"] += n["tags"]
        for k, val in n["props"]:
            v["pkey"].append(k)
            v["pval"].append(val)
        for u, nm in n["links"]:
            v["link"].append(u)
            v["link"].append(nm or "")
    return v


# ----------------------------------------------------------------------------- patterns
def mutate(rng, base):
    r = rng.random()
    n = len(base)
    if r < 0.22 or n == 0:
        return base
    i = rng.randrange(n)
    j = rng.randrange(i, n + 1)
    if r < 0.36:
        return base[:i] + "*"
    if r < 0.44:
        return "*" + base[i:]
    if r < 0.52:
        return base[:i] + "*" + base[j:]
    if r < 0.62:
        return base[:i] + "?" + base[i + 1:]
    c = base[i]
    if c in "]-!^\\[":
        return base[:i] + "?" + base[i + 1:]
    if r < 0.72:
        others = "".join(rng.choice("abcxyz019") for _ in range(rng.choice([0, 1, 2])))
        return base[:i] + "[" + others + c + "]" + base[i + 1:]
    if r < 0.80:
        neg_of = rng.choice([c, "q", "z"])
        return base[:i] + "[!" + neg_of + "]" + base[i + 1:]
    if r < 0.88:
        lo, hi = rng.choice([("a", "z"), ("0", "9"), (c, c), ("a", "m"), ("A", "z"), ("n", "z")])
        return base[:i] + "[" + lo + "-" + hi + "]" + base[i + 1:]
    if r < 0.94:
        return "*"
    return base[:i] + base[i + 1:]


def gen_pattern(rng, values, allow_neg=True):
    r = rng.random()
    if r < 0.04:
        p = ""
    elif r < 0.12 or not values:
        p = "".join(rng.choice("ab*?[]!s1.") for _ in range(rng.randint(1, 5)))
    else:
        p = mutate(rng, rng.choice(values))
    if allow_neg and rng.random() < 0.3:
        p = rng.choice("^^~-") + p
    return p


def excluded_glob(p):
    """the bracket form outside the modelled fragment: a non-negated set starting with a reversed range followed by `!`"""
    i, n = 0, len(p)
    while i < n:
        c = p[i]
        i += 1
        if c != "[":
            continue
        j = i
        if j < n and p[j] == "!":
            j += 1
        if j < n and p[j] == "]":
            j += 1
        while j < n and p[j] != "]":
            j += 1
        if j >= n:
            continue
        stuff = p[i:j]
        if len(stuff) >= 4 and stuff[0] != "!" and stuff[1] == "-" and stuff[0] > stuff[2] and stuff[3] == "!":
            return True
        i = j + 1
    return False


def empty_filter():
    return {"path": [], "desc": [], "tag": [], "property": [], "link": [], "passed": False, "failed": False, "skipped": False,
            "non_passed": False, "disabled": False, "enabled": False, "grep": None, "from_report": False}


def report_texts(report):
    out = []
    for chain, n, is_test in walk(report["suites"]):
        if is_test:
            for st in n["steps"]:
                out.append(st["desc"])
                for l in st["logs"]:
                    out += [x for x in l[1:] if isinstance(x, str)]
    return out


def gen_grep(rng, report):
    """mostly a digit (or two characters) taken from a text really present in the report, so that each text source decides"""
    if report and rng.random() < 0.12:
        # a pattern that straddles two ADJACENT texts of one test (end of one, a line break, beginning of the next): each text
        # is searched on its own, so such a pattern selects nothing
        pairs = []
        for chain, n, is_test in walk(report["suites"]):
            if is_test:
                seq = []
                for st in n["steps"]:
                    seq.append(st["desc"])
                    for l in st["logs"]:
                        seq += [x for x in l[1:] if isinstance(x, str)]
                pairs += [(a, b) for a, b in zip(seq, seq[1:]) if a and b]
        pairs = [(a, b) for a, b in pairs if all(ch.isalnum() or ch in "_ " for ch in a[-2:] + b[:2])]
        if pairs:
            a, b = rng.choice(pairs)
            return a[-rng.choice([1, 2]):] + "\n" + b[:rng.choice([1, 2])]
    texts = [t for t in report_texts(report) if any(ch.isdigit() for ch in t)] if report else []
    if texts and rng.random() < 0.75:
        t = rng.choice(texts)
        idx = [i for i, ch in enumerate(t) if ch.isdigit()]
        i = rng.choice(idx)
        g = t[i:i + rng.choice([1, 1, 2])]
        if all(ch.isdigit() or ch in "_ " for ch in g) and not g.startswith(" "):
            return g
    return rng.choice(GREPS + [""])


def gen_filter(rng, suites, report_mode, report=None):
    v = vocab(suites)
    f = empty_filter()
    kinds = ["path", "desc", "tag", "property", "link"]
    nk = rng.choice([0, 1, 1, 1, 2, 2, 3])
    for kind in rng.sample(kinds, nk):
        def one():
            if kind == "property":
                k = rng.choice(v["pkey"] + PKEYS[:3]) if rng.random() < 0.9 else rng.choice(PKEYS)
                return [k, gen_pattern(rng, v["pval"] + PVALS[:3])]
            return gen_pattern(rng, v[kind])
        if kind == "path":
            f["path"] = [one() for _ in range(rng.choice([1, 1, 2, 3]))]
        else:
            f[kind] = [[one() for _ in range(rng.choice([1, 1, 2, 3]))] for _ in range(rng.choice([1, 1, 1, 2, 3]))]
    r = rng.random()
    if r < 0.12:
        f["enabled"] = True
    elif r < 0.24:
        f["disabled"] = True
    elif r < 0.26:
        f["enabled"] = f["disabled"] = True
    if report_mode:
        for k in ("passed", "failed", "skipped", "non_passed"):
            f[k] = rng.random() < 0.3
        if rng.random() < 0.4:
            f["grep"] = gen_grep(rng, report)
        f["from_report"] = rng.random() < 0.6 or not (f["passed"] or f["failed"] or f["skipped"] or f["non_passed"] or f["grep"])
    return f


def argparse_ok(f):
    """can this expression be written on the command line as is?"""
    for p in f["path"]:
        if p.startswith("-"):
            return False
    for kind in ("desc", "tag", "link"):
        for g in f[kind]:
            if any(p.startswith("-") for p in g):
                return False
    for g in f["property"]:
        for k, val in g:
            if ":" in k or ":" in val or k.startswith("-"):
                return False
    if f["grep"] is not None and f["grep"].startswith("-"):
        return False
    return True


def to_argv(f):
    argv = list(f["path"])
    # positional values first; then options (each occurrence of an option = one AND-ed group)
    for kind, opt in (("desc", "--desc"), ("tag", "--tag"), ("link", "--link")):
        for g in f[kind]:
            argv += [opt] + list(g)
    for g in f["property"]:
        argv += ["--property"] + ["%s:%s" % (k, val) for k, val in g]
    for k, opt in (("passed", "--passed"), ("failed", "--failed"), ("skipped", "--skipped"), ("non_passed", "--non-passed"),
                   ("disabled", "--disabled"), ("enabled", "--enabled")):
        if f[k]:
            argv.append(opt)
    if f["grep"] is not None:
        argv += ["--grep", f["grep"]]
    return argv


# ----------------------------------------------------------------------------- reports
def gen_steps(rng):
    steps = []
    for _ in range(rng.choice([0, 1, 1, 2])):
        logs = []
        for _ in range(rng.choice([0, 1, 1, 2])):
            k = rng.choice(["log", "check", "att", "url"])
            if k == "log":
                logs.append(["log", rng.choice(["info", "error", "debug"]), rng.choice(LOG_MSGS)])
            elif k == "check":
                logs.append(["check", rng.choice(CHECK_DESCS), rng.random() < 0.7, rng.choice(CHECK_DETAILS)])
            elif k == "att":
                logs.append(["att", rng.choice(ATT_DESCS), rng.choice(ATT_FILES)])
            else:
                logs.append(["url", rng.choice(URL_DESCS), rng.choice(URLS)])
        steps.append({"desc": rng.choice(STEP_DESCS), "logs": logs})
    return steps


def gen_report(rng, suites):
    """a report a previous run of (a variant of) this project could have produced: same tree, some tests missing or extra,
    metadata mostly identical, every status including unfinished"""
    def rmeta(n):
        m = {"name": n["name"], "desc": n["desc"], "tags": list(n["tags"]), "props": [list(p) for p in n["props"]],
             "links": [list(l) for l in n["links"]]}
        if rng.random() < 0.15:
            m["tags"] = m["tags"] + [rng.choice(TAGS)]
        if rng.random() < 0.1:
            m["props"] = [p for p in m["props"] if p[0] != "k"] + [["k", rng.choice(PVALS)]]
        return m

    def rsuite(s, inherited_disabled):
        dis = inherited_disabled or bool(s["disabled"])
        out = rmeta(s)
        out["tests"] = []
        for t in s["tests"]:
            if rng.random() < 0.1:
                continue
            rt = rmeta(t)
            rt["status"] = "disabled" if (dis or t["disabled"]) and rng.random() < 0.8 else rng.choice(STATUSES)
            rt["steps"] = gen_steps(rng)
            out["tests"].append(rt)
        if rng.random() < 0.12:
            names = [t["name"] for t in out["tests"]]
            extra = [n for n in NAMES if n not in names]
            rt = rmeta(gen_meta(rng, rng.choice(extra), "extra test", 0.5))
            rt["status"] = rng.choice(STATUSES)
            rt["steps"] = gen_steps(rng)
            out["tests"].append(rt)
        out["suites"] = [rsuite(x, dis) for x in s["suites"] if rng.random() < 0.93]
        return out
    return {"suites": [rsuite(s, False) for s in suites if rng.random() < 0.95]}


# ----------------------------------------------------------------------------- glob pairs
def gen_glob_pair(rng, tier):
    r = rng.random()
    if r < 0.5:
        p = "".join(rng.choice(GLOB_ALPHA) for _ in range(rng.randint(0, 9)))
        s = "".join(rng.choice(GLOB_ALPHA) for _ in range(rng.randint(0, 6)))
    elif r < 0.85:
        s = rng.choice(DESCS + TAGS + ["http://bug/12", "a.b.c", "suite.sub.test_1"])
        p = mutate(rng, mutate(rng, s))
    else:
        # bracket-heavy
        body = "".join(rng.choice("abcd-!]^\\") for _ in range(rng.randint(1, 6)))
        p = rng.choice(["", "a", "*"]) + "[" + body + "]" + rng.choice(["", "*", "?", "b"])
        s = "".join(rng.choice("abcd-!]^\\x") for _ in range(rng.randint(0, 3)))
    return p, s


# ----------------------------------------------------------------------------- Gallina
class Pool:
    """string pool: every distinct string becomes one `Definition sN : str` in the case file"""

    def __init__(self):
        self.ids = {}

    def s(self, x):
        if x not in self.ids:
            self.ids[x] = "s%d" % len(self.ids)
        return self.ids[x]

    def defs(self):
        out = []
        for x, name in self.ids.items():
            out.append("Definition %s : str := [%s]%%N." % (name, "; ".join(str(ord(ch)) for ch in x)))
        return "\n".join(out) + "\n"


def c_list(xs):
    return "[" + "; ".join(xs) + "]"


def c_bool(b):
    return "true" if b else "false"


def c_meta(P, n):
    return "(M %s %s %s %s %s)" % (
        P.s(n["name"]), P.s(n["desc"]), c_list([P.s(t) for t in n["tags"]]),
        c_list(["(%s, %s)" % (P.s(k), P.s(v)) for k, v in n["props"]]),
        c_list(["(%s, %s)" % (P.s(u), "None" if nm is None else "Some %s" % P.s(nm)) for u, nm in n["links"]]))


def c_psuite(P, s):
    return "(PSuite %s %s %s %s)" % (
        c_meta(P, s), c_bool(bool(s["disabled"])),
        c_list(["(%s, %s)" % (c_meta(P, t), c_bool(bool(t["disabled"]))) for t in s["tests"]]),
        c_list([c_psuite(P, x) for x in s["suites"]]))


def c_args(P, f):
    groups = lambda gs: c_list([c_list([P.s(p) for p in g]) for g in gs])
    return "(mkArgs %s %s %s %s %s %s %s %s %s %s %s %s %s)" % (
        c_list([P.s(p) for p in f["path"]]), groups(f["desc"]), groups(f["tag"]),
        c_list([c_list(["(%s, %s)" % (P.s(k), P.s(v)) for k, v in g]) for g in f["property"]]), groups(f["link"]),
        c_bool(f["passed"]), c_bool(f["failed"]), c_bool(f["skipped"]), c_bool(f["non_passed"]),
        c_bool(f["disabled"]), c_bool(f["enabled"]),
        "None" if f["grep"] is None else "(Some %s)" % P.s(f["grep"]), c_bool(f["from_report"]))


def c_log(P, l):
    if l[0] == "log":
        return "(LLog %s %s 0%%Z)" % (P.s(l[1]), P.s(l[2]))
    if l[0] == "check":
        return "(LCheck %s %s %s 0%%Z)" % (P.s(l[1]), c_bool(l[2]), "None" if l[3] is None else "(Some %s)" % P.s(l[3]))
    if l[0] == "att":
        return "(LAttachment %s %s false 0%%Z)" % (P.s(l[1]), P.s(l[2]))
    return "(LUrl %s %s 0%%Z)" % (P.s(l[1]), P.s(l[2]))


def c_rtest(P, t):
    steps = c_list(["(mkStep %s None None %s)" % (P.s(s["desc"]), c_list([c_log(P, l) for l in s["logs"]])) for s in t["steps"]])
    return "(mkTest %s (mkResult None None %s None %s))" % (
        c_meta(P, t), "None" if t["status"] is None else "(Some %s)" % P.s(t["status"]), steps)


def c_rsuite(P, s):
    return "(SuiteResult %s None None None None %s %s)" % (
        c_meta(P, s), c_list([c_rtest(P, t) for t in s["tests"]]), c_list([c_rsuite(P, x) for x in s["suites"]]))


def c_report(P, r):
    return "(R %s)" % c_list([c_rsuite(P, s) for s in (r or {"suites": []})["suites"]])


def c_otree(P, o):
    return "(ONode %s %s %s)" % (P.s(o[0]), c_list([P.s(t) for t in o[1]]), c_list([c_otree(P, x) for x in o[2]]))


def c_expected(P, obs):
    if "ok" in obs:
        return "(Ok %s)" % c_list([c_otree(P, o) for o in obs["ok"]])
    return "(Err %s)" % obs["err"]


HEADER = """From Coq Require Import List NArith ZArith Bool.
Import ListNotations.
From LCC Require Import Base.Util Model.Report Model.Glob Model.Filter.
Definition M := mkMeta.
Definition R (l : list suite_result) : report := mkReport [] [] None None None 1%Z None None l.
Definition err_eqb (a b : err) : bool :=
  match a, b with EExclusive, EExclusive | ENoTests, ENoTests | ENoMatch, ENoMatch => true | _, _ => false end.
Definition agrees (c : cli_args * report * list psuite * res (list otree)) : bool :=
  let '(a, rep, suites, expected) := c in
  match lcc_select substring a rep suites, expected with
  | Ok l, Ok o => list_eqb otree_eqb (map observe l) o
  | Err e1, Err e2 => err_eqb e1 e2
  | _, _ => false
  end.
Definition gagrees (c : str * str * bool) : bool := let '(p, s, b) := c in Bool.eqb (fnmatch s p) b.
"""


def cases_file(cases):
    """cases: list of (filter, report or None, tree, observation)"""
    P = Pool()
    body = ";\n  ".join("(%s,\n   %s,\n   %s,\n   %s)" % (c_args(P, f), c_report(P, r), c_list([c_psuite(P, s) for s in t]),
                                                          c_expected(P, o)) for f, r, t, o in cases)
    return HEADER + P.defs() + \
        "Definition cases : list (cli_args * report * list psuite * res (list otree)) := [\n  %s\n].\n" % body + \
        "Eval vm_compute in (find_indexes (fun c => negb (agrees c)) cases).\n"


def glob_cases_file(pairs):
    P = Pool()
    body = ";\n  ".join("(%s, %s, %s)" % (P.s(p), P.s(s), c_bool(b)) for p, s, b in pairs)
    return HEADER + P.defs() + "Definition gcases : list (str * str * bool) := [\n  %s\n].\n" % body + \
        "Eval vm_compute in (find_indexes (fun c => negb (gagrees c)) gcases).\n"
