"""The writer half of C05 on LIVE streams: the recorded event streams of a 1-thread run and of an N-thread run of one project are
turned into the premises of Proofs/TwoRunsP.two_runs_via_base and evaluated inside Coq.

  raw1, rawN     the events as the real backends received them (C18's encoding of real event objects), attachment file names
                 without their NNNN_ uniquifier (a global counter: C06 constrains it, C05's normal form drops it)
  tags           the position of the "same" event in the 1-thread stream: the k-th event of task t in both runs
  base_par       the N-thread stream, tagged, every task under a thread identifier of its own (1 + index of the task);
                 base_seq = base_par sorted by tag (computed inside Coq): the same events in the order of the 1-thread run
  f              task's own thread identifier -> the worker thread that ran the task in the N-thread run
  T              the worker thread of the 1-thread run
  task_of        tag -> index of the emitting task in the implementation's task graph (two pseudo-tasks for the session start /
                 end events fired by the main thread)
  ordered        a -> the tasks that transitively depend on a (success and completion edges of the graph)

Evaluated per pair (vm_compute):
  W1/WN  Writer.aggregate raw = Ok (tree report)      the writer model rebuilds the report of each LIVE run
  P      TwoRunsP.two_runs_base_failed ... = []        every premise of the theorem holds on this pair
  MN     map (rename f) base_par = rawN                the base stream merged by worker IS the observed N-thread stream
  A      Saving.all_admissible raw1, rawN; AdmissibleOrderP.coverage_admb base_seq   (C07 / C10: the bracket discipline of both
         live streams, and the premise under which it carries over from the sequential order to every interleaving)
  M1     map (rename (fun _ => T)) base_seq = raw1     the base stream in sequential order, merged into one thread, IS the
         (modulo times)                                 observed 1-thread stream
so that, by the theorem, the writer state after the N-thread stream and after the 1-thread stream (with the N-thread run's
times) have the same normal form: the N-thread report is the 1-thread report modulo times and thread identifiers."""
import copy
import re

import lib
from lib import c_list, c_nat
from props import c18
import gen_reports_views as G

PREMISES = ["permb: same tagged events in both orders", "each task's own events keep their order",
            "sequential order: a task's events come after the events of the tasks it depends on",
            "parallel order: a task's events come after the events of the tasks it depends on",
            "coverage: dependent events come from the same task or from tasks ordered by the graph",
            "the sequential order is accepted by the writer model", "every log goes to the open step of its own thread (aligned)",
            "sibling sort keys are distinct", "steps of different threads never overlap in the sequential order (merge_ok)",
            "steps of the tasks run by one worker never overlap in the parallel order (merge_ok by worker)"]

_PREFIX = re.compile(r"^(attachments/)?\d{4}_")


class Unusable(Exception):
    pass


def _strip_event(e):
    e = copy.deepcopy(e)
    if e[0] == "log_attachment":
        e[4] = _PREFIX.sub(lambda m: m.group(1) or "", e[4])
    return e


def _strip_report(d):
    d = copy.deepcopy(d)
    for r in G._results_of(d):
        for st in r["steps"]:
            for l in st["logs"]:
                if l[0] == "attachment":
                    l[2] = _PREFIX.sub(lambda m: m.group(1) or "", l[2])
    return d


def _tasks_of_events(r):
    """[(task key, plain event)] in queue order.  The trace gives, for every fire, the firing thread; a worker thread is
    inside the task it took last."""
    plain = r.get("plain_events")
    if plain is None:
        raise Unusable("no plain events recorded")
    cur, out, k = {}, [], 0
    for a in r.get("trace") or []:
        th, kind = a[0], a[1]
        if kind == "take":
            cur[th] = tuple(a[3])
        elif kind == "finish":
            cur.pop(th, None)
        elif kind == "fire":
            if k >= len(plain):
                raise Unusable("more fires than handled events")
            pth, ev = plain[k]
            k += 1
            if ev[0] == "unencodable":
                raise Unusable("event outside Model/Events.v: %s" % ev[1])
            if pth != th or ev[0] != a[2][0]:
                raise Unusable("queue order is not fire order at event %d: fired %s by %s, handled %s by %s" % (k, a[2][0], th, ev[0], pth))
            if th == "main":
                task = ("main", "start" if ev[0] == "test_session_start" else "end")
            elif th in cur:
                task = cur[th]
            else:
                raise Unusable("event %s fired by %s outside any task" % (ev[0], th))
            out.append((task, _strip_event(ev)))
    if k != len(plain):
        raise Unusable("%d events handled, %d fired" % (len(plain), k))
    return out


def _payload_key(e):
    """The event without its time and thread (what must be equal between the two runs)."""
    e = list(e)
    k = e[0]
    body = e[1:-1]
    if k in ("step_start", "step_end", "log", "check", "log_attachment", "log_url"):
        body = body[:2] + body[3:]
    return repr([k] + body)


def build_pair(r1, rn):
    """-> dict with everything the Coq case needs, or raises Unusable."""
    e1, en = _tasks_of_events(r1), _tasks_of_events(rn)
    graph = r1.get("graph") or []
    index = {tuple(t["label"]): i for i, t in enumerate(graph)}
    n = len(graph)
    index[("main", "start")], index[("main", "end")] = n, n + 1
    if [tuple(t["label"]) for t in (rn.get("graph") or [])] != [tuple(t["label"]) for t in graph]:
        raise Unusable("the two runs built different task graphs")
    # transitive closure of "d is a dependency of t"
    deps = {i: set(x for x in t["succ"] + t["compl"] if x >= 0) for i, t in enumerate(graph)}
    closure = {}

    def reach(i):
        if i not in closure:
            closure[i] = set()
            for d in deps[i]:
                closure[i] |= {d} | reach(d)
        return closure[i]
    pairs = []
    for i in range(n):
        pairs += [(d, i) for d in sorted(reach(i))]
        pairs += [(n, i), (i, n + 1)]
    pairs.append((n, n + 1))
    # tags
    seen, where = {}, {}
    for pos, (task, ev) in enumerate(e1):
        if task not in index:
            raise Unusable("task %s not in the graph" % (task,))
        k = seen.get(task, 0)
        seen[task] = k + 1
        where[(task, k)] = pos
    seen = {}
    ts_par = []
    for task, ev in en:
        k = seen.get(task, 0)
        seen[task] = k + 1
        if (task, k) not in where:
            return {"differs": "task %s fires more events with %d threads than with one" % (list(task), rn.get("nb_threads", 0))}
        tag = where[(task, k)]
        if _payload_key(e1[tag][1]) != _payload_key(ev):
            return {"differs": "event %d of task %s is %s with one thread but %s with several" % (k, list(task), e1[tag][1][:3], ev[:3])}
        ts_par.append((tag, ev))
    if len(ts_par) != len(e1):
        return {"differs": "%d events with one thread, %d with several" % (len(e1), len(ts_par))}
    threaded = ("step_start", "step_end", "log", "check", "log_attachment", "log_url")
    threads1 = set(ev[3] for _, ev in e1 if ev[0] in threaded)
    if len(threads1) > 1:
        raise Unusable("the one-thread run used %d thread identifiers" % len(threads1))
    # the base stream: every task under a thread identifier of its own; f sends it back to the worker that ran the task
    task_at = {tag: index[t] for tag, (t, _) in enumerate(e1)}
    worker = {}
    base_par = []
    for tag, ev in ts_par:
        if ev[0] in threaded:
            ti = task_at[tag]
            if worker.setdefault(ti, ev[3]) != ev[3]:
                raise Unusable("task %d fired events from two threads" % ti)
            ev = ev[:3] + [ti + 1] + ev[4:]
        base_par.append((tag, ev))
    succs = [[] for _ in range(n + 2)]
    for a, b in pairs:
        succs[a].append(b)
    return {"raw1": [ev for _, ev in e1], "rawn": [ev for _, ev in ts_par], "base_par": base_par,
            "task_of": [index[t] for t, _ in e1], "succs": succs,
            "f": [0] + [worker.get(i, i + 1) for i in range(n + 2)],
            "T": (list(threads1) or [1])[0], "report1": _strip_report(r1["report_desc"]), "reportn": _strip_report(rn["report_desc"]),
            "n_tasks": n, "n_events": len(e1), "n_threads_seen": len(set(worker.values()))}


HEADER = """From Coq Require Import List NArith ZArith Bool Arith.
Import ListNotations.
From LCC Require Import Base.Util Model.Report Model.Events Model.Writer Model.Replay Model.Saving Proofs.WriterOrderP Proofs.LinearizeP Proofs.TwoRunsP
  Proofs.AdmissibleOrderP.
Open Scope Z_scope.
Fixpoint ins (x : nat * event) (l : list (nat * event)) : list (nat * event) :=
  match l with [] => [x] | y :: r => if Nat.leb (fst x) (fst y) then x :: l else y :: ins x r end.
Definition by_tag (l : list (nat * event)) : list (nat * event) := fold_right ins [] l.
(* raw 1-thread stream, raw N-thread stream, tagged base stream in N-thread order, task table, successors, f, T, report 1, report N *)
Definition pcase := (list event * list event * list (nat * event) * list nat * list (list nat) * list Z * Z * report * report)%type.
Definition verdict (c : pcase) : list nat :=
  match c with
  | (raw1, rawn, base_par, tbl, succs, ftbl, T, r1, rn) =>
      let base_seq := by_tag base_par in
      (if res_eqb report_eqb (aggregate raw1) (Ok (tree r1)) then [] else [100%nat]) ++
      (if res_eqb report_eqb (aggregate rawn) (Ok (tree rn)) then [] else [101%nat]) ++
      two_runs_base_failed (task_of_table tbl) (ordered_of_succs succs) base_seq base_par (thread_table ftbl) T ++
      (if stream_eqb_mod_time (map (rename (fun _ => T)) (map snd base_seq)) raw1 then [] else [102%nat]) ++
      (if list_eqb event_eqb (map (rename (thread_table ftbl)) (map snd base_par)) rawn then [] else [103%nat]) ++
      (* the bracket discipline (C07 / C10's `admissible`) of both live streams, and the premise under which it carries over
         from the sequential order to every interleaving of the tasks (AdmissibleOrderP) *)
      (if all_admissible init_wstate raw1 then [] else [104%nat]) ++
      (if all_admissible init_wstate rawn then [] else [105%nat]) ++
      (if coverage_admb (task_of_table tbl) (ordered_of_succs succs) base_seq then [] else [106%nat])
  end.
"""


def c_case(p):
    nat = lambda x: "%d%%nat" % x
    return "(%s,\n %s,\n %s,\n %s, %s, %s, %s,\n %s,\n %s)" % (
        c_list(p["raw1"], c18.c_event), c_list(p["rawn"], c18.c_event),
        c_list(p["base_par"], lambda te: "(%d%%nat, %s)" % (te[0], c18.c_event(te[1]))),
        c_list(p["task_of"], nat), c_list(p["succs"], lambda l: c_list(l, nat)), c_list(p["f"], lib.c_Z),
        lib.c_Z(p["T"]), G.c_report(p["report1"]), G.c_report(p["reportn"]))


def case_file(pairs):
    return HEADER + "".join("Definition c%d : pcase :=\n%s.\nEval vm_compute in (verdict c%d).\n" % (k, c_case(p), k)
                            for k, p in enumerate(pairs))


def explain(code):
    if code == 100:
        return "Writer.aggregate(1-thread live stream) = its report"
    if code == 101:
        return "Writer.aggregate(N-thread live stream) = its report"
    if code == 102:
        return "the base stream in sequential order, merged into one thread, is the 1-thread stream (modulo times)"
    if code == 103:
        return "the base stream merged by worker is the observed N-thread stream"
    if code == 104:
        return "Saving.all_admissible accepts the 1-thread live stream (bracket discipline)"
    if code == 105:
        return "Saving.all_admissible accepts the N-thread live stream (bracket discipline)"
    if code == 106:
        return "coverage for indep_adm: events whose order admissibility reads come from the same task or from ordered tasks"
    return "premise of TwoRunsP.two_runs_via_base: " + (PREMISES[code] if code < len(PREMISES) else str(code))
