"""Runs batches of co-simulation cases through harness/corun.py driver subprocesses (parallel, restarted after a hang)."""
import json
import os
import subprocess
import threading

import lib


def _worker(cases, results, lock, timeout_per_case):
    env = dict(os.environ)
    env.update({"PYTHONPATH": lib.REPO + os.pathsep + os.path.join(lib.ROOT, "harness"), "PYTHONHASHSEED": "0",
                "PYTHONDONTWRITEBYTECODE": "1", "LCC_VERIF": "1"})
    i = 0
    while i < len(cases):
        proc = subprocess.Popen([lib.PY, os.path.join(lib.ROOT, "harness", "corun.py")], stdin=subprocess.PIPE,
                                stdout=subprocess.PIPE, stderr=subprocess.DEVNULL, env=env, text=True, cwd="/tmp")
        try:
            while i < len(cases):
                case = cases[i]
                proc.stdin.write(json.dumps(case) + "\n")
                proc.stdin.flush()
                line = _readline(proc, timeout_per_case)
                if line is None:
                    with lock:
                        results[case["id"]] = {"id": case["id"], "outcome": ["hang", "driver did not answer within %ss" % timeout_per_case]}
                    i += 1
                    break
                res = json.loads(line)
                with lock:
                    results[case["id"]] = res
                i += 1
                if res.get("outcome") and res["outcome"][0] == "hang":
                    break
        finally:
            try:
                proc.kill()
            except OSError:
                pass
            proc.wait()


def _readline(proc, timeout):
    box = []
    t = threading.Thread(target=lambda: box.append(proc.stdout.readline()), daemon=True)
    t.start()
    t.join(timeout)
    if t.is_alive() or not box or not box[0]:
        return None
    return box[0]


def run_cases(cases, jobs=None, timeout_per_case=90):
    """cases: list of dicts with unique 'id'. Returns {id: result}."""
    jobs = jobs or max(1, min(lib.NCPU - 2, 12))
    results, lock = {}, threading.Lock()
    chunks = [cases[k::jobs] for k in range(jobs)]
    threads = [threading.Thread(target=_worker, args=(c, results, lock, timeout_per_case)) for c in chunks if c]
    for t in threads:
        t.start()
    for t in threads:
        t.join()
    return results
